"""Interval evaluation of expression trees + facts from dominating guards (E3 discharge classes
`interval` and `guard`)."""
import re
from .expr import Ex, norm, show, alts, walk, canon

INT_RANGES = {}
for bits in (8, 16, 32, 64, 128):
    INT_RANGES["u%d" % bits] = (0, (1 << bits) - 1)
    INT_RANGES["i%d" % bits] = (-(1 << (bits - 1)), (1 << (bits - 1)) - 1)
INT_RANGES["usize"] = INT_RANGES["u64"]
INT_RANGES["isize"] = INT_RANGES["i64"]
INT_RANGES["bool"] = (0, 1)
INT_RANGES["char"] = (0, 0x10FFFF)

TOP = (-(1 << 200), 1 << 200)


def ty_range(ty):
    return INT_RANGES.get(ty, TOP)


def bits_of(ty):
    m = re.match(r"[ui](\d+)$", ty or "")
    if m:
        return int(m.group(1))
    if ty in ("usize", "isize"):
        return 64
    return None


def clamp(r, ty):
    lo, hi = r
    tlo, thi = ty_range(ty)
    if lo < tlo or hi > thi:
        return (tlo, thi)
    return r


class Intervals:
    """range_of(expr, ty) -> (lo, hi), conservative. `summaries` maps callee path regex -> (lo, hi) for crate-local
    functions whose every return value is a known constant (computed by the caller)."""

    def __init__(self, summaries=None, facts=None, argtys=None):
        self.summaries = summaries or {}
        self.facts = facts or []   # list of (op, x_expr, y_expr) known true (normed expressions)
        self.argtys = argtys or {}  # parameter index -> declared type (a conversion call like u64::from(x) hides the source width)

    def range_of(self, e, ty, depth=0):
        r = self._range(e, ty, depth)
        # refine with guard facts comparing this very expression with something of known range
        lo, hi = r
        ce = canon(e)
        for (op, x, y) in self.facts:
            x, y = canon(x), canon(y)
            if x == ce:
                ylo, yhi = self._range(y, ty, depth + 1) if depth < 6 else TOP
                if op == "Lt":
                    hi = min(hi, yhi - 1)
                elif op == "Le":
                    hi = min(hi, yhi)
                elif op == "Gt":
                    lo = max(lo, ylo + 1)
                elif op == "Ge":
                    lo = max(lo, ylo)
                elif op == "Eq":
                    lo, hi = max(lo, ylo), min(hi, yhi)
                elif op == "Ne" and ylo == yhi:
                    if lo == ylo:
                        lo += 1
                    if hi == yhi:
                        hi -= 1
            elif y == ce:
                xlo, xhi = self._range(x, ty, depth + 1) if depth < 6 else TOP
                if op == "Lt":      # x < e
                    lo = max(lo, xlo + 1)
                elif op == "Le":
                    lo = max(lo, xlo)
                elif op == "Gt":    # x > e
                    hi = min(hi, xhi - 1)
                elif op == "Ge":
                    hi = min(hi, xhi)
                elif op == "Eq":
                    lo, hi = max(lo, xlo), min(hi, xhi)
        return (lo, hi)

    def _range(self, e, ty, depth):
        if depth > 30:
            return ty_range(ty)
        k = e[0]
        if k == "const":
            if isinstance(e[2], int):
                return (e[2], e[2])
            return ty_range(ty if ty else e[1])
        if k == "named":
            if isinstance(e[2], int):
                return (e[2], e[2])
            return ty_range(ty)
        if k == "arg" and e[1] in self.argtys and self.argtys[e[1]] in INT_RANGES:
            return _isect(ty_range(self.argtys[e[1]]), ty_range(ty)) if ty in INT_RANGES else ty_range(self.argtys[e[1]])
        if k == "cast":
            inner = self.range_of(e[1], e[2], depth + 1)
            inner = _isect(inner, ty_range(e[2]))
            tlo, thi = ty_range(e[3])
            if inner[0] >= tlo and inner[1] <= thi:
                return inner
            return (tlo, thi)
        if k == "bin":
            op = e[1]
            if op in ("Eq", "Ne", "Lt", "Le", "Gt", "Ge"):
                return (0, 1)
            a = self.range_of(e[2], ty, depth + 1)
            if op in ("Shl", "Shr", "ShlUnchecked", "ShrUnchecked"):
                b = self.range_of(e[3], "u32", depth + 1)
            else:
                b = self.range_of(e[3], ty, depth + 1)
            r = self._binop(op, a, b, ty)
            if r is None:
                return ty_range(ty)
            # the result is a value of type `ty`: on the checked (dev-profile) MIR an out-of-range result panics instead
            tlo, thi = ty_range(ty)
            r = (max(r[0], tlo), min(r[1], thi))
            return r if r[0] <= r[1] else ty_range(ty)
        if k == "un":
            if e[1] == "Not" and ty == "bool":
                return (0, 1)
            return ty_range(ty)
        if k == "phi":
            rs = [self.range_of(a, ty, depth + 1) for a in e[1]]
            return (min(r[0] for r in rs), max(r[1] for r in rs))
        if k == "len":
            return (0, (1 << 63) - 1)
        if k == "call":
            name = e[1]
            res = e[3] or ""
            for pat, rng in self.summaries.items():
                if not pat.startswith("ok:") and (re.search(pat, name) or re.search(pat, res)):
                    return rng
            if re.search(r"cmp::Ord::min$|::min$", name) and len(e[2]) == 2:
                a = self.range_of(e[2][0], ty, depth + 1)
                b = self.range_of(e[2][1], ty, depth + 1)
                return (min(a[0], b[0]), min(a[1], b[1]))
            if re.search(r"cmp::Ord::max$|::max$", name) and len(e[2]) == 2:
                a = self.range_of(e[2][0], ty, depth + 1)
                b = self.range_of(e[2][1], ty, depth + 1)
                return (max(a[0], b[0]), max(a[1], b[1]))
            if re.search(r"::len$", name) and e[2] and e[2][0][0] == "call" and re.search(r"vec::from_elem$", e[2][0][1]) and len(e[2][0][2]) == 2:
                return _isect(self.range_of(e[2][0][2][1], "usize", depth + 1), (0, (1 << 63) - 1))
            if re.search(r"::len$|::count$|::position$|::capacity$", name):
                return _isect((0, (1 << 63) - 1), ty_range(ty))
            if re.search(r"saturating_sub$", name) and len(e[2]) == 2:
                a = self.range_of(e[2][0], ty, depth + 1)
                return (ty_range(ty)[0] if ty_range(ty)[0] > -1 else 0, a[1]) if ty.startswith("u") else ty_range(ty)
            return ty_range(ty)
        if k == "ok":
            inner = e[1]
            if inner[0] == "call":
                m = re.search(r"ReadBytesExt::read_u(8|16|32|64)$", inner[1])
                if m:
                    return (0, (1 << int(m.group(1))) - 1)
                for pat, rng in self.summaries.items():
                    if pat.startswith("ok:") and (re.search(pat[3:], inner[1]) or re.search(pat[3:], inner[3] or "")):
                        return rng
            return ty_range(ty)
        return ty_range(ty)

    def _binop(self, op, a, b, ty):
        (alo, ahi), (blo, bhi) = a, b
        if op in ("Add", "AddWithOverflow", "AddUnchecked"):
            return (alo + blo, ahi + bhi)
        if op in ("Sub", "SubWithOverflow", "SubUnchecked"):
            return (alo - bhi, ahi - blo)
        if op in ("Mul", "MulWithOverflow", "MulUnchecked"):
            c = [alo * blo, alo * bhi, ahi * blo, ahi * bhi]
            return (min(c), max(c))
        if op == "BitAnd":
            if alo >= 0 and blo >= 0:
                return (0, min(ahi, bhi))
            return None
        if op in ("BitOr", "BitXor"):
            if alo >= 0 and blo >= 0:
                m = max(ahi, bhi)
                return (0, (1 << m.bit_length()) - 1)
            return None
        if op in ("Shr", "ShrUnchecked"):
            if alo >= 0 and blo >= 0 and bhi < 256:
                return (alo >> bhi, ahi >> blo)
            return None
        if op in ("Shl", "ShlUnchecked"):
            if alo >= 0 and blo >= 0 and bhi < 256:
                hi = ahi << bhi
                tlo, thi = ty_range(ty)
                if hi > thi:   # bits shifted out: wraps silently (shift overflow is only about the amount)
                    return (tlo, thi)
                return (alo << blo, hi)
            return None
        if op == "Rem":
            if blo > 0 and alo >= 0:
                return (0, min(ahi, bhi - 1))
            return None
        if op == "Div":
            if blo > 0 and alo >= 0:
                return (alo // bhi, ahi // blo)
            return None
        return None


def _isect(a, b):
    return (max(a[0], b[0]), min(a[1], b[1]))


# ----------------------------------------------------------------------------- guards

CMP = ("Eq", "Ne", "Lt", "Le", "Gt", "Ge")
NEG = {"Eq": "Ne", "Ne": "Eq", "Lt": "Ge", "Ge": "Lt", "Gt": "Le", "Le": "Gt"}


def edge_facts(fn, ex, bb, taken_target):
    """facts established by leaving switch block `bb` through the edge to `taken_target`.
    Returns a list of (op, x, y) over normed expressions, or ('truth', e, bool) for opaque booleans."""
    t = fn.term(bb)
    if not t or t["k"] != "switch":
        return []
    d = norm(ex.operand(t["discr"], (bb, None)))
    vals = [v for v, tgt in t["targets"] if tgt == taken_target]
    is_otherwise = (t["otherwise"] == taken_target)
    others = [v for v, tgt in t["targets"]]
    out = []
    if t["dty"] == "bool":
        # value 0 -> false; otherwise -> true
        if vals == [0] and not is_otherwise:
            truth = False
        elif is_otherwise and others == [0] and not vals:
            truth = True
        elif vals == [1] and not is_otherwise:
            truth = True
        else:
            return []
        out.extend(bool_facts(d, truth))
        out.extend(_bool_local_implied(fn, ex, t["discr"], truth))
        return out
    # integer / discriminant switches
    if len(vals) == 1 and not is_otherwise:
        out.append(("Eq", d, ("const", t["dty"], vals[0])))
    elif is_otherwise and not vals:
        for v in others:
            out.append(("Ne", d, ("const", t["dty"], v)))
    return out


_IMPL_DEPTH = [0]


def _bool_local_implied(fn, ex, discr, truth):
    """`let c = a && b; if c {..}`: the short-circuit lowering assigns `c` a constant on the edges that decide it early and the last
    operand's value in ONE block; when the branch on `c` goes the way no constant assignment can explain, execution passed through
    that block, so every fact that dominates it (the earlier operands) holds as well."""
    if discr["k"] == "const" or discr["place"]["p"] or _IMPL_DEPTH[0] > 3:
        return []
    seen, l = set(), discr["place"]["l"]
    # follow plain copies `tmp = c`
    for _ in range(4):
        defs = [(bi, s) for bi, si, s in fn.stmts() if s["k"] == "assign" and s["place"]["l"] == l and not s["place"]["p"]]
        if len(defs) == 1 and defs[0][1]["rv"]["k"] == "use" and defs[0][1]["rv"]["op"]["k"] != "const" and not defs[0][1]["rv"]["op"]["place"]["p"] \
                and defs[0][1]["rv"]["op"]["place"]["l"] not in seen:
            seen.add(l)
            l = defs[0][1]["rv"]["op"]["place"]["l"]
            continue
        break
    if any(t_ and t_["k"] == "call" and t_["dest"]["l"] == l and not t_["dest"]["p"] for t_ in (fn.term(b) for b in range(len(fn.blocks)))):
        return []
    consts, others = [], []
    for bi, s in defs:
        rv = s["rv"]
        if rv["k"] == "use" and rv["op"]["k"] == "const" and rv["op"].get("v") is not None:
            consts.append(int(rv["op"]["v"]))
        else:
            others.append(bi)
    if len(others) != 1 or not consts or any(c != (0 if truth else 1) for c in consts):
        return []
    _IMPL_DEPTH[0] += 1
    try:
        return dominating_facts(fn, ex, others[0])
    finally:
        _IMPL_DEPTH[0] -= 1


def bool_facts(d, truth):
    """decompose a boolean expression known to be `truth`"""
    out = []
    k = d[0]
    if k == "un" and d[1] == "Not":
        return bool_facts(d[2], not truth)
    if k == "bin" and d[1] in CMP:
        op = d[1] if truth else NEG[d[1]]
        out.append((op, d[2], d[3]))
        return out
    if k == "phi":
        # short-circuit joins: φ(x | false) known true => x true ; φ(x | true) known false => x false
        parts = list(d[1])
        consts = [p for p in parts if p[0] == "const" and isinstance(p[2], int)]
        rest = [p for p in parts if not (p[0] == "const" and isinstance(p[2], int))]
        if truth and consts and all(c[2] == 0 for c in consts) and len(rest) == 1:
            return bool_facts(rest[0], True)
        if (not truth) and consts and all(c[2] == 1 for c in consts) and len(rest) == 1:
            return bool_facts(rest[0], False)
        return [("truth", d, truth)]
    out.append(("truth", d, truth))
    return out


def dominating_facts(fn, ex, bb):
    """facts from every switch edge that *must* have been taken to reach block bb:
    for a dominating switch block D, the unique successor S of D such that bb is reachable from S
    but from no other successor of D (without re-passing D)."""
    facts = []
    dom = fn.dominators()
    if bb not in dom:
        return facts
    for d in sorted(dom[bb]):
        if d == bb:
            continue
        t = fn.term(d)
        if not t or t["k"] != "switch":
            continue
        succs = fn.succ(d)
        reaching = []
        for s in succs:
            if s == bb or bb in fn.reach_from_inclusive(s, avoid={d}):
                reaching.append(s)
        if len(reaching) == 1:
            facts.extend(edge_facts(fn, ex, d, reaching[0]))
    return facts


def argtys_of(fn):
    return {i: fn.locals[i]["ty"] for i in range(1, fn.arg_count + 1)}
