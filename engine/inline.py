"""E0: MIR-JSON inlining of *unknown private helpers* (DESIGN.md §2.1b).

A behaviour-preserving refactor often moves a block of a function into a new private helper.  Rules that hang on the shape of
the original function would then lose their anchor.  Before the structural rules run, every call to a crate-local, private,
non-recursive function whose name no rule refers to is replaced by the callee's body (arguments bound by assignments, returns
turned into an assignment to the call's destination + goto).  Functions the rules know by name are never inlined, so that rules can
still find their call sites.  The panic inventory (E3) runs on the original bodies.
"""
import copy
import glob
import os
import re

from .mir import Fn

HERE = os.path.dirname(os.path.dirname(os.path.abspath(__file__)))
MAX_BLOCKS = 160
MAX_ROUNDS = 3
# names built dynamically by rules (not visible to the word scan)
KEEP = {"deflate_compression_level_range", "bzip2_compression_level_range"}


def known_names():
    src = ""
    for p in glob.glob(os.path.join(HERE, "rules", "*.py")) + glob.glob(os.path.join(HERE, "engine", "*.py")):
        if p.endswith("inline.py"):
            continue
        with open(p) as fh:
            src += fh.read() + "\n"
    return set(re.findall(r"[A-Za-z_][A-Za-z0-9_]*", src)) | KEEP


def _shift(node, loff, boff):
    """deep-copy a MIR JSON node shifting local indices by loff and block indices by boff"""
    if isinstance(node, list):
        return [_shift(x, loff, boff) for x in node]
    if not isinstance(node, dict):
        return node
    out = {}
    for k, v in node.items():
        if k == "l" and isinstance(v, int):
            out[k] = v + loff
        elif k in ("target", "otherwise", "unwind") and isinstance(v, int):
            out[k] = v + boff
        elif k == "targets" and isinstance(v, list):
            out[k] = [[val, bb + boff] for val, bb in v]
        else:
            out[k] = _shift(v, loff, boff)
    return out


def _inline_call(raw, bi, callee_raw):
    """inline callee_raw at the call terminating block bi of raw (mutates raw)"""
    blk = raw["blocks"][bi]
    t = blk["term"]
    loff = len(raw["locals"])
    boff = len(raw["blocks"])
    for l in callee_raw["locals"]:
        raw["locals"].append(dict(l))
    # bind arguments
    span = t["span"]
    for i, a in enumerate(t["args"]):
        pl = {"l": loff + 1 + i, "p": [], "ty": callee_raw["locals"][1 + i]["ty"] if 1 + i < len(callee_raw["locals"]) else "?"}
        blk["stmts"].append({"k": "assign", "place": pl, "rv": {"k": "use", "op": a}, "span": span, "expn": None})
    dest, target = t["dest"], t.get("target")
    blk["term"] = {"k": "goto", "target": boff, "span": span, "expn": t.get("expn")}
    for cb in callee_raw["blocks"]:
        nb = _shift(cb, loff, boff)
        tt = nb["term"]
        if tt and tt["k"] == "return":
            ret_local = {"k": "move", "place": {"l": loff, "p": [], "ty": callee_raw["locals"][0]["ty"]}}
            nb["stmts"].append({"k": "assign", "place": dest, "rv": {"k": "use", "op": ret_local}, "span": tt["span"], "expn": None})
            if target is None:
                nb["term"] = {"k": "unreachable", "span": tt["span"], "expn": None}
            else:
                nb["term"] = {"k": "goto", "target": target, "span": tt["span"], "expn": None}
        raw["blocks"].append(nb)
    # promoted constants of the callee: re-index
    base = len(raw.get("promoted") or [])
    if callee_raw.get("promoted"):
        raw.setdefault("promoted", [])
        raw["promoted"].extend(copy.deepcopy(callee_raw["promoted"]))

        def fix(node):
            if isinstance(node, list):
                for x in node:
                    fix(x)
            elif isinstance(node, dict):
                if node.get("k") == "const" and "promoted" in node:
                    node["promoted"] = int(node["promoted"]) + base
                for v in node.values():
                    fix(v)
        for nb in raw["blocks"][boff:]:
            fix(nb)


def inline_unknown_helpers(facts):
    """returns {path: Fn} of functions with unknown private helpers inlined, and the list of (caller, callee) pairs inlined"""
    known = known_names()
    by_path = facts.by_path
    cg = facts.callgraph()

    def reaches(a, b, seen=None):
        seen = seen or set()
        if a == b:
            return True
        if a in seen:
            return False
        seen.add(a)
        return any(reaches(x, b, seen) for x in cg.get(a, ()))

    def inlinable(callee):
        if callee.kind != "AssocFn" and callee.kind != "Fn":
            return False
        if callee.name in known:
            return False
        if callee.vis == "Public" and not re.search(r"Restricted", callee.vis or ""):
            # `pub` items of private modules are still API-ish: leave them alone unless clearly internal
            if callee.impl_trait:
                return False
            return False
        if callee.impl_trait:
            return False
        if len(callee.blocks) > MAX_BLOCKS:
            return False
        return True

    out = {}
    done = []
    for f in facts.fns:
        raw = None
        for _ in range(MAX_ROUNDS):
            cur = Fn(raw) if raw is not None else f
            todo = []
            for bi, t in cur.calls():
                tg = facts.local_targets(t)
                if len(tg) != 1 or tg[0] == f.path or tg[0] not in by_path:
                    continue
                callee = by_path[tg[0]]
                if not inlinable(callee) or reaches(callee.path, f.path):
                    continue
                if len(t["args"]) != callee.arg_count:
                    continue
                todo.append((bi, callee))
            if not todo:
                break
            if raw is None:
                raw = copy.deepcopy(f.raw)
            for bi, callee in todo:
                _inline_call(raw, bi, callee.raw)
                done.append((f.path, callee.path))
        if raw is not None:
            out[f.path] = Fn(raw)
    return out, done
