"""E0: MIR-JSON inlining of *unknown private helpers* (DESIGN.md §2.1b).

A behaviour-preserving refactor often moves a block of a function into a new private helper.  Rules that hang on the shape of
the original function would then lose their anchor.  Before the structural rules run, every call to a crate-local, private,
non-recursive function whose name no rule refers to is replaced by the callee's body (arguments bound by assignments, returns
turned into an assignment to the call's destination + goto).  Functions the rules know by name are never inlined, so that rules can
still find their call sites.  The panic inventory (E3) runs on the original bodies.
"""
import copy
import glob
import os
import re

from .mir import Fn

HERE = os.path.dirname(os.path.dirname(os.path.abspath(__file__)))
MAX_BLOCKS = 160
MAX_ROUNDS = 3
# names built dynamically by rules (not visible to the word scan)
KEEP = {"deflate_compression_level_range", "bzip2_compression_level_range"}


_KNOWN = None


def known_names():
    """identifiers the rules can address a function by: those occurring in string literals of the rule/engine sources that look like
    anchors (a path or a regex: contain `::`, `$`, `^`, `|`, or are at most three words) -- not the prose of comments, docstrings and
    messages, which used to pin down every helper that happened to share an English word with them"""
    global _KNOWN
    if _KNOWN is not None:
        return _KNOWN
    import io
    import tokenize
    names = set()
    for p in glob.glob(os.path.join(HERE, "rules", "*.py")) + glob.glob(os.path.join(HERE, "engine", "*.py")):
        if p.endswith("inline.py"):
            continue
        with open(p) as fh:
            src = fh.read()
        prev = None
        for tok in tokenize.generate_tokens(io.StringIO(src).readline):
            if tok.type == tokenize.STRING:
                s = tok.string
                doc = prev in (None, tokenize.NEWLINE, tokenize.INDENT, tokenize.DEDENT, tokenize.NL) and re.match(r'^[rbuRBU]*("""|\'\'\')', s)
                body = re.sub(r'^[rbuRBUfF]*("""|\'\'\'|"|\')|("""|\'\'\'|"|\')$', "", s)
                if not doc and (re.search(r"::|\$|\^|\|", body) or len(body.split()) <= 3):
                    names |= set(re.findall(r"[A-Za-z_][A-Za-z0-9_]*", body))
            if tok.type not in (tokenize.COMMENT,):
                prev = tok.type
    _KNOWN = names | KEEP
    return _KNOWN


def _shift(node, loff, boff):
    """deep-copy a MIR JSON node shifting local indices by loff and block indices by boff"""
    if isinstance(node, list):
        return [_shift(x, loff, boff) for x in node]
    if not isinstance(node, dict):
        return node
    out = {}
    for k, v in node.items():
        if k == "l" and isinstance(v, int):
            out[k] = v + loff
        elif k in ("target", "otherwise", "unwind") and isinstance(v, int):
            out[k] = v + boff
        elif k == "targets" and isinstance(v, list):
            out[k] = [[val, bb + boff] for val, bb in v]
        else:
            out[k] = _shift(v, loff, boff)
    return out


def _inline_call(raw, bi, callee_raw):
    """inline callee_raw at the call terminating block bi of raw (mutates raw)"""
    blk = raw["blocks"][bi]
    t = blk["term"]
    loff = len(raw["locals"])
    boff = len(raw["blocks"])
    for l in callee_raw["locals"]:
        raw["locals"].append(dict(l))
    # bind arguments
    span = t["span"]
    for i, a in enumerate(t["args"]):
        pl = {"l": loff + 1 + i, "p": [], "ty": callee_raw["locals"][1 + i]["ty"] if 1 + i < len(callee_raw["locals"]) else "?"}
        blk["stmts"].append({"k": "assign", "place": pl, "rv": {"k": "use", "op": a}, "span": span, "expn": None})
    dest, target = t["dest"], t.get("target")
    blk["term"] = {"k": "goto", "target": boff, "span": span, "expn": t.get("expn")}
    for cb in callee_raw["blocks"]:
        nb = _shift(cb, loff, boff)
        tt = nb["term"]
        if tt and tt["k"] == "return":
            ret_local = {"k": "move", "place": {"l": loff, "p": [], "ty": callee_raw["locals"][0]["ty"]}}
            nb["stmts"].append({"k": "assign", "place": dest, "rv": {"k": "use", "op": ret_local}, "span": tt["span"], "expn": None})
            if target is None:
                nb["term"] = {"k": "unreachable", "span": tt["span"], "expn": None}
            else:
                nb["term"] = {"k": "goto", "target": target, "span": tt["span"], "expn": None}
        raw["blocks"].append(nb)
    # promoted constants of the callee: re-index
    base = len(raw.get("promoted") or [])
    if callee_raw.get("promoted"):
        raw.setdefault("promoted", [])
        raw["promoted"].extend(copy.deepcopy(callee_raw["promoted"]))

        def fix(node):
            if isinstance(node, list):
                for x in node:
                    fix(x)
            elif isinstance(node, dict):
                if node.get("k") == "const" and "promoted" in node:
                    node["promoted"] = int(node["promoted"]) + base
                for v in node.values():
                    fix(v)
        for nb in raw["blocks"][boff:]:
            fix(nb)


_ANCH = None


def _is_anchor(fn):
    """a function the rules can address: one of the pinned tree's functions whose name the rules mention (tables/anchors.json), recognised
    by name AND owner -- a new helper that merely shares its name with a field or with another type's method (`ZipWriterStats::crc32`
    vs the accessor `ZipFile::crc32`) is not one"""
    global _ANCH
    if _ANCH is None:
        import json
        try:
            with open(os.path.join(HERE, "tables", "anchors.json")) as fh:
                _ANCH = json.load(fh)
        except OSError:
            _ANCH = {}
    fps = _ANCH.get(fn.name)
    if not fps:
        return fn.name in KEEP
    own = re.sub(r"<.*$", "", fn.impl_self or "")
    mod = fn.path.split("::")[0] if "::" in fn.path else ""
    for fp in fps:
        if re.sub(r"<.*$", "", fp.get("impl_self") or "") == own and (fp.get("module") or mod) == mod:
            return True
    return False


def inline_unknown_helpers(facts):
    """returns {path: Fn} of functions with unknown private helpers inlined, and the list of (caller, callee) pairs inlined"""
    known = known_names()
    by_path = facts.by_path
    cg = facts.callgraph()

    def reaches(a, b, seen=None):
        seen = seen or set()
        if a == b:
            return True
        if a in seen:
            return False
        seen.add(a)
        return any(reaches(x, b, seen) for x in cg.get(a, ()))

    def inlinable(callee):
        if callee.kind != "AssocFn" and callee.kind != "Fn":
            return False
        if callee.name in known and _is_anchor(callee):
            return False
        if callee.vis == "Public" and not re.search(r"Restricted", callee.vis or ""):
            # `pub` items of private modules are still API-ish: leave them alone unless clearly internal
            if callee.impl_trait:
                return False
            return False
        if callee.impl_trait:
            return False
        if len(callee.blocks) > MAX_BLOCKS:
            return False
        return True

    out = {}
    done = []
    for f in facts.fns:
        raw = None
        for _ in range(MAX_ROUNDS):
            cur = Fn(raw) if raw is not None else f
            todo = []
            for bi, t in cur.calls():
                tg = facts.local_targets(t)
                if len(tg) != 1 or tg[0] == f.path or tg[0] not in by_path:
                    continue
                callee = by_path[tg[0]]
                if not inlinable(callee) or reaches(callee.path, f.path):
                    continue
                if len(t["args"]) != callee.arg_count:
                    continue
                todo.append((bi, callee))
            if not todo:
                break
            if raw is None:
                raw = copy.deepcopy(f.raw)
            for bi, callee in todo:
                _inline_call(raw, bi, callee.raw)
                done.append((f.path, callee.path))
        if raw is not None:
            _generic_comparisons_to_binops(raw)
            out[f.path] = Fn(raw)
    return out, done


_CMP = {"lt": "Lt", "le": "Le", "gt": "Gt", "ge": "Ge"}


def _generic_comparisons_to_binops(raw):
    """inside an inlined generic helper (`fn in_range<T: PartialOrd>(v: T, lo: T, hi: T)`) an ordered comparison is a call to
    `PartialOrd::le(&a, &b)` on the type parameter; at the place it was inlined into, it is the comparison `a <= b` of whatever flows in.
    Rewritten into the MIR binary operation so that the interval / decision engines read the same program as for `lo <= v && v <= hi`
    written in place.  Only comparisons whose type arguments are bare type parameters are touched."""
    for b in raw["blocks"]:
        t = b.get("term")
        if not t or t["k"] != "call" or t.get("target") is None:
            continue
        m = re.search(r"^(?:std|core)::cmp::PartialOrd::(lt|le|gt|ge)$", t.get("callee") or "")
        if not m or len(t["args"]) != 2:
            continue
        ga = t.get("gargs") or []
        if not ga or not all(re.match(r"^[A-Z][A-Za-z0-9]{0,2}$", g) for g in ga):
            continue
        ops = []
        for a in t["args"]:
            if a["k"] == "const" or a["place"]["p"]:
                ops = None
                break
            ty = raw["locals"][a["place"]["l"]].get("ty") or ""
            if not ty.startswith("&"):
                ops = None
                break
            ops.append({"k": "copy", "place": {"l": a["place"]["l"], "p": [{"k": "deref"}], "ty": ty[1:]}})
        if not ops:
            continue
        b["stmts"].append({"k": "assign", "place": t["dest"], "rv": {"k": "binop", "op": _CMP[m.group(1)], "a": ops[0], "b": ops[1]},
                           "span": t.get("span"), "expn": t.get("expn")})
        b["term"] = {"k": "goto", "target": t["target"], "span": t.get("span"), "expn": t.get("expn")}


# ------------------------------------------------------------------------------------------- combinator desugaring
# `x.map(|p| ..)`, `x.map_err(|e| ..)`, `x.ok_or_else(|| ..)`, `x.and_then(|p| ..)`, `x.unwrap_or_else(|e| ..)` with a closure
# written in the crate are rewritten into the `match` they abbreviate (closure body spliced in).  A maintainer moves freely
# between the two spellings; the rules should see one program.
# spec: callee regex -> (input family, {variant: action}); action = ("pass",) | ("payload",) | ("rewrap", V) | ("closure", wrap V|None, takes_payload)
COMBINATORS = [
    (r"^std::result::Result::<T, E>::map$", "Result", "Result", {"Ok": ("closure", "Ok", True), "Err": ("pass",)}),
    (r"^std::result::Result::<T, E>::map_err$", "Result", "Result", {"Ok": ("pass",), "Err": ("closure", "Err", True)}),
    (r"^std::option::Option::<T>::map$", "Option", "Option", {"Some": ("closure", "Some", True), "None": ("pass",)}),
    (r"^std::option::Option::<T>::ok_or_else$", "Option", "Result", {"Some": ("rewrap", "Ok"), "None": ("closure", "Err", False)}),
    (r"^std::result::Result::<T, E>::and_then$", "Result", "Result", {"Ok": ("closure", None, True), "Err": ("pass",)}),
    (r"^std::option::Option::<T>::and_then$", "Option", "Option", {"Some": ("closure", None, True), "None": ("pass",)}),
    (r"^std::result::Result::<T, E>::unwrap_or_else$", "Result", None, {"Ok": ("payload",), "Err": ("closure", None, True)}),
    (r"^std::option::Option::<T>::unwrap_or_else$", "Option", None, {"Some": ("payload",), "None": ("closure", None, False)}),
    # x.map_or(default, |p| ..): the closure is the third argument, the None arm yields the (already evaluated) default
    (r"^std::option::Option::<T>::map_or$", "Option", None, {"Some": ("closure", None, True), "None": ("argval", 1)}, 2),
    (r"^std::result::Result::<T, E>::map_or$", "Result", None, {"Ok": ("closure", None, True), "Err": ("argval", 1)}, 2),
]
FAMILY = {"Result": ("std::result::Result", [[0, "Ok"], [1, "Err"]]), "Option": ("std::option::Option", [[0, "None"], [1, "Some"]])}


def _agg(adt, variant, ops):
    vidx = dict((n, i) for i, n in FAMILY["Result" if adt.endswith("Result") else "Option"][1])[variant]
    return {"k": "agg", "ak": "adt", "adt": adt, "variant": variant, "vidx": vidx, "fields": [str(i) for i in range(len(ops))], "ops": ops}


def _closure_of(raw, local):
    """def path of the closure stored in `local` (its aggregate statement), or None"""
    hits = []
    for b in raw["blocks"]:
        for s in b["stmts"]:
            if s["k"] == "assign" and s["place"]["l"] == local and not s["place"]["p"]:
                rv = s["rv"]
                if rv["k"] == "agg" and rv.get("ak") == "closure":
                    hits.append(rv.get("closure"))
                else:
                    hits.append(None)
    return hits[0] if len(hits) == 1 else None


def _desugar_one(raw, bi, spec, closure_raw):
    fam_in, fam_out, actions = spec[1], spec[2], spec[3]
    blk = raw["blocks"][bi]
    t = blk["term"]
    span = t["span"]
    x = t["args"][0]
    if x["k"] == "const" or x["place"]["p"]:
        return False
    xl, xty = x["place"]["l"], x["place"].get("ty", "?")
    dest, target = t["dest"], t.get("target")
    if target is None:
        return False
    adt_in, vars_in = FAMILY[fam_in]
    adt_out = FAMILY[fam_out][0] if fam_out else None

    def new_local(ty, name=None):
        raw["locals"].append({"ty": ty, "name": name})
        return len(raw["locals"]) - 1

    def new_block():
        raw["blocks"].append({"stmts": [], "term": None, "cleanup": False})
        return len(raw["blocks"]) - 1

    d = new_local("isize")
    blk["stmts"].append({"k": "assign", "place": {"l": d, "p": [], "ty": "isize"},
                         "rv": {"k": "discr", "place": {"l": xl, "p": [], "ty": xty}, "adt": adt_in, "vars": vars_in}, "span": span, "expn": None})
    arms = {}
    for vi, vn in vars_in:
        arms[vn] = new_block()
    blk["term"] = {"k": "switch", "discr": {"k": "move", "place": {"l": d, "p": [], "ty": "isize"}}, "dty": "isize",
                   "targets": [[vars_in[0][0], arms[vars_in[0][1]]]], "otherwise": arms[vars_in[1][1]], "span": span, "expn": t.get("expn")}
    for vi, vn in vars_in:
        ab = arms[vn]
        has_payload = vn != "None"
        pl = None
        if has_payload:
            pl = new_local("?")
            raw["blocks"][ab]["stmts"].append({"k": "assign", "place": {"l": pl, "p": [], "ty": "?"}, "rv": {"k": "use", "op": {"k": "move", "place": {
                "l": xl, "p": [{"k": "downcast", "v": vn, "i": vi}, {"k": "field", "i": 0, "n": "0", "adt": adt_in, "ty": "?"}], "ty": "?"}}}, "span": span, "expn": None})
        act = actions[vn]
        if act[0] == "pass":
            ops = [{"k": "move", "place": {"l": pl, "p": [], "ty": "?"}}] if has_payload else []
            raw["blocks"][ab]["stmts"].append({"k": "assign", "place": dest, "rv": _agg(adt_out or adt_in, vn, ops), "span": span, "expn": None})
            raw["blocks"][ab]["term"] = {"k": "goto", "target": target, "span": span, "expn": None}
        elif act[0] == "payload":
            raw["blocks"][ab]["stmts"].append({"k": "assign", "place": dest, "rv": {"k": "use", "op": {"k": "move", "place": {"l": pl, "p": [], "ty": "?"}}}, "span": span, "expn": None})
            raw["blocks"][ab]["term"] = {"k": "goto", "target": target, "span": span, "expn": None}
        elif act[0] == "argval":
            raw["blocks"][ab]["stmts"].append({"k": "assign", "place": dest, "rv": {"k": "use", "op": t["args"][act[1]]}, "span": span, "expn": None})
            raw["blocks"][ab]["term"] = {"k": "goto", "target": target, "span": span, "expn": None}
        elif act[0] == "rewrap":
            raw["blocks"][ab]["stmts"].append({"k": "assign", "place": dest, "rv": _agg(adt_out, act[1], [{"k": "move", "place": {"l": pl, "p": [], "ty": "?"}}]), "span": span, "expn": None})
            raw["blocks"][ab]["term"] = {"k": "goto", "target": target, "span": span, "expn": None}
        else:
            _, wrap, takes = act
            rty = closure_raw["locals"][0]["ty"]
            r = new_local(rty)
            wb = new_block()
            args = [t["args"][spec[4] if len(spec) > 4 else 1]]
            if takes and has_payload and closure_raw["arg_count"] >= 2:
                args.append({"k": "move", "place": {"l": pl, "p": [], "ty": "?"}})
            if len(args) != closure_raw["arg_count"]:
                return None     # unexpected closure signature: leave the call alone (caller restores)
            raw["blocks"][ab]["term"] = {"k": "call", "callee": closure_raw["path"], "args": args, "dest": {"l": r, "p": [], "ty": rty}, "target": wb,
                                         "span": span, "expn": None}
            _inline_call(raw, ab, closure_raw)
            if wrap:
                raw["blocks"][wb]["stmts"].append({"k": "assign", "place": dest, "rv": _agg(adt_out, wrap, [{"k": "move", "place": {"l": r, "p": [], "ty": rty}}]), "span": span, "expn": None})
            else:
                raw["blocks"][wb]["stmts"].append({"k": "assign", "place": dest, "rv": {"k": "use", "op": {"k": "move", "place": {"l": r, "p": [], "ty": rty}}}, "span": span, "expn": None})
            raw["blocks"][wb]["term"] = {"k": "goto", "target": target, "span": span, "expn": None}
    return True


FN_CALL = re.compile(r"ops::(function::)?(Fn|FnMut|FnOnce)::(call|call_mut|call_once)$")


def _inline_direct_closure_calls(fns_by_path, f):
    """`let pred = |v| v > T; pred(a) || pred(b)`: a closure written in this function and called directly is the expression it
    abbreviates.  The call `Fn::call(&closure, (a,))` (rust-call ABI: arguments packed in a tuple built right before the call) is
    replaced by the closure body.  -> (raw or None, set of closure paths spliced in)"""
    raw = None
    used = set()
    for _ in range(6):
        cur = raw if raw is not None else f.raw
        todo = []
        for bi, b in enumerate(cur["blocks"]):
            t = b["term"]
            if b.get("cleanup") or not t or t["k"] != "call" or len(t.get("args") or []) != 2 or not FN_CALL.search(t.get("callee") or ""):
                continue
            cf = fns_by_path.get(t.get("resolved") or "")
            if cf is None or cf.kind != "Closure" or len(cf.blocks) > 25 or not cf.path.startswith(f.path + "::{closure"):
                continue
            a1 = t["args"][1]
            if a1["k"] == "const" or a1["place"]["p"]:
                continue
            tup = [s for s in b["stmts"] if s["k"] == "assign" and s["place"]["l"] == a1["place"]["l"] and not s["place"]["p"] and
                   s["rv"]["k"] == "agg" and s["rv"].get("ak") == "tuple"]
            if len(tup) != 1 or len(tup[0]["rv"]["ops"]) + 1 != cf.arg_count:
                continue
            todo.append((bi, cf, tup[0]["rv"]["ops"]))
        if not todo:
            break
        if raw is None:
            raw = copy.deepcopy(f.raw)
        for bi, cf, ops in todo:
            t = raw["blocks"][bi]["term"]
            t["args"] = [t["args"][0]] + copy.deepcopy(ops)
            t["callee"] = cf.path
            _inline_call(raw, bi, cf.raw)
            used.add(cf.path)
    return raw, used


TRY_FOLD = re.compile(r"iter::(traits::iterator::)?Iterator::try_fold$")


def _desugar_try_fold(fns_by_path, f, raw):
    """`it.try_fold(init, step)?` is the loop `let mut acc = init; for x in it { acc = step(acc, x)?; } acc` (R = Option / Result; `step`
    a function or closure of this crate).  The call is replaced by that loop so that the rules which read loops (component walks,
    progress, decision tables per trip) see one program whichever way it is written."""
    cur = raw if raw is not None else f.raw
    todo = []
    for bi, b in enumerate(cur["blocks"]):
        t = b["term"]
        if b.get("cleanup") or not t or t["k"] != "call" or len(t.get("args") or []) != 3 or not TRY_FOLD.search(t.get("callee") or "") or t.get("target") is None:
            continue
        fn_op = t["args"][2]
        step = None
        if fn_op["k"] == "const" and fn_op.get("fn"):
            step = fns_by_path.get(fn_op["fn"])
        elif fn_op["k"] != "const" and not fn_op["place"]["p"]:
            cp = _closure_of(cur, fn_op["place"]["l"])
            step = fns_by_path.get(cp) if cp else None
        dty = (t["dest"].get("ty") or cur["locals"][t["dest"]["l"]].get("ty") or "")
        fam = "Option" if dty.startswith("std::option::Option") else ("Result" if dty.startswith("std::result::Result") else None)
        if step is None or fam is None or len(step.blocks) > 40:
            continue
        todo.append((bi, step, fam))
    if not todo:
        return raw, set()
    if raw is None:
        raw = copy.deepcopy(f.raw)
    used = set()
    for bi, step, fam in todo:
        blk = raw["blocks"][bi]
        t = blk["term"]
        span = t["span"]
        dest, target = t["dest"], t["target"]
        is_closure = step.kind == "Closure"

        def new_local(ty, name=None):
            raw["locals"].append({"ty": ty, "name": name})
            return len(raw["locals"]) - 1

        def new_block():
            raw["blocks"].append({"stmts": [], "term": None, "cleanup": False})
            return len(raw["blocks"]) - 1

        def asg(b_, place, rv):
            raw["blocks"][b_]["stmts"].append({"k": "assign", "place": place, "rv": rv, "span": span, "expn": None})
        L = lambda l, ty="?": {"l": l, "p": [], "ty": ty}
        mv = lambda l, ty="?": {"k": "move", "place": L(l, ty)}
        acc = new_local("?", "acc")
        a0_ = t["args"][0]
        it_ty = (raw["locals"][a0_["place"]["l"]].get("ty") if a0_["k"] != "const" and not a0_["place"]["p"] else a0_.get("ty")) or "?"
        it = new_local(it_ty)
        nx = new_local("std::option::Option<?>")
        d1 = new_local("isize")
        item = new_local("?")
        fr = new_local(step.locals[0]["ty"])
        br = new_local("std::ops::ControlFlow<?>")
        d2 = new_local("isize")
        head, after_next, body, after_step, after_branch, cont, brk, done = [new_block() for _ in range(8)]
        asg(bi, L(acc), {"k": "use", "op": t["args"][1]})
        asg(bi, L(it), {"k": "use", "op": t["args"][0]})
        blk["term"] = {"k": "goto", "target": head, "span": span, "expn": t.get("expn")}
        raw["blocks"][head]["term"] = {"k": "call", "callee": "std::iter::Iterator::next", "resolved": None, "resolved_local": False, "gargs": [], "trait": None,
                                       "self_ty": re.sub(r"^&(mut )?", "", it_ty),
                                       "args": [{"k": "copy", "place": L(it)}], "dest": L(nx), "target": after_next, "unwind": None, "span": span, "fn_span": span, "expn": None}
        asg(after_next, L(d1, "isize"), {"k": "discr", "place": L(nx), "adt": "std::option::Option", "vars": [[0, "None"], [1, "Some"]]})
        raw["blocks"][after_next]["term"] = {"k": "switch", "discr": mv(d1, "isize"), "dty": "isize", "targets": [[0, done]], "otherwise": body, "span": span, "expn": None}
        asg(body, L(item), {"k": "use", "op": {"k": "move", "place": {"l": nx, "p": [{"k": "downcast", "v": "Some", "i": 1}, {"k": "field", "i": 0, "n": "0", "adt": "std::option::Option", "ty": "?"}], "ty": "?"}}})
        args = ([t["args"][2]] if is_closure else []) + [{"k": "copy", "place": L(acc)}, mv(item)]
        raw["blocks"][body]["term"] = {"k": "call", "callee": step.path, "resolved": step.path, "resolved_local": True, "gargs": [], "trait": None, "self_ty": None,
                                       "args": args, "dest": L(fr), "target": after_step, "unwind": None, "span": span, "fn_span": span, "expn": None}
        raw["blocks"][after_step]["term"] = {"k": "call", "callee": "std::ops::Try::branch", "resolved": None, "resolved_local": False, "gargs": [], "trait": None, "self_ty": None,
                                             "args": [mv(fr)], "dest": L(br), "target": after_branch, "unwind": None, "span": span, "fn_span": span, "expn": ["desugar:QuestionMark"]}
        asg(after_branch, L(d2, "isize"), {"k": "discr", "place": L(br), "adt": "std::ops::ControlFlow", "vars": [[0, "Continue"], [1, "Break"]]})
        raw["blocks"][after_branch]["term"] = {"k": "switch", "discr": mv(d2, "isize"), "dty": "isize", "targets": [[0, cont]], "otherwise": brk, "span": span, "expn": ["desugar:QuestionMark"]}
        asg(cont, L(acc), {"k": "use", "op": {"k": "move", "place": {"l": br, "p": [{"k": "downcast", "v": "Continue", "i": 0}, {"k": "field", "i": 0, "n": "0", "adt": "std::ops::ControlFlow", "ty": "?"}], "ty": "?"}}})
        raw["blocks"][cont]["term"] = {"k": "goto", "target": head, "span": span, "expn": None}
        res = new_local("?")
        asg(brk, L(res), {"k": "use", "op": {"k": "move", "place": {"l": br, "p": [{"k": "downcast", "v": "Break", "i": 1}, {"k": "field", "i": 0, "n": "0", "adt": "std::ops::ControlFlow", "ty": "?"}], "ty": "?"}}})
        raw["blocks"][brk]["term"] = {"k": "call", "callee": "std::ops::FromResidual::from_residual", "resolved": None, "resolved_local": False, "gargs": [], "trait": None, "self_ty": None,
                                      "args": [mv(res)], "dest": dest, "target": target, "unwind": None, "span": span, "fn_span": span, "expn": ["desugar:QuestionMark"]}
        asg(done, dest, _agg(FAMILY[fam][0], "Some" if fam == "Option" else "Ok", [{"k": "copy", "place": L(acc)}]))
        raw["blocks"][done]["term"] = {"k": "goto", "target": target, "span": span, "expn": None}
        if is_closure:
            _inline_call(raw, body, step.raw)
            used.add(step.path)
    return raw, used


FOLD_LIKE = re.compile(r"iter::(traits::iterator::)?Iterator::(fold|for_each)$")


def _desugar_fold_like(fns_by_path, f, raw):
    """`it.for_each(|x| body)` is `for x in it { body }`; `it.fold(init, |acc, x| e)` is `let mut acc = init; for x in it { acc = e }; acc`
    (closure or function of this crate).  Replaced by that loop, closure body spliced in, for the same reason as try_fold."""
    cur = raw if raw is not None else f.raw
    todo = []
    for bi, b in enumerate(cur["blocks"]):
        t = b["term"]
        if b.get("cleanup") or not t or t["k"] != "call" or t.get("target") is None:
            continue
        m = FOLD_LIKE.search(t.get("callee") or "")
        if not m:
            continue
        kind = m.group(2)
        if len(t.get("args") or []) != (3 if kind == "fold" else 2):
            continue
        fn_op = t["args"][-1]
        step = None
        if fn_op["k"] == "const" and fn_op.get("fn"):
            step = fns_by_path.get(fn_op["fn"])
        elif fn_op["k"] != "const" and not fn_op["place"]["p"]:
            cp = _closure_of(cur, fn_op["place"]["l"])
            step = fns_by_path.get(cp) if cp else None
        if step is None or len(step.blocks) > 40:
            continue
        want_args = (2 if kind == "fold" else 1) + (1 if step.kind == "Closure" else 0)
        if step.arg_count != want_args:
            continue
        # adaptors between the source iterator and the consumer are fused into the loop:  src.filter(p).fold(..)  ==
        # for x in src { if p(&x) { .. } }   (only closures of this crate; anything else leaves the call alone)
        stages, src_op, drop_blocks = [], t["args"][0], []
        okc = True
        for _ in range(4):
            if src_op["k"] == "const" or src_op["place"]["p"]:
                break
            l_ = src_op["place"]["l"]
            prod = [(bj, bb_["term"]) for bj, bb_ in enumerate(cur["blocks"]) if not bb_.get("cleanup") and bb_["term"] and bb_["term"]["k"] == "call"
                    and not bb_["term"]["dest"]["p"] and bb_["term"]["dest"]["l"] == l_]
            if len(prod) != 1:
                break
            pj, pt = prod[0]
            am = re.search(r"iter::(traits::iterator::)?Iterator::(filter|map)$", pt.get("callee") or "")
            if not am or len(pt["args"]) != 2 or pt.get("target") is None:
                break
            cop = pt["args"][1]
            cpath = _closure_of(cur, cop["place"]["l"]) if cop["k"] != "const" and not cop["place"]["p"] else None
            cfn = fns_by_path.get(cpath) if cpath else None
            if cfn is None or cfn.arg_count != 2 or len(cfn.blocks) > 40:
                okc = False
                break
            stages.insert(0, (am.group(2), cop, cfn))
            drop_blocks.append(pj)
            src_op = pt["args"][0]
        if not okc:
            continue
        todo.append((bi, step, kind, stages, src_op, drop_blocks))
    if not todo:
        return raw, set()
    if raw is None:
        raw = copy.deepcopy(f.raw)
    used = set()
    for bi, step, kind, stages, src_op, drop_blocks in todo:
        blk = raw["blocks"][bi]
        t = blk["term"]
        span = t["span"]
        dest, target = t["dest"], t["target"]
        is_closure = step.kind == "Closure"
        for pj in drop_blocks:
            pt = raw["blocks"][pj]["term"]
            raw["blocks"][pj]["term"] = {"k": "goto", "target": pt["target"], "span": pt["span"], "expn": pt.get("expn")}
        t = dict(t, args=[copy.deepcopy(src_op)] + list(t["args"][1:]))

        def new_local(ty, name=None):
            raw["locals"].append({"ty": ty, "name": name})
            return len(raw["locals"]) - 1

        def new_block():
            raw["blocks"].append({"stmts": [], "term": None, "cleanup": False})
            return len(raw["blocks"]) - 1

        def asg(b_, place, rv):
            raw["blocks"][b_]["stmts"].append({"k": "assign", "place": place, "rv": rv, "span": span, "expn": None})
        L = lambda l, ty="?": {"l": l, "p": [], "ty": ty}
        mv = lambda l, ty="?": {"k": "move", "place": L(l, ty)}
        a0_ = t["args"][0]
        it_ty = (raw["locals"][a0_["place"]["l"]].get("ty") if a0_["k"] != "const" and not a0_["place"]["p"] else a0_.get("ty")) or "?"
        it = new_local(it_ty)
        nx = new_local("std::option::Option<?>")
        d1 = new_local("isize")
        item = new_local("?")
        fr = new_local(step.locals[0]["ty"])
        acc = new_local("?", "acc") if kind == "fold" else None
        head, after_next, body, after_step, done = [new_block() for _ in range(5)]
        if kind == "fold":
            asg(bi, L(acc), {"k": "use", "op": t["args"][1]})
        asg(bi, L(it), {"k": "use", "op": t["args"][0]})
        blk["term"] = {"k": "goto", "target": head, "span": span, "expn": t.get("expn")}
        raw["blocks"][head]["term"] = {"k": "call", "callee": "std::iter::Iterator::next", "resolved": None, "resolved_local": False, "gargs": [], "trait": None,
                                       "self_ty": re.sub(r"^&(mut )?", "", it_ty),
                                       "args": [{"k": "copy", "place": L(it)}], "dest": L(nx), "target": after_next, "unwind": None, "span": span, "fn_span": span, "expn": None}
        asg(after_next, L(d1, "isize"), {"k": "discr", "place": L(nx), "adt": "std::option::Option", "vars": [[0, "None"], [1, "Some"]]})
        raw["blocks"][after_next]["term"] = {"k": "switch", "discr": mv(d1, "isize"), "dty": "isize", "targets": [[0, done]], "otherwise": body, "span": span, "expn": None}
        asg(body, L(item), {"k": "use", "op": {"k": "move", "place": {"l": nx, "p": [{"k": "downcast", "v": "Some", "i": 1}, {"k": "field", "i": 0, "n": "0", "adt": "std::option::Option", "ty": "?"}], "ty": "?"}}})
        # fused adaptor stages run on the item first
        for sk_, cop_, cfn_ in stages:
            if sk_ == "map":
                r_ = new_local(cfn_.locals[0]["ty"])
                nb_ = new_block()
                raw["blocks"][body]["term"] = {"k": "call", "callee": cfn_.path, "resolved": cfn_.path, "resolved_local": True, "gargs": [], "trait": None, "self_ty": None,
                                               "args": [copy.deepcopy(cop_), mv(item)], "dest": L(r_), "target": nb_, "unwind": None, "span": span, "fn_span": span, "expn": None}
                _inline_call(raw, body, cfn_.raw)
                used.add(cfn_.path)
                body, item = nb_, r_
            else:
                rr_ = new_local("&?")
                asg(body, L(rr_), {"k": "ref", "mut": False, "place": L(item)})
                r_ = new_local("bool")
                nb_ = new_block()
                raw["blocks"][body]["term"] = {"k": "call", "callee": cfn_.path, "resolved": cfn_.path, "resolved_local": True, "gargs": [], "trait": None, "self_ty": None,
                                               "args": [copy.deepcopy(cop_), mv(rr_)], "dest": L(r_), "target": nb_, "unwind": None, "span": span, "fn_span": span, "expn": None}
                _inline_call(raw, body, cfn_.raw)
                used.add(cfn_.path)
                keep_ = new_block()
                raw["blocks"][nb_]["term"] = {"k": "switch", "discr": mv(r_, "bool"), "dty": "bool", "targets": [[0, head]], "otherwise": keep_, "span": span, "expn": None}
                body = keep_
        args = ([t["args"][-1]] if is_closure else []) + ([{"k": "copy", "place": L(acc)}] if kind == "fold" else []) + [mv(item)]
        raw["blocks"][body]["term"] = {"k": "call", "callee": step.path, "resolved": step.path, "resolved_local": True, "gargs": [], "trait": None, "self_ty": None,
                                       "args": args, "dest": L(fr), "target": after_step, "unwind": None, "span": span, "fn_span": span, "expn": None}
        if kind == "fold":
            asg(after_step, L(acc), {"k": "use", "op": mv(fr)})
        raw["blocks"][after_step]["term"] = {"k": "goto", "target": head, "span": span, "expn": None}
        if kind == "fold":
            asg(done, dest, {"k": "use", "op": {"k": "copy", "place": L(acc)}})
        else:
            asg(done, dest, {"k": "agg", "ak": "tuple", "ops": []})
        raw["blocks"][done]["term"] = {"k": "goto", "target": target, "span": span, "expn": None}
        if is_closure:
            _inline_call(raw, body, step.raw)
            used.add(step.path)
    return raw, used


def desugar_combinators(fns_by_path, f):
    """-> new Fn with every closure-taking combinator call (closure written in this crate) replaced by its match; None if nothing changed"""
    from .unroll import unroll_array_iterators
    used0 = set()
    pre = None
    for _ in range(3):
        # a closure called directly may *return* the pipeline (`let present = || fields.iter().copied().filter(p);`): splice, then unroll
        r1, u1 = _inline_direct_closure_calls(fns_by_path, f)
        if r1 is not None:
            f, pre = Fn(r1), r1
            used0 |= u1
        r0, u0 = unroll_array_iterators(fns_by_path, f, None)
        if r0 is not None:
            f, pre = Fn(r0), r0
            used0 |= u0
        if r0 is None and r1 is None:
            break
    raw, used = _desugar_try_fold(fns_by_path, f, None)
    raw, used3 = _desugar_fold_like(fns_by_path, f, raw)
    used |= used0 | used3
    if raw is None and pre is not None:
        raw = pre
    changed = raw is not None
    for _ in range(4):
        cur = raw if raw is not None else f.raw
        todo = []
        for bi, b in enumerate(cur["blocks"]):
            t = b["term"]
            if b.get("cleanup") or not t or t["k"] != "call":
                continue
            spec = next((c for c in COMBINATORS if re.search(c[0], t.get("callee") or "")), None)
            if spec is None:
                continue
            ci = spec[4] if len(spec) > 4 else 1
            if len(t.get("args") or []) != ci + 1:
                continue
            a1 = t["args"][ci]
            if a1["k"] == "const" or a1["place"]["p"]:
                continue
            cpath = _closure_of(cur, a1["place"]["l"])
            cf = fns_by_path.get(cpath) if cpath else None
            if cf is None or len(cf.blocks) > 40:
                continue
            todo.append((bi, spec, cf))
        if not todo:
            break
        if raw is None:
            raw = copy.deepcopy(f.raw)
        for bi, spec, cf in todo:
            snapshot = copy.deepcopy(raw)
            res = _desugar_one(raw, bi, spec, cf.raw)
            if res is None or res is False:
                raw.clear()
                raw.update(snapshot)
                # mark as not desugarable to avoid looping: rename callee marker
                raw["blocks"][bi]["term"] = dict(raw["blocks"][bi]["term"], callee=(raw["blocks"][bi]["term"].get("callee") or "") + " ")
            else:
                changed = True
                used.add(cf.path)
    if raw is None or not changed:
        return None
    for b in raw["blocks"]:
        if b["term"] and b["term"]["k"] == "call" and (b["term"].get("callee") or "").endswith(" "):
            b["term"]["callee"] = b["term"]["callee"].rstrip()
    g = Fn(raw)
    g.desugared_closures = used
    return g
