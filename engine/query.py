"""Small reusable queries over the MIR model (used by the rule modules)."""
import re
from .expr import Ex, norm, show, walk, alts
from .intervals import dominating_facts, edge_facts


def aggregates(fn, adt_re, variant=None):
    """assignments constructing an ADT value: yields (bb, si, stmt, {field: operand})"""
    r = re.compile(adt_re)
    for bi, si, s in fn.stmts():
        if s["k"] != "assign":
            continue
        rv = s["rv"]
        if rv["k"] == "agg" and rv.get("ak") == "adt" and r.search(rv["adt"]):
            if variant is not None and rv["variant"] != variant:
                continue
            fs = rv.get("fields") or []
            yield bi, si, s, dict(zip(fs, rv["ops"]))


def field_assignments(facts, field, adt_re=None):
    """every statement in the crate assigning to a place that ends in `.field` (not aggregate construction)"""
    out = []
    r = re.compile(adt_re) if adt_re else None
    for f in facts.fns:
        for bi, si, s in f.stmts():
            if s["k"] != "assign":
                continue
            projs = s["place"]["p"]
            fp = [p for p in projs if p["k"] == "field"]
            if not fp:
                continue
            last = fp[-1]
            if last.get("n") != field:
                continue
            if r and not (last.get("adt") and r.search(last["adt"])):
                continue
            out.append((f, bi, si, s))
    return out


def mut_borrows_of_field(facts, field, adt_re=None):
    """`&mut x.field` borrows (a field may be written through such a borrow)"""
    out = []
    r = re.compile(adt_re) if adt_re else None
    for f in facts.fns:
        for bi, si, s in f.stmts():
            if s["k"] != "assign" or s["rv"]["k"] != "ref" or not s["rv"]["mut"]:
                continue
            fp = [p for p in s["rv"]["place"]["p"] if p["k"] == "field"]
            if fp and fp[-1].get("n") == field and (not r or (fp[-1].get("adt") and r.search(fp[-1]["adt"]))):
                out.append((f, bi, si, s))
    return out


def variant_index(facts_or_vars, adt_path=None, name=None):
    """discriminant value of variant `name` from a crate ADT table"""
    adt = facts_or_vars.adts.get(adt_path)
    if not adt:
        return None
    for i, v in enumerate(adt["variants"]):
        if v["name"] == name:
            return int(v["discr"]) if v["discr"] not in (None, "null") else i
    return None


def all_facts_at(fn, bb):
    ex = Ex(fn)
    return dominating_facts(fn, ex, bb)


def calls_matching(fn, *pats):
    out = []
    for bi, t in fn.calls():
        names = [t.get("callee") or "", t.get("resolved") or ""]
        if any(re.search(p, n) for p in pats for n in names):
            out.append((bi, t))
    return out


def arg_expr(fn, bi, t, i):
    ex = Ex(fn)
    return norm(ex.operand(t["args"][i], (bi, None)))


def ret_alts(fn):
    """normalised alternatives of the return value over all return blocks"""
    ex = Ex(fn)
    out = []
    for b in fn.exits():
        e = norm(ex.local(0, (b, None)))
        for a in alts(e):
            if a not in out:
                out.append(a)
    return out


def where(fn, span):
    return "%s in %s" % (span, fn.path)


def single_bit(e):
    """bit index of a mask expression that is one bit: `1 << n` or the literal 2^n; None otherwise"""
    if e[0] == "bin" and e[1] == "Shl" and e[2][0] == "const" and e[2][2] == 1 and e[3][0] == "const":
        return e[3][2]
    if e[0] in ("const", "named") and isinstance(e[2], int) and not isinstance(e[2], bool) and e[2] > 0 and (e[2] & (e[2] - 1)) == 0:
        return e[2].bit_length() - 1
    return None


def switch_arms(fn, bb):
    """for the switch terminating block bb: {value|'otherwise': set(blocks exclusive to that arm)}"""
    t = fn.term(bb)
    assert t and t["k"] == "switch"
    tg = [(v, b) for v, b in t["targets"]] + [("otherwise", t["otherwise"])]
    reach = {}
    for v, b in tg:
        reach[v] = fn.reach_from_inclusive(b, avoid={bb})
    out = {}
    for v, b in tg:
        others = set()
        for v2, b2 in tg:
            if v2 != v and b2 != b:
                others |= reach[v2]
        out[v] = reach[v] - others
    return out


def find_switch_on(fn, pred):
    """blocks whose terminator is a switch with pred(normed discr expr) true"""
    ex = Ex(fn)
    out = []
    for bi, b in enumerate(fn.blocks):
        if b["cleanup"]:
            continue
        t = b["term"]
        if t and t["k"] == "switch":
            d = norm(ex.operand(t["discr"], (bi, None)))
            if pred(d):
                out.append((bi, t, d))
    return out


def aggs_in(fn, blocks, adt_re):
    r = re.compile(adt_re)
    out = []
    for bi in sorted(blocks):
        for si, s in enumerate(fn.blocks[bi]["stmts"]):
            if s["k"] == "assign" and s["rv"]["k"] == "agg" and s["rv"].get("ak") == "adt" and r.search(s["rv"]["adt"]):
                out.append((bi, si, s))
    return out


def calls_in(fn, blocks, *pats):
    out = []
    for bi in sorted(blocks):
        t = fn.term(bi)
        if t and t["k"] == "call":
            names = [t.get("callee") or "", t.get("resolved") or ""]
            if any(re.search(p, n) for p in pats for n in names):
                out.append((bi, t))
    return out


def enum_variants(facts, adt_path):
    adt = facts.adts.get(adt_path)
    if not adt:
        return {}
    out = {}
    for i, v in enumerate(adt["variants"]):
        out[int(v["discr"]) if v["discr"] not in (None, "null") else i] = v["name"]
    return out


def const_assigned_in(fn, blocks, local=0):
    """integer constants assigned to `local` inside the given blocks"""
    vals = []
    for bi in sorted(blocks):
        for s in fn.blocks[bi]["stmts"]:
            if s["k"] == "assign" and s["place"]["l"] == local and not s["place"]["p"] and s["rv"]["k"] == "use":
                op = s["rv"]["op"]
                if op["k"] == "const" and "v" in op:
                    vals.append(int(op["v"]))
    return vals


def self_rooted(fn, place, ex=None, at=None):
    """does the place denote (a projection of) the function's `self` argument?  True for local 1 and for locals of inlined
    callees that were bound to it."""
    l = place["l"]
    if l == 1:
        return True
    if ex is None:
        ex = Ex(fn)
    if at is None:
        # find any point: use the definition of the local (arg binding of an inlined callee)
        for bi, si, s in fn.stmts():
            if s["k"] == "assign" and s["place"]["l"] == l and not s["place"]["p"]:
                at = (bi, si + 1)
                break
    if at is None:
        return False
    e = ex.local(l, at)
    return e == ("arg", 1, fn.local_name(1)) or (e[0] == "arg" and e[1] == 1)


def lazy_ctor(facts):
    """the function of `impl ZipFile` that builds the decoding reader lazily: it calls make_reader and stores the result in self.reader.
    That is the private helper `get_reader` on the pinned tree; when a refactoring inlined it into its only caller, it is
    `<ZipFile as Read>::read` itself.  (read_zipfile_from_stream builds its reader eagerly and is not meant here.)"""
    from .mir import AnchorLost
    cands = []
    for f in facts.fns:
        if not (f.impl_self and re.search(r"^read::ZipFile<", f.impl_self)):
            continue
        if not any((t.get("callee") or "").endswith("read::make_reader") for _, t in f.calls()):
            continue
        if any(s_["k"] == "assign" and [q.get("n") for q in s_["place"]["p"] if q["k"] == "field"][-1:] == ["reader"] for _, _, s_ in f.stmts()):
            cands.append(f)
    named = [f for f in cands if f.name == "get_reader"]
    if named:
        return named[0]
    if len(cands) == 1:
        return cands[0]
    raise AnchorLost("the lazy constructor of ZipFile's decoding reader (get_reader, or Read::read with it inlined): %d candidates" % len(cands))


def precedes_on_every_path(fn, first_bb, then_bb, max_paths=40000):
    """path-sensitive stand-in for `fn.dominates(first_bb, then_bb)`: on every feasible acyclic path (E4: `?` on a value built on the
    path takes the edge that value calls for) that visits `then_bb`, `first_bb` was visited before.  Dominance is lost when a helper
    whose error exits merge with its success exit was inlined in front of the caller's `?`; the paths are not fooled.
    -> True / False, or None when the function has too many paths to enumerate"""
    from engine.paths import paths, PathExplosion
    try:
        ps = paths(fn, max_paths=max_paths)
    except PathExplosion:
        return None
    thru = [p for p in ps if then_bb in p["blocks"]]
    if not thru:
        return False
    return all(first_bb in p["blocks"] and p["blocks"].index(first_bb) < p["blocks"].index(then_bb) for p in thru)
