"""E5 core: reaching definitions and symbolic expression reconstruction over MIR.

`Ex(fn).operand(op, at)` rebuilds, for an operand used at a program point, the expression
tree it denotes in terms of the function's parameters, constants, field projections and
calls -- following copies, moves, references, re-borrows and a fixed list of
value-preserving wrapper calls.  Reaching definitions are flow-sensitive (a use sees only
the definitions that can reach it), joins become ('phi', ...).

Expression grammar (nested tuples):
  ('const', ty, value)            integer/bool/char literal (value is an int) or opaque const
  ('named', name, value|None)     named constant (value if scalar)
  ('str', s) ('bytes', tuple)     string / byte-string literal
  ('fn', path)
  ('arg', index, name)            function parameter (index is the MIR local, 1-based)
  ('upvar', i)                    closure capture
  ('field', base, name)           struct field / tuple index (name is str)
  ('variant', base, vname)        enum downcast
  ('index', base, idx)            slice/array indexing
  ('cast', e, from, to)
  ('bin', op, a, b) ('un', op, a)
  ('call', callee, (args...), resolved, site_bb)
  ('agg', kind, name, ((field, e), ...))   kind: adt:<variant> | tuple | array | closure
  ('discr', e)
  ('len', e)
  ('phi', (e, ...))
  ('local', n)                    cut-off (cycle or depth)
"""
import re

MAX_DEPTH = 40
CONST_BODIES = {}     # name -> MIR body of non-scalar named constants (filled when the facts are loaded)

# calls that return (a view of) their first argument unchanged -- looked through
TRANSPARENT = [
    r"^std::ops::Deref::deref$", r"^std::ops::DerefMut::deref_mut$",
    r"^std::convert::AsRef::as_ref$", r"^std::convert::AsMut::as_mut$",
    r"^std::borrow::Borrow::borrow$", r"^std::borrow::BorrowMut::borrow_mut$",
    r"^std::convert::Into::into$", r"^std::convert::From::from$",
    r"^std::clone::Clone::clone$",
    r"^std::string::String::as_bytes$", r"^core::str::<impl str>::as_bytes$",
    r"^std::string::String::as_str$", r"^std::vec::Vec::<T, A>::as_slice$",
    r"^std::vec::Vec::<T, A>::as_mut_slice$",
    r"^std::iter::IntoIterator::into_iter$",
    r"^std::path::Path::new$", r"^std::ffi::OsStr::new$",
    r"^std::borrow::Cow::<'_, B>::into_owned$",
]
_TR = [re.compile(p) for p in TRANSPARENT]


def is_transparent(callee):
    return any(r.search(callee or "") for r in _TR)


class Ex:
    def __init__(self, fn, transparent=True):
        self.fn = fn
        self.transparent = transparent
        self._memo = {}
        self._reach_memo = {}

    # ------------------------------------------------------------------ reaching defs
    def _defs_in_block_before(self, local, bb, idx):
        """last def of `local` in block bb strictly before statement index idx (idx=None: before the terminator,
        idx='end': after the terminator)"""
        b = self.fn.blocks[bb]
        n = len(b["stmts"])
        if idx == "end":
            t = b["term"]
            if t and t["k"] == "call" and t["dest"]["l"] == local:
                return ("c", bb, None, t)
            hi = n
        elif idx is None:
            hi = n
        else:
            hi = idx
        for si in range(hi - 1, -1, -1):
            s = b["stmts"][si]
            if s["k"] in ("assign", "setdiscr") and s["place"]["l"] == local:
                return ("s", bb, si, s)
        return None

    def reaching(self, local, bb, idx):
        """definitions of `local` (any projection) reaching the point just before (bb, idx).
        Returns a list of def sites; [] means only the initial value (parameter / uninitialised) reaches.
        A def of a *projection* of the local does not kill earlier defs (both are returned, nearest first)."""
        key = (local, bb, idx)
        if key in self._reach_memo:
            return self._reach_memo[key]
        out = []
        seen_blocks = set()
        entry_reached = [False]

        def scan_block(b, hi):
            """scan block b backwards from hi; return True if a killing (whole-local) def was found"""
            blk = self.fn.blocks[b]
            n = len(blk["stmts"])
            if hi == "end":
                t = blk["term"]
                if t and t["k"] == "call" and t["dest"]["l"] == local:
                    out.append(("c", b, None, t))
                    if not t["dest"]["p"]:
                        return True
                hi = n
            elif hi is None:
                hi = n
            for si in range(hi - 1, -1, -1):
                s = blk["stmts"][si]
                if s["k"] in ("assign", "setdiscr") and s["place"]["l"] == local:
                    out.append(("s", b, si, s))
                    if s["k"] == "assign" and not s["place"]["p"]:
                        return True
            return False

        def walk(b, hi):
            if scan_block(b, hi):
                return
            if b == 0:
                entry_reached[0] = True
            for p in self.fn.pred(b):
                if p in seen_blocks:
                    continue
                seen_blocks.add(p)
                # coming from predecessor p: its terminator may define the local (call dest)
                walk(p, "end")

        walk(bb, idx)
        res = (out, entry_reached[0])
        self._reach_memo[key] = res
        return res

    # ------------------------------------------------------------------ expressions
    def operand(self, op, at, depth=0):
        k = op["k"]
        if k == "const":
            return self._const(op)
        if k in ("copy", "move"):
            return self.place(op["place"], at, depth)
        return ("const", "?", None)

    def _const(self, op):
        if "fn" in op:
            return ("fn", op["fn"])
        if "name" in op:
            v = op.get("v")
            if v is not None:
                # a named scalar constant denotes its value: rules must not care whether a literal got a name
                return ("const", op["ty"], int(v))
            if op.get("str") is not None:
                return ("named", op["name"], op.get("str"))
            body = CONST_BODIES.get(op["name"])
            if body is not None:
                ce = self._const_body(op["name"], body)
                if ce is not None:
                    return ce
            return ("named", op["name"], None)
        if "v" in op:
            return ("const", op["ty"], int(op["v"]))
        if "str" in op:
            return ("str", op["str"])
        if "bytes" in op:
            return ("bytes", tuple(op["bytes"]))
        if "promoted" in op:
            pe = self._promoted(int(op["promoted"]))
            if pe is not None:
                return pe
            return ("const", op["ty"], "promoted%s" % op["promoted"])
        return ("const", op["ty"], None)

    def _const_body(self, name, body):
        if getattr(self, "_in_prom", False):
            return None
        key = ("cbody", name)
        if key in self._memo:
            return self._memo[key]
        from .mir import Fn
        raw = dict(path=name, kind="Const", blocks=body["blocks"], locals=body["locals"], arg_count=0, span=self.fn.span, name=None, vis=None,
                   impl_self=None, impl_trait=None, promoted=[])
        pf = Fn(raw)
        ex = Ex(pf)
        ex._in_prom = True
        out = None
        for b in pf.exits():
            out = ex.local(0, (b, None))
        self._memo[key] = out
        return out

    def _promoted(self, n):
        """value of a promoted constant of this function, reconstructed from its own tiny MIR body"""
        proms = self.fn.raw.get("promoted") or []
        if n >= len(proms) or getattr(self, "_in_prom", False):
            return None
        key = ("prom", n)
        if key in self._memo:
            return self._memo[key]
        from .mir import Fn
        raw = dict(path=self.fn.path + "::{promoted#%d}" % n, kind="Promoted", blocks=proms[n]["blocks"], locals=proms[n]["locals"],
                   arg_count=0, span=self.fn.span, name=None, vis=None, impl_self=None, impl_trait=None, promoted=[])
        pf = Fn(raw)
        ex = Ex(pf)
        ex._in_prom = True
        out = None
        for b in pf.exits():
            out = ex.local(0, (b, None))
        self._memo[key] = out
        return out

    def place(self, place, at, depth=0):
        base = self.local(place["l"], at, depth, want_proj=place["p"])
        return base

    def _apply_proj(self, e, projs, at, depth):
        for pr in projs:
            k = pr["k"]
            if k == "deref":
                continue
            if k == "field":
                name = pr["n"] if pr.get("n") is not None else str(pr["i"])
                e = self._field_of(e, name, pr["i"])
            elif k == "downcast":
                e = self._variant_of(e, pr["v"])
            elif k == "index":
                e = ("index", e, self.local(pr["l"], at, depth + 1))
            elif k == "cidx":
                e = ("index", e, ("const", "usize", (-1 - pr["o"]) if pr["fe"] else pr["o"]))
            elif k == "subslice":
                e = ("subslice", e, pr["from"], pr["to"], pr["fe"])
        return e

    def _field_of(self, e, name, idx):
        if e[0] == "agg":
            for (fn_, fe) in e[3]:
                if fn_ == name or fn_ == str(idx):
                    return fe
        if e[0] == "phi":
            parts = tuple(self._field_of(x, name, idx) for x in e[1])
            return mkphi(parts)
        return ("field", e, name)

    def _variant_of(self, e, v):
        if e[0] == "agg" and e[1].startswith("adt:"):
            return e  # fields of the aggregate are looked up directly
        if e[0] == "phi":
            # keep only alternatives that can be this variant
            alts = []
            for x in e[1]:
                if x[0] == "agg" and x[1].startswith("adt:") and x[1] != "adt:" + str(v):
                    continue
                alts.append(self._variant_of(x, v))
            if alts:
                return mkphi(tuple(alts))
        return ("variant", e, v)

    def local(self, l, at, depth=0, want_proj=()):
        """expression for local `l` (with projections want_proj applied) just before program point `at`=(bb, idx)"""
        if depth > MAX_DEPTH:
            return self._apply_proj(("local", l), want_proj, at, depth)
        key = (l, at, _pkey(want_proj))
        if key in self._memo:
            v = self._memo[key]
            if v is None:  # cycle
                return self._apply_proj(("local", l), want_proj, at, depth)
            return v
        self._memo[key] = None
        defs, from_entry = self.reaching(l, at[0], at[1])
        alts = []
        partial = [d for d in defs if _def_place(d)["p"]]
        whole = [d for d in defs if not _def_place(d)["p"]]
        # 1. an exact projected def (e.g. `_5.0 = x` then use of `_5.0`)
        handled_exact = False
        if want_proj:
            exact = [d for d in partial if _proj_prefix(_def_place(d)["p"], want_proj)]
            if exact and not whole and not from_entry and len(exact) == len(partial):
                for d in exact:
                    rest = _rest_after(_def_place(d)["p"], want_proj)
                    alts.append(self._apply_proj(self._def_value(d, depth), rest, at, depth))
                handled_exact = True
        if not handled_exact:
            for d in whole:
                alts.append(self._apply_proj(self._def_value(d, depth), want_proj, at, depth))
            if from_entry or (not whole):
                alts.append(self._apply_proj(self._initial(l), want_proj, at, depth))
            if partial and want_proj:
                # partial assignments that may overlap the requested projection
                for d in partial:
                    if _proj_prefix(_def_place(d)["p"], want_proj):
                        rest = _rest_after(_def_place(d)["p"], want_proj)
                        alts.append(self._apply_proj(self._def_value(d, depth), rest, at, depth))
        res = mkphi(tuple(alts))
        self._memo[key] = res
        return res

    def _initial(self, l):
        fn = self.fn
        if 1 <= l <= fn.arg_count:
            if fn.kind == "Closure" and l == 1:
                return ("upvars",)
            return ("arg", l, fn.local_name(l))
        return ("uninit", l)

    def _def_value(self, d, depth):
        kind, bb, si, node = d
        if kind == "c":
            return self._call_value(node, (bb, None), depth)
        if node["k"] == "setdiscr":
            return ("agg", "adt:" + str(node["variant"]), "?", ())
        return self.rvalue(node["rv"], (bb, si), depth + 1)

    def _call_value(self, t, at, depth):
        callee = t.get("callee") or ""
        args = tuple(self.operand(a, at, depth + 1) for a in t["args"])
        if self.transparent and args and is_transparent(callee):
            return args[0]
        if not callee:
            ind = t.get("indirect")
            return ("call", "<indirect>", ((self.operand(ind, at, depth + 1),) + args) if ind else args, None, at[0])
        return ("call", callee, args, t.get("resolved"), at[0])

    def rvalue(self, rv, at, depth=0):
        k = rv["k"]
        if k == "use":
            return self.operand(rv["op"], at, depth)
        if k in ("ref", "rawptr"):
            return self.place(rv["place"], at, depth)
        if k == "cast":
            e = self.operand(rv["op"], at, depth)
            ck = rv["ck"]
            if ck.startswith("PointerCoercion") or ck in ("PtrToPtr", "Transmute", "Subtype"):
                return e
            return ("cast", e, rv["from"], rv["to"])
        if k == "binop":
            return ("bin", rv["op"], self.operand(rv["a"], at, depth), self.operand(rv["b"], at, depth))
        if k == "unop":
            if rv["op"] == "PtrMetadata":
                return ("len", self.operand(rv["a"], at, depth))
            return ("un", rv["op"], self.operand(rv["a"], at, depth))
        if k == "discr":
            return ("discr", self.place(rv["place"], at, depth))
        if k == "agg":
            ak = rv["ak"]
            ops = [self.operand(o, at, depth) for o in rv["ops"]]
            if ak == "adt":
                fs = rv.get("fields") or []
                if len(fs) != len(ops):
                    fs = [str(i) for i in range(len(ops))]
                return ("agg", "adt:" + rv["variant"], rv["adt"], tuple(zip(fs, ops)))
            if ak == "closure":
                return ("agg", "closure", rv["closure"], tuple((str(i), o) for i, o in enumerate(ops)))
            return ("agg", ak, "", tuple((str(i), o) for i, o in enumerate(ops)))
        if k == "repeat":
            return ("repeat", self.operand(rv["op"], at, depth), rv["n"])
        return ("const", "?", None)


def _def_place(d):
    return d[3]["place"] if d[0] == "s" else d[3]["dest"]


def _strip_deref(p):
    return [x for x in p if x["k"] != "deref"]


def _pkey(p):
    return tuple((x["k"], x.get("i"), x.get("v"), x.get("l"), x.get("o")) for x in p)


def _proj_prefix(defp, usep):
    """is projection list defp a prefix of usep (ignoring derefs)?"""
    a = [(x["k"], x.get("i"), x.get("v")) for x in _strip_deref(defp)]
    b = [(x["k"], x.get("i"), x.get("v")) for x in _strip_deref(usep)]
    return len(a) <= len(b) and a == b[:len(a)]


def _rest_after(defp, usep):
    n = len(_strip_deref(defp))
    return _strip_deref(usep)[n:]


def mkphi(parts):
    flat = []
    for p in parts:
        if p[0] == "phi":
            for q in p[1]:
                if q not in flat:
                    flat.append(q)
        elif p not in flat:
            flat.append(p)
    # an uninitialised alternative carries no information when others exist
    if len(flat) > 1:
        flat = [p for p in flat if p[0] != "uninit"] or flat
    if len(flat) == 1:
        return flat[0]
    return ("phi", tuple(flat))


# ----------------------------------------------------------------------------- queries over expressions

def walk(e):
    """pre-order traversal of an expression tree"""
    yield e
    k = e[0]
    if k in ("field", "variant", "discr", "len", "un", "cast", "ok", "err", "errprop", "residual"):
        yield from walk(e[1] if k != "un" else e[2])
    elif k == "index":
        yield from walk(e[1])
        yield from walk(e[2])
    elif k == "subslice":
        yield from walk(e[1])
    elif k == "bin":
        yield from walk(e[2])
        yield from walk(e[3])
    elif k == "call":
        for a in e[2]:
            yield from walk(a)
    elif k == "agg":
        for _, a in e[3]:
            yield from walk(a)
    elif k == "phi":
        for a in e[1]:
            yield from walk(a)
    elif k == "repeat":
        yield from walk(e[1])


def alts(e):
    return list(e[1]) if e[0] == "phi" else [e]


def mentions(e, pred):
    return any(pred(x) for x in walk(e))


def calls_in(e, pat):
    r = re.compile(pat)
    return [x for x in walk(e) if x[0] == "call" and (r.search(x[1]) or (x[3] and r.search(x[3])))]


def fields_in(e):
    return [x[2] for x in walk(e) if x[0] == "field"]


def show(e, depth=0):
    """compact, stable textual form (used in report text and as part of site keys)"""
    if depth > 12:
        return "…"
    k = e[0]
    if k == "const":
        return "%s" % (e[2],) if e[2] is not None else "const:%s" % e[1]
    if k == "named":
        return e[1].split("::")[-1]
    if k == "str":
        return repr(e[1])
    if k == "bytes":
        return "b%r" % (bytes(e[1]),)
    if k == "fn":
        return "fn:" + short(e[1])
    if k == "arg":
        return e[2] or "arg%d" % e[1]
    if k == "upvars":
        return "captures"
    if k == "uninit":
        return "uninit"
    if k == "local":
        return "_%d" % e[1]
    if k == "field":
        return "%s.%s" % (show(e[1], depth + 1), e[2])
    if k == "variant":
        return "%s@%s" % (show(e[1], depth + 1), e[2])
    if k == "index":
        return "%s[%s]" % (show(e[1], depth + 1), show(e[2], depth + 1))
    if k == "subslice":
        return "%s[%s..%s]" % (show(e[1], depth + 1), e[2], e[3])
    if k == "cast":
        return "(%s as %s)" % (show(e[1], depth + 1), e[3])
    if k == "bin":
        return "%s(%s, %s)" % (e[1], show(e[2], depth + 1), show(e[3], depth + 1))
    if k == "un":
        return "%s(%s)" % (e[1], show(e[2], depth + 1))
    if k == "len":
        return "len(%s)" % show(e[1], depth + 1)
    if k == "discr":
        return "discr(%s)" % show(e[1], depth + 1)
    if k == "call":
        return "%s(%s)" % (short(e[1]), ", ".join(show(a, depth + 1) for a in e[2]))
    if k == "agg":
        return "%s{%s}" % (e[1].replace("adt:", "") if e[1].startswith("adt:") else e[1],
                           ", ".join("%s: %s" % (f, show(a, depth + 1)) for f, a in e[3]))
    if k == "phi":
        return "φ(%s)" % " | ".join(show(a, depth + 1) for a in e[1])
    if k == "repeat":
        return "[%s; %s]" % (show(e[1], depth + 1), e[2])
    if k in ("ok", "err", "errprop", "residual"):
        return "%s(%s)" % (k, show(e[1], depth + 1))
    return str(k)


def short(path):
    """last two segments of a def path, generics stripped"""
    p = re.sub(r"<[^<>]*>", "", path)
    p = re.sub(r"<[^<>]*>", "", p)
    segs = [s for s in p.split("::") if s]
    return "::".join(segs[-2:]) if len(segs) >= 2 else p


# ----------------------------------------------------------------------------- normalisation

_OVF = {"AddWithOverflow": "Add", "SubWithOverflow": "Sub", "MulWithOverflow": "Mul"}


def _ok(x):
    """the success payload of x; where x is visibly built from Ok/Some/Err/None values only the successful alternatives matter"""
    if x[0] == "agg" and x[1] in ("adt:Ok", "adt:Some") and len(x[3]) == 1:
        return x[3][0][1]
    if x[0] == "phi":
        good, pay = True, []
        for a in x[1]:
            if a[0] == "agg" and a[1] in ("adt:Ok", "adt:Some") and len(a[3]) == 1:
                pay.append(a[3][0][1])
            elif (a[0] == "agg" and a[1] in ("adt:Err", "adt:None")) or a[0] == "errprop":
                continue
            else:
                good = False
        if good and pay:
            return mkphi(tuple(pay))
    return ("ok", x)


def norm(e):
    """rewrite MIR idioms into their source-level meaning:
       XWithOverflow(a,b).0 -> X(a,b);  Try::branch(x)@Continue.0 -> ('ok', x);  x@Ok.0 / x@Some.0 -> ('ok', x)
       FromResidual::from_residual(Try::branch(x)@Break.0) -> ('errprop', x);  x@Err.0 -> ('err', x)"""
    k = e[0]
    if k == "field":
        b = norm(e[1])
        if e[2] == "0":
            if b[0] == "bin" and b[1] in _OVF:
                return norm(("bin", _OVF[b[1]], b[2], b[3]))
            if b[0] == "variant":
                inner = b[1]
                if b[2] == "Continue" and inner[0] == "call" and inner[1].endswith("Try::branch"):
                    return _ok(inner[2][0])
                if b[2] == "Break" and inner[0] == "call" and inner[1].endswith("Try::branch"):
                    return ("residual", inner[2][0])
                if b[2] in ("Ok", "Some"):
                    return _ok(inner)
                if b[2] == "Err":
                    return ("err", inner)
        # projection out of a value that is visibly being built: (a, b).1 == b ; S { x: e, .. }.x == e
        if b[0] == "agg":
            for f_, a_ in b[3]:
                if str(f_) == str(e[2]):
                    return a_
        return ("field", b, e[2])
    if k == "variant":
        return ("variant", norm(e[1]), e[2])
    if k in ("discr", "len"):
        return (k, norm(e[1]))
    if k == "cast":
        return ("cast", norm(e[1]), e[2], e[3])
    if k == "un":
        return ("un", e[1], norm(e[2]))
    if k == "bin":
        a_, b_ = norm(e[2]), norm(e[3])
        op_ = _OVF.get(e[1], e[1]) if e[1] in _OVF else e[1]
        # arithmetic on two literals (a named length minus one, 2 + 10, ...) is that literal
        if a_[0] in ("const", "named") and b_[0] in ("const", "named") and isinstance(a_[2], int) and isinstance(b_[2], int) and \
                not isinstance(a_[2], bool) and not isinstance(b_[2], bool) and e[1] in ("Add", "Sub", "Mul", "BitOr", "BitAnd", "Shl", "Shr"):
            try:
                r_ = {"Add": a_[2] + b_[2], "Sub": a_[2] - b_[2], "Mul": a_[2] * b_[2], "BitOr": a_[2] | b_[2], "BitAnd": a_[2] & b_[2],
                      "Shl": a_[2] << b_[2] if 0 <= b_[2] < 64 else None, "Shr": a_[2] >> b_[2] if 0 <= b_[2] < 64 else None}[e[1]]
            except (ValueError, OverflowError):
                r_ = None
            if r_ is not None and 0 <= r_ < (1 << 64):
                return ("const", a_[1], r_)
        # a single-bit test has one meaning however it is spelled:  (x & m) == m  <=>  (x & m) != 0  (m a power of two)
        if e[1] in ("Eq", "Ne"):
            for x_, c_ in ((a_, b_), (b_, a_)):
                if x_[0] == "bin" and x_[1] == "BitAnd" and c_[0] in ("const", "named") and isinstance(c_[2], int) and not isinstance(c_[2], bool) and c_[2] > 0 \
                        and c_[2] & (c_[2] - 1) == 0:
                    for m_ in (x_[2], x_[3]):
                        if m_[0] in ("const", "named") and m_[2] == c_[2]:
                            return ("bin", "Ne" if e[1] == "Eq" else "Eq", x_, ("const", c_[1], 0))
        return ("bin", e[1], a_, b_)
    if k == "index":
        b, i = norm(e[1]), norm(e[2])
        # byte i of an integer's little/big-endian image is a shift:  x.to_le_bytes()[i] == (x >> 8*i) as u8
        if b[0] == "call" and i[0] == "const" and isinstance(i[2], int) and not isinstance(i[2], bool) and len(b[2]) == 1:
            m_ = re.search(r"<impl (u8|u16|u32|u64|u128|usize)>::to_(le|be)_bytes$", b[1])
            if m_:
                w_ = {"u8": 1, "u16": 2, "u32": 4, "u64": 8, "u128": 16, "usize": 8}[m_.group(1)]
                if 0 <= i[2] < w_:
                    sh_ = 8 * (i[2] if m_.group(2) == "le" else w_ - 1 - i[2])
                    x_ = b[2][0]
                    return ("cast", norm(("bin", "Shr", x_, ("const", "i32", sh_))) if sh_ else x_, m_.group(1), "u8")
        # constant index into an array literal / tuple-like aggregate: the element itself
        if b[0] == "agg" and i[0] == "const" and isinstance(i[2], int) and not isinstance(i[2], bool):
            for f, a in b[3]:
                if str(f) == str(i[2]):
                    return a
        return ("index", b, i)
    if k == "subslice":
        return ("subslice", norm(e[1])) + e[2:]
    if k == "call":
        args = tuple(norm(a) for a in e[2])
        if e[1].endswith("FromResidual::from_residual") and args and args[0][0] == "residual":
            return ("errprop", args[0][1])
        if e[1].endswith("FromResidual::from_residual") and args and args[0][0] == "phi" and args[0][1] and all(x[0] == "residual" for x in args[0][1]):
            # several `?` sharing one error exit (an unrolled loop body): the error of whichever failed is propagated
            return ("errprop", mkphi(tuple(x[1] for x in args[0][1])))
        # the sentinel clamp spelled with a checked conversion:  uN::try_from(x).unwrap_or(uN::MAX)  ==  min(x, uN::MAX) as uN
        # (x unsigned: lengths, counts, stream positions)
        if e[1].endswith("::unwrap_or") and len(args) == 2 and args[0][0] == "call" and re.search(r"TryFrom|try_from|TryInto|try_into", args[0][1]) and \
                args[1][0] in ("const", "named") and isinstance(args[1][2], int) and (args[1][1], args[1][2]) in (("u8", 0xFF), ("u16", 0xFFFF), ("u32", 0xFFFFFFFF)) \
                and len(args[0][2]) == 1:
            x_ = args[0][2][0]
            return ("cast", ("call", "core::cmp::Ord::min", (x_, ("const", "u64", args[1][2])), None) + e[4:], "u64", args[1][1])
        return ("call", e[1], args) + e[3:]
    if k == "agg":
        return ("agg", e[1], e[2], tuple((f, norm(a)) for f, a in e[3]))
    if k == "phi":
        return mkphi(tuple(norm(a) for a in e[1]))
    if k == "repeat":
        return ("repeat", norm(e[1]), e[2])
    return e


# ----------------------------------------------------------------------------- evaluation of closed integer expressions
_W = {"u8": 8, "u16": 16, "u32": 32, "u64": 64, "usize": 64, "u128": 128, "i8": 8, "i16": 16, "i32": 32, "i64": 64, "isize": 64}


def eval_int(e, args):
    """value of a reconstructed pure integer expression for given argument values {name: int} (None if it contains anything but
    constants, arguments, casts and integer operators).  Used to compare a bit-field extraction with its specification over the
    whole (finite) domain of its argument instead of matching how it is spelled."""
    k = e[0]
    if k in ("const", "named"):
        return e[2] if isinstance(e[2], int) and not isinstance(e[2], bool) else None
    if k == "arg":
        return args.get(e[2])
    if k == "cast":
        v = eval_int(e[1], args)
        if v is None:
            return None
        w = _W.get(str(e[3]))
        return v & ((1 << w) - 1) if w else None
    if k == "bin":
        a, b = eval_int(e[2], args), eval_int(e[3], args)
        if a is None or b is None:
            return None
        op = _OVF.get(e[1], e[1])
        try:
            return {"BitAnd": lambda: a & b, "BitOr": lambda: a | b, "BitXor": lambda: a ^ b, "Shl": lambda: a << b if 0 <= b < 128 else None,
                    "Shr": lambda: a >> b if 0 <= b < 128 else None, "Add": lambda: a + b, "Sub": lambda: a - b if a >= b else None, "Mul": lambda: a * b}[op]()
        except KeyError:
            return None
    if k == "field" and e[2] == "0":
        return eval_int(e[1], args)
    return None


# ----------------------------------------------------------------------------- purity-aware canonical form

PURE_CALLS = re.compile(r"time::OffsetDateTime::(year|month|day|hour|minute|second)$|::len$|::is_empty$|::is_ascii$|"
                        r"^types::AesMode::(key_length|salt_length)$|^types::DateTime::(timepart|datepart|year|month|day|hour|minute|second)$")


def canon(e):
    """drop the call-site identity of calls to pure accessors (two calls with equal arguments denote the same value);
    calls that may read a stream or mutate state keep their site"""
    k = e[0]
    if k == "call":
        args = tuple(canon(a) for a in e[2])
        if PURE_CALLS.search(e[1]):
            return ("call", e[1], args, e[3] if len(e) > 3 else None, None)
        return ("call", e[1], args) + tuple(e[3:])
    if k in ("field", "variant"):
        return (k, canon(e[1]), e[2])
    if k in ("discr", "len", "ok", "err", "errprop", "residual"):
        return (k, canon(e[1]))
    if k == "cast":
        return ("cast", canon(e[1]), e[2], e[3])
    if k == "un":
        return ("un", e[1], canon(e[2]))
    if k == "bin":
        return ("bin", e[1], canon(e[2]), canon(e[3]))
    if k == "index":
        return ("index", canon(e[1]), canon(e[2]))
    if k == "agg":
        return ("agg", e[1], e[2], tuple((f, canon(a)) for f, a in e[3]))
    if k == "phi":
        return mkphi(tuple(canon(a) for a in e[1]))
    return e
