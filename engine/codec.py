"""E2: codec tables -- the ordered fixed-width I/O a function performs on a stream, per success path.

events(fn) enumerates, over the acyclic success paths of the MIR CFG (error exits pruned, back edges cut), the sequence of
I/O events.  Event = dict(kind, width, expr, stream, bb, span, loop, fn) with kind in
  r   read_uN            (expr: the call expression; its destination roles are looked up with `read_roles`)
  w   write_uN           (expr: value written)
  rx  read_exact         (expr: length of the buffer read into, when it can be recovered)
  wa  write_all          (expr: bytes written)
  seek                   (expr: the SeekFrom aggregate)
Calls to crate-local functions that receive the stream are spliced in place (one level per call, depth-limited).
"""
import re
from .expr import Ex, norm, show, walk, alts
from .mir import callee_matches, AnchorLost

READ_N = re.compile(r"byteorder::ReadBytesExt::read_(u|i)(8|16|32|64|128)$")
WRITE_N = re.compile(r"byteorder::WriteBytesExt::write_(u|i)(8|16|32|64|128)$")
READ_EXACT = re.compile(r"std::io::Read::read_exact$")
WRITE_ALL = re.compile(r"std::io::Write::write_all$")
SEEK = re.compile(r"std::io::Seek::seek$")
STREAM_POS = re.compile(r"std::io::Seek::stream_position$")

MAX_SEQS = 4000


class Codec:
    def __init__(self, facts):
        self.facts = facts
        self._cache = {}

    # ------------------------------------------------------------------ block classification
    def _error_blocks(self, fn):
        """blocks on which the function is already committed to returning Err (or diverging)"""
        ex = Ex(fn)
        err = set()
        for bi, b in enumerate(fn.blocks):
            if b["cleanup"]:
                continue
            t = b["term"]
            if t and t["k"] == "call" and callee_matches(t, r"ops::FromResidual::from_residual$", r"^core::panicking::"):
                err.add(bi)
            if t and t["k"] == "call" and t.get("target") is None:
                err.add(bi)
            for s in b["stmts"]:
                if s["k"] == "assign" and s["place"]["l"] == 0 and not s["place"]["p"] and s["rv"]["k"] == "agg" \
                        and s["rv"].get("ak") == "adt" and s["rv"]["variant"] == "Err":
                    err.add(bi)
            # `return unsupported_zip_error(..)`-style helper whose every return is Err
            if t and t["k"] == "call" and t["dest"]["l"] == 0 and not t["dest"]["p"]:
                for tgt in self.facts.local_targets(t):
                    if self._always_err(tgt):
                        err.add(bi)
        return err

    def _always_err(self, path):
        f = self.facts.by_path.get(path)
        if not f:
            return False
        ex = Ex(f)
        outs = []
        for b in f.exits():
            outs.extend(alts(norm(ex.local(0, (b, None)))))
        return bool(outs) and all(a[0] == "agg" and a[1] == "adt:Err" for a in outs)

    # ------------------------------------------------------------------ events of one block
    def _block_events(self, fn, ex, bi, depth, in_loop):
        t = fn.term(bi)
        if not t or t["k"] != "call":
            return [[]]
        cal = t.get("callee") or ""
        at = (bi, None)

        def stream_of(i=0):
            return show(norm(ex.operand(t["args"][i], at)))

        def ev(kind, width, expr):
            return dict(kind=kind, width=width, expr=expr, stream=stream_of(0), bb=bi, span=t["span"], loop=in_loop,
                        fn=fn.path, gargs=t.get("gargs") or [])
        m = READ_N.search(cal)
        if m:
            callx = norm(ex._call_value(t, at, 0))
            return [[ev("r", int(m.group(2)) // 8, callx)]]
        m = WRITE_N.search(cal)
        if m:
            return [[ev("w", int(m.group(2)) // 8, norm(ex.operand(t["args"][1], at)))]]
        if READ_EXACT.search(cal):
            buf = norm(ex.operand(t["args"][1], at))
            return [[ev("rx", None, buf)]]
        if WRITE_ALL.search(cal):
            return [[ev("wa", None, norm(ex.operand(t["args"][1], at)))]]
        if SEEK.search(cal):
            return [[ev("seek", None, norm(ex.operand(t["args"][1], at)))]]
        # crate-local callee receiving a stream: splice
        if depth < 3:
            tgts = self.facts.local_targets(t)
            if len(tgts) == 1 and tgts[0] != fn.path:
                callee = self.facts.by_path[tgts[0]]
                if self._does_io(callee, set()):
                    seqs = self.sequences(callee, depth + 1)
                    out = []
                    args = [norm(ex.operand(a, at)) for a in t["args"]]
                    pnames = {}
                    for i in range(1, callee.arg_count + 1):
                        nm = callee.local_name(i)
                        if nm and i - 1 < len(args):
                            pnames[nm] = show(args[i - 1])
                    for s in seqs:
                        row = []
                        for e in s:
                            e2 = dict(e, loop=e["loop"] or in_loop)
                            if e2["stream"] in pnames:
                                e2["stream"] = pnames[e2["stream"]]
                            if "via" not in e2:
                                e2["via"] = (fn.path, bi)
                            row.append(e2)
                        out.append(row)
                    return out or [[]]
        return [[]]

    def _does_io(self, fn, seen):
        if fn.path in seen:
            return False
        seen.add(fn.path)
        for bi, t in fn.calls():
            cal = t.get("callee") or ""
            if READ_N.search(cal) or WRITE_N.search(cal) or READ_EXACT.search(cal) or WRITE_ALL.search(cal) or SEEK.search(cal):
                return True
            for tg in self.facts.local_targets(t):
                if tg in self.facts.by_path and self._does_io(self.facts.by_path[tg], seen):
                    return True
        return False

    # ------------------------------------------------------------------ sequences
    def sequences(self, fn, depth=0):
        key = (fn.path, depth > 0)
        if key in self._cache:
            return self._cache[key]
        ex = Ex(fn)
        err = self._error_blocks(fn)
        back = set(fn.back_edges())
        loop_blocks = set()
        for h, body in fn.loops():
            loop_blocks |= body
        memo = {}
        exits = set(fn.exits())

        def go(b, stack):
            if b in memo:
                return memo[b]
            if b in err:
                memo[b] = []
                return []
            tk = fn.term(b)
            if tk is None or tk["k"] in ("unreachable", "resume", "terminate"):
                memo[b] = []
                return []
            here = self._block_events(fn, ex, b, depth, b in loop_blocks)
            t = fn.term(b)
            res = []
            if t and t["k"] == "return":
                res = [tuple_seq(h) for h in here]
                memo[b] = res
                return res
            succs = [s for s in fn.succ(b) if (b, s) not in back]
            tails = []
            anysucc = False
            for s in succs:
                if s in stack:
                    continue
                ts = go(s, stack | {b})
                anysucc = True
                for x in ts:
                    if x not in tails:
                        tails.append(x)
            if not succs and not (t and t["k"] == "return"):
                # loop latch whose only successor is the back edge: the path continues after the loop through the header's
                # other successors, which the header already enumerates -> contribute an empty tail
                tails = [()]
            for h in here:
                hs = tuple_seq(h)
                for x in tails:
                    cand = hs + x
                    if cand not in res:
                        res.append(cand)
                    if len(res) > MAX_SEQS:
                        raise AnchorLost("codec path explosion in %s" % fn.path)
            memo[b] = res
            return res

        import sys
        sys.setrecursionlimit(10000)
        seqs = go(0, frozenset())
        out = [list(map(dict, s)) for s in seqs]
        self._cache[key] = out
        return out


def tuple_seq(evs):
    return tuple(tuple(sorted(e.items(), key=lambda kv: kv[0])) if not isinstance(e, tuple) else e for e in [freeze(e) for e in evs])


def freeze(e):
    return tuple(sorted(((k, _fz(v)) for k, v in e.items()), key=lambda kv: kv[0]))


def _fz(v):
    if isinstance(v, list):
        return tuple(_fz(x) for x in v)
    if isinstance(v, dict):
        return tuple(sorted((k, _fz(x)) for k, x in v.items()))
    return v


def shape(seq):
    """width signature of a sequence: list of 'r4', 'w2', 'rx', 'wa', 'seek'"""
    out = []
    for e in seq:
        if e["kind"] in ("r", "w"):
            out.append("%s%d" % (e["kind"], e["width"]))
        else:
            out.append(e["kind"])
    return out


def read_roles(fn, facts=None):
    """site bb -> list of roles for the value produced by the read call at that block:
       ('field', adt, field, expr) it ends up in an aggregate field;  ('cmp', const_name_or_value, op);
       ('len', description)  it sizes a buffer; ('arg', callee, index)"""
    ex = Ex(fn)
    roles = {}

    def add(site, r):
        roles.setdefault(site, [])
        if r not in roles[site]:
            roles[site].append(r)

    def sites_in(e):
        return [x[4] for x in walk(e) if x[0] == "call" and len(x) > 4 and (READ_N.search(x[1]) or READ_EXACT.search(x[1]))]

    for bi, si, s in fn.stmts():
        if s["k"] != "assign":
            continue
        rv = s["rv"]
        if rv["k"] == "agg" and rv.get("ak") == "adt":
            fs = rv.get("fields") or []
            for fname, op in zip(fs, rv["ops"]):
                e = norm(ex.operand(op, (bi, si)))
                for st in sites_in(e):
                    add(st, ("field", rv["adt"], fname, e))
        # assignment into a struct field after construction (file.uncompressed_size = read_u64()?)
        fp = [p for p in s["place"]["p"] if p["k"] == "field"]
        if fp and rv["k"] != "agg":
            e = norm(ex.rvalue(rv, (bi, si)))
            for st in sites_in(e):
                add(st, ("field", fp[-1].get("adt") or "?", fp[-1].get("n"), e))
    for bi, b in enumerate(fn.blocks):
        if b["cleanup"]:
            continue
        t = b["term"]
        if not t:
            continue
        if t["k"] == "switch":
            d = norm(ex.operand(t["discr"], (bi, None)))
            for x in walk(d):
                if x[0] == "bin" and x[1] in ("Eq", "Ne", "Lt", "Le", "Gt", "Ge"):
                    for side, other in ((x[2], x[3]), (x[3], x[2])):
                        for st in sites_in(side):
                            add(st, ("cmp", other, x[1]))
            if d[0] == "ok" or d[0] == "cast" or d[0] == "call":
                for st in sites_in(d):
                    vals = [v for v, _ in t["targets"]]
                    add(st, ("switch", tuple(vals)))
        elif t["k"] == "call":
            for ai, a in enumerate(t["args"]):
                e = norm(ex.operand(a, (bi, None)))
                if e[0] == "call" and re.search(r"vec::from_elem$", e[1]):
                    continue
                for st in sites_in(e):
                    if st != bi:
                        add(st, ("arg", t.get("callee"), ai, e))
    return roles
