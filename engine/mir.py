"""MIR fact model (loaded from the zipfacts JSON) + CFG utilities shared by all rules.

Nothing in here executes crate code: it is graph algorithms over the JSON that the
rustc_private extractor wrote for /repo's current working tree.
"""
import json
import re
from collections import defaultdict, deque


# ----------------------------------------------------------------------------- pretty

def pp_place(p):
    s = "_%d" % p["l"]
    for e in p["p"]:
        k = e["k"]
        if k == "deref":
            s = "(*%s)" % s
        elif k == "field":
            s = "%s.%s" % (s, e["n"] if e.get("n") is not None else e["i"])
        elif k == "downcast":
            s = "(%s as %s)" % (s, e["v"])
        elif k == "index":
            s = "%s[_%d]" % (s, e["l"])
        elif k == "cidx":
            s = "%s[%s%s]" % (s, "-" if e["fe"] else "", e["o"])
        elif k == "subslice":
            s = "%s[%s..%s%s]" % (s, e["from"], "-" if e["fe"] else "", e["to"])
        else:
            s = "%s.<%s>" % (s, k)
    return s


def pp_op(o):
    if o is None:
        return "?"
    k = o["k"]
    if k in ("copy", "move"):
        return ("move " if k == "move" else "") + pp_place(o["place"])
    if k == "const":
        if "fn" in o:
            return "fn(%s)" % o["fn"]
        if "name" in o and "v" in o:
            return "%s{=%s}" % (o["name"], o["v"])
        if "name" in o:
            return o["name"]
        if "v" in o:
            return "%s_%s" % (o["v"], o["ty"])
        if "str" in o:
            return json.dumps(o["str"])
        if "promoted" in o:
            return "promoted[%s]:%s" % (o["promoted"], o["ty"])
        return "const:%s" % o["ty"]
    return k


def pp_rv(r):
    k = r["k"]
    if k == "use":
        return pp_op(r["op"])
    if k == "ref":
        return "&%s%s" % ("mut " if r["mut"] else "", pp_place(r["place"]))
    if k == "rawptr":
        return "&raw %s" % pp_place(r["place"])
    if k == "cast":
        return "%s as %s (%s)" % (pp_op(r["op"]), r["to"], r["ck"])
    if k == "binop":
        return "%s(%s, %s)" % (r["op"], pp_op(r["a"]), pp_op(r["b"]))
    if k == "unop":
        return "%s(%s)" % (r["op"], pp_op(r["a"]))
    if k == "discr":
        return "discriminant(%s)" % pp_place(r["place"])
    if k == "agg":
        ak = r["ak"]
        ops = ", ".join(pp_op(o) for o in r["ops"])
        if ak == "adt":
            fs = r.get("fields") or []
            if len(fs) == len(r["ops"]):
                ops = ", ".join("%s: %s" % (f, pp_op(o)) for f, o in zip(fs, r["ops"]))
            return "%s::%s{%s}" % (r["adt"], r["variant"], ops)
        if ak == "closure":
            return "closure(%s){%s}" % (r["closure"], ops)
        return "%s(%s)" % (ak, ops)
    if k == "repeat":
        return "[%s; %s]" % (pp_op(r["op"]), r["n"])
    return k


def pp_term(t):
    k = t["k"]
    if k == "goto":
        return "goto -> bb%d" % t["target"]
    if k == "switch":
        ts = ", ".join("%s: bb%s" % (v, b) for v, b in t["targets"])
        return "switchInt(%s) -> [%s, otherwise: bb%d]" % (pp_op(t["discr"]), ts, t["otherwise"])
    if k == "call":
        callee = t["callee"] or ("indirect " + pp_op(t.get("indirect")))
        res = ""
        if t["resolved"] and t["resolved"] != t["callee"]:
            res = " {=> %s}" % t["resolved"]
        return "%s = %s(%s)%s -> %s unwind %s" % (
            pp_place(t["dest"]), callee, ", ".join(pp_op(a) for a in t["args"]), res,
            "bb%s" % t["target"] if t["target"] is not None else "!",
            t["unwind"])
    if k == "assert":
        return "assert(%s%s, %s(%s)) -> bb%d" % (
            "" if t["expected"] else "!", pp_op(t["cond"]), t["akind"],
            ", ".join(pp_op(o) for o in t["ops"]), t["target"])
    if k == "drop":
        return "drop(%s) -> bb%d" % (pp_place(t["place"]), t["target"])
    return k


def pp_fn(f, out=None):
    lines = []
    lines.append("fn %s  [%s]" % (f["path"], f["span"]))
    for i, l in enumerate(f["locals"]):
        lines.append("  let _%d: %s%s" % (i, l["ty"], "  // %s" % l["name"] if l["name"] else ""))
    for bi, b in enumerate(f["blocks"]):
        lines.append("  bb%d%s:" % (bi, " (cleanup)" if b["cleanup"] else ""))
        for s in b["stmts"]:
            if s["k"] == "assign":
                lines.append("    %s = %s   // %s" % (pp_place(s["place"]), pp_rv(s["rv"]), s["span"].split("/")[-1]))
            elif s["k"] == "setdiscr":
                lines.append("    discriminant(%s) = %s" % (pp_place(s["place"]), s["variant"]))
            else:
                lines.append("    %s" % s["k"])
        t = b["term"]
        if t:
            ex = (" !%s" % ",".join(t["expn"])) if t.get("expn") else ""
            lines.append("    %s   // %s%s" % (pp_term(t), t["span"].split("/")[-1], ex))
    return "\n".join(lines)


# ----------------------------------------------------------------------------- model

class Fn:
    def __init__(self, raw):
        self.raw = raw
        self.path = raw["path"]
        self.kind = raw["kind"]
        self.name = raw.get("name")
        self.vis = raw.get("vis")
        self.impl_self = raw.get("impl_self")
        self.impl_trait = raw.get("impl_trait")
        self.blocks = raw["blocks"]
        self.locals = raw["locals"]
        self.arg_count = raw["arg_count"]
        self.span = raw["span"]
        self._succ = None
        self._pred = None
        self._dom = None
        self._pdom = None
        self._defs = None

    # ---- spans
    @property
    def file(self):
        return self.span.rsplit(":", 2)[0]

    def is_public(self):
        return self.vis == "Public"

    # ---- CFG (normal control flow only: unwind edges and cleanup blocks are ignored)
    def term(self, b):
        return self.blocks[b]["term"]

    def succ(self, b):
        if self._succ is None:
            self._succ = [self._succ_of(i) for i in range(len(self.blocks))]
        return self._succ[b]

    def _succ_of(self, b):
        t = self.blocks[b]["term"]
        if t is None:
            return []
        k = t["k"]
        if k == "goto":
            return [t["target"]]
        if k == "switch":
            out = []
            for _, bb in t["targets"]:
                if bb not in out:
                    out.append(bb)
            if t["otherwise"] not in out:
                out.append(t["otherwise"])
            return out
        if k in ("call", "assert", "drop"):
            return [t["target"]] if t.get("target") is not None else []
        return []

    def pred(self, b):
        if self._pred is None:
            p = [[] for _ in self.blocks]
            for i in range(len(self.blocks)):
                for s in self.succ(i):
                    p[s].append(i)
            self._pred = p
        return self._pred[b]

    def reachable(self, start=0):
        seen = {start}
        dq = deque([start])
        while dq:
            b = dq.popleft()
            for s in self.succ(b):
                if s not in seen:
                    seen.add(s)
                    dq.append(s)
        return seen

    def reach_from(self, b, avoid=()):
        """blocks reachable from b (excluding b itself unless on a cycle), not passing through `avoid`"""
        seen = set()
        dq = deque(self.succ(b))
        while dq:
            x = dq.popleft()
            if x in seen or x in avoid:
                continue
            seen.add(x)
            dq.extend(self.succ(x))
        return seen

    def reach_from_inclusive(self, b, avoid=()):
        """blocks reachable from b including b itself, never entering a block in `avoid`"""
        if b in avoid:
            return set()
        seen = {b}
        dq = deque([b])
        while dq:
            x = dq.popleft()
            for y in self.succ(x):
                if y not in seen and y not in avoid:
                    seen.add(y)
                    dq.append(y)
        return seen

    def dominators(self):
        """dom[b] = set of blocks dominating b (iterative, fine for <300 blocks)"""
        if self._dom is not None:
            return self._dom
        n = len(self.blocks)
        reach = self.reachable(0)
        allb = set(reach)
        dom = {b: set(allb) for b in reach}
        dom[0] = {0}
        changed = True
        order = sorted(reach)
        while changed:
            changed = False
            for b in order:
                if b == 0:
                    continue
                ps = [p for p in self.pred(b) if p in reach]
                if not ps:
                    continue
                new = set.intersection(*(dom[p] for p in ps)) | {b}
                if new != dom[b]:
                    dom[b] = new
                    changed = True
        self._dom = dom
        return dom

    def dominates(self, a, b):
        d = self.dominators()
        return b in d and a in d[b]

    def call_dominates_stmt(self, call_bb, stmt_bb):
        """a call is its block's terminator: it precedes a *statement* of block B on every path only if its block strictly dominates B
        (a statement of the call's own block runs before the call)"""
        return call_bb != stmt_bb and self.dominates(call_bb, stmt_bb)

    def exits(self):
        """blocks whose terminator is `return`"""
        return [i for i, b in enumerate(self.blocks) if b["term"] and b["term"]["k"] == "return" and not b["cleanup"]]

    def back_edges(self):
        dom = self.dominators()
        out = []
        for b in dom:
            for s in self.succ(b):
                if s in dom[b]:
                    out.append((b, s))
        return out

    def loops(self):
        """natural loops: list of (header, set(body blocks))"""
        res = {}
        for (t, h) in self.back_edges():
            body = {h, t}
            st = [t]
            while st:
                x = st.pop()
                if x == h:
                    continue
                for p in self.pred(x):
                    if p not in body:
                        body.add(p)
                        st.append(p)
            res.setdefault(h, set()).update(body)
        return sorted(res.items())

    # ---- definitions
    def defs(self):
        """local -> list of def sites ('s', bb, idx, stmt) / ('c', bb, None, term) writing the *whole* local or a projection of it"""
        if self._defs is not None:
            return self._defs
        d = defaultdict(list)
        for bi, b in enumerate(self.blocks):
            if b["cleanup"]:
                continue
            for si, s in enumerate(b["stmts"]):
                if s["k"] in ("assign", "setdiscr"):
                    d[s["place"]["l"]].append(("s", bi, si, s))
            t = b["term"]
            if t and t["k"] == "call":
                d[t["dest"]["l"]].append(("c", bi, None, t))
        self._defs = d
        return d

    def whole_defs(self, local):
        return [x for x in self.defs().get(local, []) if not (x[3]["place"] if x[0] == "s" else x[3]["dest"])["p"]]

    def calls(self):
        for bi, b in enumerate(self.blocks):
            if b["cleanup"]:
                continue
            t = b["term"]
            if t and t["k"] == "call":
                yield bi, t

    def stmts(self):
        for bi, b in enumerate(self.blocks):
            if b["cleanup"]:
                continue
            for si, s in enumerate(b["stmts"]):
                yield bi, si, s

    def local_name(self, l):
        return self.locals[l].get("name")

    def local_ty(self, l):
        return self.locals[l]["ty"]

    def line_of(self, span):
        try:
            return int(span.rsplit(":", 2)[1])
        except Exception:
            return 0


def callee_name(t):
    """best name for a call terminator: resolved instance path if known, else declared callee"""
    return t.get("resolved") or t.get("callee") or ""


def callee_matches(t, *pats):
    """True if the declared callee or the resolved instance path matches any regex in pats"""
    names = [t.get("callee") or "", t.get("resolved") or ""]
    for p in pats:
        for n in names:
            if re.search(p, n):
                return True
    return False


def _load_anchors():
    import os
    tab = os.path.join(os.path.dirname(os.path.dirname(os.path.abspath(__file__))), "tables", "anchors.json")
    if not os.path.exists(tab):
        return {}
    with open(tab) as fh:
        return json.load(fh)


class Facts:
    def __init__(self, path, canonicalize=True):
        with open(path) as fh:
            text = fh.read()
        self.raw = json.loads(text)
        self.renames = {}
        if canonicalize:
            self._init_from_raw()
            ren = self._rename_map()
            if ren:
                # a private function the rules know by name was renamed or moved: give it its pinned name back in the fact base
                for old, new in sorted(ren.items(), key=lambda kv: -len(kv[0])):
                    text = text.replace(json.dumps(old)[:-1], json.dumps(new)[:-1])
                self.raw = json.loads(text)
                for f in self.raw["fns"]:
                    if f["path"] in ren.values() and f.get("name"):
                        f["name"] = f["path"].split("::")[-1]
                self.renames = ren
        self._init_from_raw()

    def _rename_map(self):
        anchors = _load_anchors()
        if not anchors:
            return {}
        have = {f.path for f in self.fns}
        ren = {}
        taken = set()
        for name, wants in anchors.items():
            for want in wants:
                if want.get("path") in have:
                    continue
                cands = []
                for f in self.fns:
                    if f.kind == "Closure" or f.impl_trait or f.path in taken:
                        continue
                    # a function that still carries a pinned anchor name at its pinned path is not a candidate
                    if any(w.get("path") == f.path for ws in anchors.values() for w in ws):
                        continue
                    fp = self.fingerprint(f)
                    if fp["inputs"] == want["inputs"] and fp["output"] == want["output"] and fp["impl_self"] == want["impl_self"]:
                        a, b = set(fp["callees"]), set(want["callees"])
                        cands.append((len(a & b) / max(1, len(a | b)), f))
                cands.sort(key=lambda x: -x[0])
                if cands and (len(cands) == 1 or cands[0][0] > cands[1][0] + 0.1) and cands[0][0] >= 0.3:
                    ren[cands[0][1].path] = want["path"]
                    taken.add(cands[0][1].path)
        return ren

    def _init_from_raw(self):
        self.features = self.raw["features"]
        self.overflow_checks = self.raw["overflow_checks"]
        self.fns = [Fn(f) for f in self.raw["fns"]]
        self.by_path = {f.path: f for f in self.fns}
        self.adts = {a["path"]: a for a in self.raw["adts"]}
        self.impls = self.raw["impls"]
        self.consts = {c["path"]: c for c in self.raw["consts"]}
        from . import expr as _expr
        _expr.CONST_BODIES.clear()
        for c in self.raw["consts"]:
            if c.get("body"):
                _expr.CONST_BODIES[c["path"]] = c["body"]
        self.sigs = {s["path"]: s for s in self.raw["sigs"]}
        self._cg = None
        self.orig = self
        self.inlined_pairs = []

    def with_inlining(self):
        """view of the program in which unknown private helpers are inlined into their callers (E0); `.orig` is the original"""
        import copy
        from .inline import inline_unknown_helpers, desugar_combinators
        # (1) closure-taking combinators -> the match they abbreviate
        base = self
        des = {}
        for f in self.fns:
            g = desugar_combinators(self.by_path, f)
            if g is not None:
                des[f.path] = g
        if des:
            base = copy.copy(self)
            # a closure all of whose uses were spliced in is analysed where it was used
            spliced = set().union(*[g.desugared_closures for g in des.values()])
            still = set()
            from .inline import _closure_of
            for f in [des.get(f.path, f) for f in self.fns]:
                for _, t in f.calls():
                    if (t.get("callee") or "") in spliced:
                        continue
                    for a in t["args"]:
                        if a["k"] != "const" and not a["place"]["p"]:
                            c = _closure_of(f.raw, a["place"]["l"])
                            if c in spliced:
                                still.add(c)
            spliced -= still
            base.fns = [des.get(f.path, f) for f in self.fns if f.path not in spliced]
            base.by_path = {f.path: f for f in base.fns}
            base._cg = None
        base.desugared = sorted(des)
        # (2) unknown private helpers -> inlined into their callers
        repl, pairs = inline_unknown_helpers(base)
        v = copy.copy(base)
        self_fns = base.fns
        gone = {callee for _, callee in pairs}
        # a helper every call of which was inlined is analysed where it is called from; it stays visible only if something still calls it
        still_called = set()
        for f in [repl.get(f.path, f) for f in self_fns]:
            for _, t in f.calls():
                for tg in base.local_targets(t):
                    still_called.add(tg)
        gone = {g for g in gone if g not in still_called}
        # (closures written inside an inlined helper stay: the inlined body still builds and passes them around)
        v.fns = [repl.get(f.path, f) for f in self_fns if f.path not in gone]
        v.removed_helpers = sorted(gone)
        v.by_path = {f.path: f for f in v.fns}
        v._cg = None
        v.orig = self
        # result summaries: a crate function every return of which builds the same Result/Option variant (`fn unsupported_zip_error<T>(..)
        # -> ZipResult<T> { Err(..) }`) is known to return that variant at each call site (used by the path engine: `helper()?` then
        # takes the error edge instead of both)
        always = {}
        for f in v.fns:
            vs = set()
            for bi, b in enumerate(f.blocks):
                if b.get("cleanup"):
                    continue
                for s in b["stmts"]:
                    if s["k"] == "assign" and s["place"]["l"] == 0 and not s["place"]["p"]:
                        rv = s["rv"]
                        vs.add(rv.get("variant") if rv["k"] == "agg" and rv.get("ak") == "adt" and (rv.get("adt") or "").startswith(("std::result::Result", "std::option::Option")) else "?")
                t = b["term"]
                if t and t["k"] == "call" and t["dest"]["l"] == 0:
                    vs.add("?")
            if len(vs) == 1 and "?" not in vs:
                always[f.path] = vs.pop()
        for f in v.fns:
            for bi, t in f.calls():
                tg = t.get("resolved") or t.get("callee")
                if tg in always:
                    t["ret_variant"] = always[tg]
        v.inlined_pairs = pairs
        return v

    # ---- lookup
    def fn(self, path):
        return self.by_path.get(path)

    def find(self, regex):
        r = re.compile(regex)
        return [f for f in self.fns if r.search(f.path)]

    def fingerprint(self, f):
        sig = self.sigs.get(f.path, {})
        callees = sorted({re.sub(r"<[^<>]*>", "", re.sub(r"<[^<>]*>", "", t.get("callee") or "")).split("::")[-1]
                          for _, t in f.calls() if t.get("callee")} - {"branch", "from_residual", "deref", "deref_mut", "from", "into"})
        return dict(impl_self=re.sub(r"<.*", "", f.impl_self or ""), inputs=sig.get("inputs"), output=sig.get("output"), callees=callees,
                    module=f.path.split("::")[0].lstrip("<"), path=f.path)

    def resolve_renamed(self, regex):
        """a private function the rules know by name is gone: look for the unique function with the same type signature (and the most
        similar call profile) -- a rename or a move is not a reason to lose the anchor"""
        import json, os
        tab = os.path.join(os.path.dirname(os.path.dirname(os.path.abspath(__file__))), "tables", "anchors.json")
        if not os.path.exists(tab):
            return None
        with open(tab) as fh:
            anchors = json.load(fh)
        names = [n for n in re.findall(r"[A-Za-z_][A-Za-z0-9_]*", regex) if n in anchors]
        if not names:
            return None
        name = max(names, key=len)
        best = None
        for want in anchors[name]:
            cands = []
            for f in self.fns:
                if f.kind == "Closure" or f.impl_trait:
                    continue
                fp = self.fingerprint(f)
                if fp["inputs"] == want["inputs"] and fp["output"] == want["output"] and fp["impl_self"] == want["impl_self"]:
                    a, b = set(fp["callees"]), set(want["callees"])
                    sim = len(a & b) / max(1, len(a | b))
                    # must not be another known anchor that still exists under its own name
                    if f.name in anchors and f.name != name:
                        continue
                    cands.append((sim, f))
            cands.sort(key=lambda x: -x[0])
            if cands and (len(cands) == 1 or cands[0][0] > cands[1][0] + 0.15) and cands[0][0] >= 0.34:
                best = cands[0][1]
        return best

    def one(self, regex):
        fs = self.find(regex)
        if len(fs) == 0:
            alt = self.resolve_renamed(regex)
            if alt is not None:
                self.renamed = getattr(self, "renamed", {})
                self.renamed[regex] = alt.path
                return alt
        if len(fs) != 1:
            raise AnchorLost("expected exactly one function matching /%s/, found %d: %s" % (regex, len(fs), [f.path for f in fs][:6]))
        return fs[0]

    def method(self, self_ty_re, name, trait_re=None):
        """find the method `name` in an impl whose self type matches self_ty_re (and trait matches trait_re / inherent if None)"""
        out = []
        for f in self.fns:
            if f.name != name or f.kind != "AssocFn":
                continue
            if not f.impl_self or not re.search(self_ty_re, f.impl_self):
                continue
            if trait_re is None:
                if f.impl_trait is not None:
                    continue
            elif trait_re != "*":
                if not f.impl_trait or not re.search(trait_re, f.impl_trait):
                    continue
            out.append(f)
        if len(out) != 1:
            raise AnchorLost("expected exactly one method %s on /%s/ (trait %s), found %d" % (name, self_ty_re, trait_re, len(out)))
        return out[0]

    def methods(self, self_ty_re, trait_re="*"):
        out = []
        for f in self.fns:
            if f.kind != "AssocFn" or not f.impl_self or not re.search(self_ty_re, f.impl_self):
                continue
            if trait_re is None and f.impl_trait is not None:
                continue
            if trait_re not in (None, "*") and not (f.impl_trait and re.search(trait_re, f.impl_trait)):
                continue
            out.append(f)
        return out

    def trait_impl_fns(self, trait_re, name):
        return [f for f in self.fns if f.name == name and f.impl_trait and re.search(trait_re, f.impl_trait)]

    def closures_of(self, f):
        """closures written in f -- or in a helper that was inlined into f (the inlined body builds and calls them)"""
        owners = {f.path}
        pairs = getattr(self, "inlined_pairs", None) or []
        grew = True
        while grew:
            grew = False
            for caller, callee in pairs:
                if caller in owners and callee not in owners:
                    owners.add(callee)
                    grew = True
        src = self.orig.fns if getattr(self, "orig", None) is not None else self.fns
        seen = {}
        for g in list(self.fns) + list(src):
            if g.kind == "Closure" and any(g.path.startswith(o + "::{closure") for o in owners):
                seen.setdefault(g.path, g)
        return list(seen.values())

    # ---- call graph over crate-local functions
    def callgraph(self):
        if self._cg is not None:
            return self._cg
        cg = defaultdict(set)
        for f in self.fns:
            for bi, t in f.calls():
                for tgt in self.local_targets(t):
                    cg[f.path].add(tgt)
            # closures constructed in f are considered called by f
            for bi, si, s in f.stmts():
                if s["k"] == "assign" and s["rv"]["k"] == "agg" and s["rv"].get("ak") == "closure":
                    if s["rv"]["closure"] in self.by_path:
                        cg[f.path].add(s["rv"]["closure"])
        self._cg = cg
        return cg

    def local_targets(self, t):
        """crate-local function paths a call terminator may invoke (resolved instance, or CHA over local impls
        for unresolved trait-method calls)"""
        res = t.get("resolved")
        if res and res in self.by_path:
            return [res]
        cal = t.get("callee")
        if cal and cal in self.by_path:
            return [cal]
        out = []
        if t.get("trait") and cal and (not res or res == cal):
            # unresolved trait method: every local impl of that trait with that method name
            mname = cal.rsplit("::", 1)[-1]
            for f in self.fns:
                if f.name == mname and f.impl_trait == t["trait"]:
                    out.append(f.path)
        return out

    def reachable_from(self, roots):
        cg = self.callgraph()
        seen = set()
        parent = {}
        dq = deque()
        for r in roots:
            if r not in seen:
                seen.add(r)
                parent[r] = None
                dq.append(r)
        while dq:
            x = dq.popleft()
            for y in sorted(cg.get(x, ())):
                if y not in seen:
                    seen.add(y)
                    parent[y] = x
                    dq.append(y)
        return seen, parent

    def chain(self, parent, x):
        out = []
        while x is not None:
            out.append(x)
            x = parent.get(x)
        return list(reversed(out))


class AnchorLost(Exception):
    """a rule could not find the construct it is anchored on: fail closed"""
    pass
