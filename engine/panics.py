"""E3: panic-capable site inventory with discharge (DESIGN.md §2.3)."""
import re
from .mir import callee_matches
from .expr import Ex, norm, show, walk, canon
from .intervals import Intervals, ty_range, bits_of, dominating_facts, TOP, argtys_of

# callees that panic by contract (regex on declared callee / resolved instance)
PANIC_CALLS = [
    (r"^core::panicking::", "panic"),
    (r"^std::rt::begin_panic", "panic"),
    (r"^std::rt::panic_fmt", "panic"),
    (r"^std::option::Option::<T>::(unwrap|expect)$", "unwrap"),
    (r"^std::result::Result::<T, E>::(unwrap|expect|unwrap_err|expect_err)$", "unwrap"),
    (r"^std::ops::Index::index$", "index"),
    (r"^std::ops::IndexMut::index_mut$", "index"),
    (r"copy_from_slice$|clone_from_slice$", "slicelen"),
    (r"::split_at(_mut)?$", "index"),
    (r"GenericArray::<T, N>::(from_slice|from_mut_slice|clone_from_slice)$", "slicelen"),
    (r"^std::vec::Vec::<T, A>::(remove|insert|swap_remove|drain|split_off)$", "index"),
    (r"^std::string::String::(remove|insert|insert_str|drain|split_off)$", "index"),
    (r"^std::cell::RefCell::<T>::(borrow|borrow_mut)$", "borrow"),
    (r"^std::char::from_digit$", "index"),
    (r"^core::slice::<impl \[T\]>::(chunks|chunks_exact|windows|rotate_left|rotate_right|swap)$", "index"),
    (r"^std::iter::Iterator::step_by$", "index"),
    (r"^core::str::<impl str>::(split_at|split_at_mut)$", "index"),
    (r"^std::time::", "time"),
    (r"^std::sync::(Mutex|RwLock)", "poison"),
    (r"^std::thread::", "panic"),
    (r"^std::process::(abort|exit)$", "abort"),
]
_PC = [(re.compile(p), k) for p, k in PANIC_CALLS]

IGNORED_ASSERTS = ("MisalignedPointer", "NullPointer", "InvalidEnum", "Other")


def _walk_d(e, d, maxd):
    yield e
    if d >= maxd:
        return
    k = e[0]
    subs = []
    if k in ("field", "variant", "discr", "len", "cast", "ok", "err", "errprop", "residual", "subslice", "repeat"):
        subs = [e[1]]
    elif k == "un":
        subs = [e[2]]
    elif k == "index":
        subs = [e[1], e[2]]
    elif k == "bin":
        subs = [e[2], e[3]]
    elif k == "call":
        subs = list(e[2])
    elif k == "agg":
        subs = [a for _, a in e[3]]
    elif k == "phi":
        subs = list(e[1])
    for s_ in subs:
        # transparent wrappers do not count as depth
        nd = d if k in ("field", "variant", "cast", "ok", "phi", "agg") else d + 1
        yield from _walk_d(s_, nd, maxd)


def leaf_sig(e, maxd=3):
    """order-insensitive signature of an expression: its leaves (fields, args, named consts, literals, callee short names)
    down to a bounded depth. Used in site keys so that a key survives behaviour-preserving restructuring but changes
    when an operand changes."""
    toks = set()
    lits = set()
    for x in _walk_d(e, 0, maxd):
        k = x[0]
        if k == "field":
            toks.add("." + str(x[2]))
        elif k == "arg":
            toks.add(str(x[2] or "arg%d" % x[1]))
        elif k == "named":
            if isinstance(x[2], int):
                lits.add(str(x[2]))
            else:
                toks.add(x[1].split("::")[-1])
        elif k == "const" and isinstance(x[2], int):
            lits.add(str(x[2]))
        elif k == "call":
            nm = re.sub(r"<[^<>]*>", "", x[1])
            nm = re.sub(r"<[^<>]*>", "", nm)
            toks.add(nm.split("::")[-1] + "()")
        elif k == "bin":
            toks.add(x[1].replace("WithOverflow", ""))
        elif k == "str":
            pass
    if len(lits) <= 6:
        toks |= lits
    return ",".join(sorted(toks))


class Site:
    def __init__(self, fn, bb, kind, detail, where, term, ops=None, recv=None, expn=None):
        self.fn = fn
        self.bb = bb
        self.kind = kind          # e.g. Overflow(Add), BoundsCheck, unwrap, panic, index ...
        self.detail = detail      # leaf signature
        self.where = where
        self.term = term
        self.ops = ops or []      # normed operand expressions
        self.recv = recv
        self.expn = expn
        self.key = None
        self.text = ""

    def __repr__(self):
        return "<%s %s %s>" % (self.fn.path, self.kind, self.detail)


def enumerate_sites(facts, fn):
    """all panic-capable sites of one MIR body"""
    ex = Ex(fn)
    sites = []
    for bi, b in enumerate(fn.blocks):
        if b["cleanup"]:
            continue
        t = b["term"]
        if not t:
            continue
        if t["k"] == "assert":
            if t["akind"] in IGNORED_ASSERTS:
                continue
            ops = [norm(ex.operand(o, (bi, None))) for o in t["ops"]]
            detail = " ; ".join(leaf_sig(o) for o in ops)
            s = Site(fn, bi, t["akind"], detail, t["span"], t, ops=ops, expn=t.get("expn"))
            s.text = "%s on (%s)" % (t["akind"], ", ".join(show(o) for o in ops))
            sites.append(s)
        elif t["k"] == "call":
            names = [t.get("callee") or "", t.get("resolved") or ""]
            kind = None
            for r, k in _PC:
                if any(r.search(n) for n in names):
                    kind = k
                    break
            if kind is None:
                continue
            # `unwrap_or*`, `expect` spelled methods that cannot panic are not in the list above by construction
            args = [norm(ex.operand(a, (bi, None))) for a in t["args"]]
            callee_short = re.sub(r"<[^<>]*>", "", re.sub(r"<[^<>]*>", "", t["callee"] or "")).split("::")[-1]
            mac = (t.get("expn") or [None])[-1] if t.get("expn") else None
            if kind == "panic":
                # name the macro (panic!, assert!, assert_eq!, unreachable!, ...)
                mname = None
                for m in (t.get("expn") or []):
                    if m in ("panic", "assert", "assert_eq", "assert_ne", "unreachable", "unimplemented", "todo",
                             "debug_assert", "debug_assert_eq"):
                        mname = m
                detail = mname or callee_short
                txt = "%s!" % mname if mname else callee_short
                msg = [a for a in args for x in walk(a) if x[0] == "str"]
                strs = [x[1] for a in args for x in walk(a) if x[0] == "str"]
                s = Site(fn, bi, "panic", detail, t["span"], t, ops=args, expn=t.get("expn"))
                s.text = "%s %s" % (txt, strs[:1])
            elif kind == "unwrap":
                recv_ty = fn.locals[t["args"][0]["place"]["l"]]["ty"] if t["args"] and t["args"][0]["k"] != "const" else "?"
                detail = "%s:%s" % (callee_short, leaf_sig(args[0]) if args else "")
                s = Site(fn, bi, "unwrap", detail, t["span"], t, ops=args, recv=recv_ty, expn=t.get("expn"))
                s.text = "%s on %s : %s" % (callee_short, show(args[0]) if args else "?", recv_ty)
            else:
                detail = "%s:%s" % (callee_short, " ; ".join(leaf_sig(a) for a in args))
                s = Site(fn, bi, kind, detail, t["span"], t, ops=args, expn=t.get("expn"))
                s.text = "%s(%s)" % (callee_short, ", ".join(show(a) for a in args))
            sites.append(s)
    # keys: fn | kind | detail (+ ordinal among equal ones)
    seen = {}
    for s in sites:
        base = "%s|%s|%s" % (short_fn(fn.path), s.kind, s.detail)
        base = re.sub(r"\s+", "", base)
        n = seen.get(base, 0)
        seen[base] = n + 1
        s.key = base if n == 0 else "%s#%d" % (base, n + 1)
    return sites


def short_fn(path):
    p = path
    p = p.replace("read::zip_archive::", "").replace("write::zip_writer::", "")
    return p


def const_return_summaries(facts):
    """crate-local functions whose every return is an integer constant -> callee regex -> (lo, hi)"""
    out = {}
    for f in list(facts.fns) + list(facts.fns):
        if f.kind == "Closure":
            continue
        ex = Ex(f)
        vals = []
        okf = True
        allconst = True
        for b in f.exits():
            e = norm(ex.local(0, (b, None)))
            iv = Intervals()
            parts = e[1] if e[0] == "phi" else (e,)
            for p in parts:
                if p[0] in ("const", "named") and isinstance(p[2], int):
                    vals.append(p[2])
                elif p[0] == "bin" or p[0] == "cast":
                    allconst = False
                    r = Intervals(out).range_of(p, f.locals[0]["ty"])
                    if r == TOP or r == ty_range(f.locals[0]["ty"]):
                        okf = False
                    else:
                        vals.extend(r)
                else:
                    okf = False
        if okf and vals and f.locals[0]["ty"] in ("usize", "u8", "u16", "u32", "u64", "i32", "i64"):
            out["^" + re.escape(f.path) + "$"] = (min(vals), max(vals))
            if allconst and len(set(vals)) <= 8:
                # every return is a literal: the finite value set supports a case split (key_length in {16, 24, 32})
                out["set:^" + re.escape(f.path) + "$"] = tuple(sorted(set(vals)))
        # Ok payload of functions returning Result<integer, _>
        m = re.match(r"^std::result::Result<(u8|u16|u32|u64|usize), ", f.locals[0]["ty"])
        if m:
            rs = []
            good = True
            for b in f.exits():
                e = norm(ex.local(0, (b, None)))
                for p in (e[1] if e[0] == "phi" else (e,)):
                    if p[0] == "agg" and p[1] == "adt:Ok":
                        r = Intervals(out).range_of(p[3][0][1], m.group(1))
                        if r == ty_range(m.group(1)):
                            good = False
                        rs.append(r)
                    elif p[0] in ("errprop",) or (p[0] == "agg" and p[1] == "adt:Err"):
                        continue
                    else:
                        good = False
            if good and rs:
                out["ok:^" + re.escape(f.path) + "$"] = (min(r[0] for r in rs), max(r[1] for r in rs))
    # second pass lets summaries use each other (salt_length uses key_length)
    return out


def subst(e, m):
    """replace every sub-expression whose canonical form is a key of m"""
    k = e[0]
    if k == "call":
        ce = canon(e)
        if ce in m:
            return m[ce]
        return ("call", e[1], tuple(subst(a, m) for a in e[2])) + e[3:]
    if k in ("field", "variant"):
        return (k, subst(e[1], m), e[2])
    if k in ("discr", "len", "ok", "err", "errprop", "residual"):
        return (k, subst(e[1], m))
    if k == "cast":
        return ("cast", subst(e[1], m)) + e[2:]
    if k == "un":
        return ("un", e[1], subst(e[2], m))
    if k == "bin":
        return ("bin", e[1], subst(e[2], m), subst(e[3], m))
    if k == "index":
        return ("index", subst(e[1], m), subst(e[2], m))
    if k == "subslice":
        return ("subslice", subst(e[1], m)) + e[2:]
    if k == "agg":
        return ("agg", e[1], e[2], tuple((f, subst(a, m)) for f, a in e[3]))
    if k == "phi":
        return ("phi", tuple(subst(a, m) for a in e[1]))
    if k == "repeat":
        return ("repeat", subst(e[1], m), e[2])
    return e


def finite_calls(exprs, summaries):
    """{canon(call): (values...)} for calls to crate functions whose every return is one of a few literals and whose arguments are
    plain places (pure accessors of a mode/enum)"""
    out = {}
    sets = {p[4:]: v for p, v in summaries.items() if p.startswith("set:")}
    for e in exprs:
        for x in walk(e):
            if x[0] == "call":
                for pat, vals in sets.items():
                    if re.search(pat, x[1]) or re.search(pat, x[3] or ""):
                        if all(a[0] in ("arg", "field", "local") or (a[0] == "field") for a in x[2]):
                            out[canon(x)] = vals
    return out


def discharge(facts, site, summaries):
    """-> (class, reason); tries the direct argument first, then a case split over finite-valued pure calls in the operands"""
    cls, why = discharge1(facts, site, summaries)
    if cls or not site.ops:
        return cls, why
    fc = finite_calls(site.ops, summaries)
    if not fc or len(fc) > 2:
        return cls, why
    import itertools
    keys = sorted(fc, key=repr)
    combos = list(itertools.product(*[fc[k_] for k_ in keys]))
    if len(combos) > 64:
        return cls, why
    saved = site.ops
    try:
        for combo in combos:
            m = {k_: ("const", "usize", v) for k_, v in zip(keys, combo)}
            site.ops = [subst(o, m) for o in saved]
            c1, _ = discharge1(facts, site, summaries)
            if not c1:
                return None, ""
    finally:
        site.ops = saved
    return "case-split", "holds for each value of %s" % ", ".join("%s in %s" % (show(k_), list(fc[k_])) for k_ in keys)


def slice_len(e):
    """symbolic length of a slice-valued expression (None if unknown)"""
    while True:
        if e[0] == "call" and re.search(r"Deref(Mut)?::deref(_mut)?$|AsRef<.*>::as_ref$|AsMut<.*>::as_mut$|::as_slice$|::as_mut_slice$|Borrow(Mut)?::borrow(_mut)?$", e[1]) and e[2]:
            e = e[2][0]
            continue
        if e[0] == "cast":
            e = e[1]
            continue
        break
    if e[0] == "repeat":
        try:
            return ("const", "usize", int(str(e[2]).split("_")[0]))
        except ValueError:
            return None
    if e[0] == "call" and re.search(r"vec::from_elem$", e[1]) and len(e[2]) == 2:
        return e[2][1]
    if e[0] == "field" and e[1][0] == "call" and re.search(r"::split_at(_mut)?$", e[1][1]) and len(e[1][2]) == 2:
        base, mid = e[1][2]
        if e[2] == "0":
            return mid
        bl = slice_len(base)
        if e[2] == "1" and bl is not None:
            return ("bin", "Sub", bl, mid)
    return None


def slice_span(e):
    """(root, offset expr, length expr) of a slice carved out of a buffer by ranges / split_at; None if the shape is unknown"""
    Z = ("const", "usize", 0)
    add = lambda a, b: b if a == Z else a if b == Z else ("bin", "Add", a, b)
    sub = lambda a, b: a if b == Z else ("bin", "Sub", a, b)
    while True:
        if e[0] == "call" and re.search(r"Deref(Mut)?::deref(_mut)?$|AsRef<.*>::as_ref$|AsMut<.*>::as_mut$|::as_slice$|::as_mut_slice$|Borrow(Mut)?::borrow(_mut)?$", e[1]) and e[2]:
            e = e[2][0]
            continue
        if e[0] == "cast":
            e = e[1]
            continue
        break
    if e[0] == "call" and re.search(r"Index(Mut)?::index(_mut)?$", e[1]) and len(e[2]) == 2 and e[2][1][0] == "agg" and e[2][1][1].startswith("adt:Range"):
        inner = slice_span(e[2][0])
        if inner is None:
            return None
        root, off, ln = inner
        d = dict(e[2][1][3])
        kind = e[2][1][1]
        if kind == "adt:RangeFull":
            return inner
        start, end = d.get("start", Z), d.get("end")
        if kind == "adt:RangeInclusive" or kind == "adt:RangeToInclusive":
            return None
        if end is None:
            return (root, add(off, start), sub(ln, start))
        return (root, add(off, start), sub(end, start))
    if e[0] == "field" and e[1][0] == "call" and re.search(r"::split_at(_mut)?$", e[1][1]) and len(e[1][2]) == 2:
        inner = slice_span(e[1][2][0])
        if inner is None:
            return None
        root, off, ln = inner
        mid = e[1][2][1]
        if e[2] == "0":
            return (root, off, mid)
        if e[2] == "1":
            return (root, add(off, mid), sub(ln, mid))
        return None
    sl = slice_len(e)
    if sl is None:
        return None
    return (e, Z, sl)


def _is_len_of(a, base):
    a = _strip_casts(a)
    return (a[0] == "call" and re.search(r"::len$", a[1]) and a[2] and canon(a[2][0]) == canon(base)) or (a[0] == "len" and canon(a[1]) == canon(base))


def discharge1(facts, site, summaries):
    """-> (class, reason) with class in interval | guard | None"""
    fn = site.fn
    t = site.term
    ex = Ex(fn)
    gfacts = [f for f in dominating_facts(fn, ex, site.bb) if f[0] != "truth"]
    iv = Intervals(summaries, gfacts, argtys_of(fn))
    iv0 = Intervals(summaries, [], argtys_of(fn))

    def opty(i):
        o = t["ops"][i]
        if o["k"] == "const":
            return o["ty"]
        return o["place"]["ty"]

    k = site.kind
    if k.startswith("Overflow("):
        op = k[len("Overflow("):-1]
        ty = opty(0)
        for ivx, cls in ((iv0, "interval"), (iv, "guard")):
            a = ivx.range_of(site.ops[0], ty)
            if op in ("Shl", "Shr"):
                bty = opty(1)
                b = ivx.range_of(site.ops[1], bty)
                nb = bits_of(ty)
                if nb and 0 <= b[0] and b[1] < nb:
                    return cls, "shift amount in [%d,%d] < %d bits" % (b[0], b[1], nb)
                continue
            b = ivx.range_of(site.ops[1], ty)
            r = ivx._binop(op, a, b, ty)
            tlo, thi = ty_range(ty)
            if r is not None and tlo <= r[0] and r[1] <= thi and (tlo, thi) != TOP:
                return cls, "%s of [%d,%d] and [%d,%d] stays within %s" % (op, a[0], a[1], b[0], b[1], ty)
        # writer side: sink offset + bounded value (offsets reported by the caller's own Seek are < 2^63)
        if op == "Add" and re.match(r"^<?write::", fn.path):
            a_, b_ = site.ops[0], site.ops[1]
            ra, rb = iv.range_of(a_, ty), iv.range_of(b_, ty)
            if (_is_offset(a_) and (rb[1] <= 1 << 40 or _is_offset(b_))) or (_is_offset(b_) and ra[1] <= 1 << 40):
                return "offset", "sink offset plus a bounded value (file offsets are < 2^63: SeekFrom is i64 based)"
        # relational guard: a - b with a >= b established on the taken edge
        if op == "Sub":
            if _implies_ge(gfacts, site.ops[0], site.ops[1], iv, ty):
                return "guard", "dominating comparison establishes lhs >= rhs"
        return None, ""
    if k == "OverflowNeg":
        ty = opty(0)
        a = iv.range_of(site.ops[0], ty)
        if a[0] > ty_range(ty)[0]:
            return "interval", "operand in [%d,%d] cannot be %s::MIN" % (a[0], a[1], ty)
        return None, ""
    if k in ("DivisionByZero", "RemainderByZero"):
        ty = opty(0)
        cond = norm(ex.operand(t["cond"], (site.bb, None)))
        # cond is `Eq(divisor, 0)` expected false; the assert's own operand is the dividend
        if not (cond[0] == "bin" and cond[1] == "Eq"):
            return None, ""
        divisor = cond[2]
        for ivx, cls in ((iv0, "interval"), (iv, "guard")):
            a = ivx.range_of(divisor, ty)
            if a[0] > 0 or a[1] < 0:
                return cls, "divisor in [%d,%d] excludes zero" % a
        return None, ""
    if k == "BoundsCheck":
        ln = iv.range_of(site.ops[0], "usize")
        ix = iv.range_of(site.ops[1], "usize")
        if ix[1] < ln[0]:
            return "interval", "index in [%d,%d] below length >= %d" % (ix[0], ix[1], ln[0])
        for ivx in (iv,):
            if _implies_lt(gfacts, site.ops[1], site.ops[0]):
                return "guard", "dominating comparison establishes index < len"
        return None, ""
    if k == "index" and callee_matches(t, r"ops::Index(Mut)?::index(_mut)?$") and len(site.ops) == 2:
        return _discharge_index(site.ops[0], site.ops[1], iv)
    if k == "index" and callee_matches(t, r"::split_at(_mut)?$") and len(site.ops) == 2:
        base, mid = site.ops
        m = _strip_casts(mid)
        if m[0] == "call" and re.search(r"::min$", m[1]) and len(m[2]) == 2 and any(_is_len_of(a, base) for a in m[2]):
            return "interval", "split point is min(_, len(slice))"
        sl = slice_len(base)
        if sl is not None:
            rm, rl = iv.range_of(mid, "usize"), iv.range_of(sl, "usize")
            if rm[1] <= rl[0]:
                return "interval", "split point <= %d <= slice length (>= %d)" % (rm[1], rl[0])
        return None, ""
    if k == "unwrap" and site.ops and site.ops[0][0] == "call" and re.search(r"(Mac|KeyInit)::new_from_slice$", site.ops[0][1]) and \
            re.search(r"hmac::HmacCore<", site.recv or ""):
        return "contract", "HMAC accepts keys of any length: Hmac::new_from_slice never returns Err (hmac 0.12 KeyInit for HmacCore)"
    return None, ""


def _strip_casts(e):
    while e[0] == "cast":
        e = e[1]
    return e


def _subslice_of(b, base):
    """is expression b the slice `base` itself or a range-indexed view of it?"""
    if b == base:
        return True
    if b[0] == "call" and re.search(r"ops::Index(Mut)?::index(_mut)?$", b[1]) and b[2]:
        return _subslice_of(b[2][0], base)
    return False


def _discharge_index(base, rng, iv):
    start = end = None
    if rng[0] == "agg" and rng[1].startswith("adt:Range"):
        d = dict(rng[3])
        start, end = d.get("start"), d.get("end")
        if rng[1] == "adt:RangeFull":
            return "interval", "full range"
    else:
        return None, ""
    if start is not None:
        rs = iv.range_of(start, "usize")
        if end is None:
            # RangeFrom: needs start <= len
            sl = slice_len(base)
            if sl is not None and rs[1] <= iv.range_of(sl, "usize")[0]:
                return "interval", "start <= %d <= slice length" % rs[1]
            return None, ""
        if not (rs[1] == 0):
            re_ = iv.range_of(end, "usize")
            if rs[1] > re_[0]:
                return None, ""
    if end is None:
        return None, ""
    e = _strip_casts(end)
    # (1) I/O contract: end is the count returned by Read::read / Write::write on this very buffer (or a sub-slice of it)
    if e[0] == "ok" and e[1][0] == "call" and re.search(r"io::(Read::read|Write::write)$", e[1][1]) and len(e[1][2]) == 2:
        if _subslice_of(e[1][2][1], base):
            return "contract", "end bound is the count returned by %s on this buffer: n <= buf.len() by the Read/Write contract" % e[1][1].split("::")[-1]
    # (2) end = min(.., len(base))
    if e[0] == "call" and re.search(r"::min$", e[1]) and len(e[2]) == 2:
        for a in e[2]:
            a = _strip_casts(a)
            if (a[0] == "call" and re.search(r"::len$", a[1]) and a[2] and a[2][0] == base) or (a[0] == "len" and a[1] == base):
                return "interval", "end bound is min(_, len(buffer))"
    # (3) fixed-length base
    ln = None
    if base[0] == "repeat":
        try:
            ln = int(str(base[2]).split("_")[0])
        except ValueError:
            ln = None
    if base[0] == "call" and re.search(r"vec::from_elem$", base[1]) and len(base[2]) == 2:
        ln = iv.range_of(base[2][1], "usize")[0]
    if ln is not None:
        re_ = iv.range_of(end, "usize")
        if re_[1] <= ln:
            return "interval", "end bound <= %d <= fixed length %d" % (re_[1], ln)
    return None, ""


OFFSET_FIELDS = ("header_start", "data_start", "central_header_start", "start")


def _is_offset(e):
    while e[0] == "cast":
        e = e[1]
    if e[0] == "field" and e[2] in OFFSET_FIELDS:
        return True
    if e[0] == "ok" and e[1][0] == "call" and re.search(r"Seek::(stream_position|seek)$", e[1][1]):
        return True
    if e[0] == "call" and re.search(r"AtomicU64::(get_mut|load)$", e[1]):
        return True
    if e[0] == "bin" and e[1] in ("Add", "Sub"):
        return _is_offset(e[2]) or _is_offset(e[3])
    if e[0] == "phi":
        return all(_is_offset(a) for a in e[1])
    return False


def _implies_ge(gfacts, a, b, iv, ty):
    for (op, x, y) in gfacts:
        if x == a and y == b and op in ("Ge", "Gt", "Eq"):
            return True
        if x == b and y == a and op in ("Le", "Lt", "Eq"):
            return True
    # a >= c (fact) and b <= c (interval)
    ra = iv.range_of(a, ty)
    rb = iv.range_of(b, ty)
    if ra[0] >= rb[1] and ra != TOP and rb != TOP:
        return True
    return False


def _implies_lt(gfacts, a, b):
    for (op, x, y) in gfacts:
        if x == a and y == b and op == "Lt":
            return True
        if x == b and y == a and op == "Gt":
            return True
    return False


def entry_reach(facts, root_pred):
    roots = [f.path for f in facts.fns if root_pred(f)]
    seen, parent = facts.reachable_from(roots)
    return roots, seen, parent
