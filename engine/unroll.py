"""E0 (e): iterator pipelines over a *literal array* are the straight-line code they abbreviate.

    let c = [a, b, c];
    let n: u16 = c.iter().map(|v| if p(v) { 8 } else { 0 }).sum();       ==>   n = 0 + f(&c[0]) + f(&c[1]) + f(&c[2])
    for v in c.iter().filter(|v| p(v)) { body }                           ==>   if p(&&c[0]) { v = &c[0]; body }  if p(&&c[1]) { .. } ..

The array has a statically known length and its elements are the operands of one aggregate statement, so the pipeline is unrolled:
every adaptor closure (written in this crate) is spliced in once per element, a `sum` becomes a chain of additions, a `for` loop
becomes N copies of its body in sequence.  After that the rules that read order, dominance and decision tables see the same
program as for the hand-written `if` ladder.  Supported: source `.iter()` / `into_iter()` on the array or a reference to it;
adaptors `map`, `filter`, `copied`, `cloned`, `rev`; consumers `sum`, `for`.  Anything else is left alone (and stays opaque)."""
import copy
import re

from .inline import _inline_call, _closure_of

SRC_ITER = re.compile(r"slice::<impl \[T\]>::iter$|slice::iter$")
INTO_ITER = re.compile(r"iter::(traits::collect::)?IntoIterator::into_iter$")
ADAPT = re.compile(r"iter::(traits::iterator::)?Iterator::(map|filter|copied|cloned|rev)$")
SUM = re.compile(r"iter::(traits::iterator::)?Iterator::(sum|count)$")
NEXT = re.compile(r"iter::(traits::iterator::)?Iterator::next$")
MAX_N = 8


def _single_defs(raw):
    """local -> list of ('s', bi, si, stmt) / ('c', bi, term) definitions of the whole local"""
    d = {}
    for bi, b in enumerate(raw["blocks"]):
        if b.get("cleanup"):
            continue
        for si, s in enumerate(b["stmts"]):
            if s["k"] == "assign" and not s["place"]["p"]:
                d.setdefault(s["place"]["l"], []).append(("s", bi, si, s))
        t = b["term"]
        if t and t["k"] == "call" and not t["dest"]["p"]:
            d.setdefault(t["dest"]["l"], []).append(("c", bi, t))
    return d


def _plain_local(op):
    return op["place"]["l"] if op["k"] != "const" and not op["place"]["p"] else None


def _array_behind(raw, defs, op, at=None):
    """operand -> (array local, [element operands], by_ref) if it denotes a literal array / a reference to one (also when the
    reference travelled through a closure capture or a few copies: the expression engine resolves it)"""
    l = _plain_local(op)
    by_ref = False
    for _ in range(6):
        if l is None:
            break
        ds = defs.get(l, [])
        if len(ds) != 1 or ds[0][0] != "s":
            break
        rv = ds[0][3]["rv"]
        if rv["k"] == "agg" and rv.get("ak") == "array":
            if not (1 <= len(rv["ops"]) <= MAX_N):
                return None
            return l, rv["ops"], by_ref
        if rv["k"] == "cast" and (rv["ck"].startswith("PointerCoercion") or rv["ck"] in ("PtrToPtr",)):
            l = _plain_local(rv["op"])
            continue
        if rv["k"] == "ref" and not rv["place"]["p"]:
            by_ref = True
            l = rv["place"]["l"]
            continue
        if rv["k"] == "use":
            l = _plain_local(rv["op"])
            continue
        break
    if at is None:
        return None
    # general case: evaluate the operand; it must be (a reference to) the value of the one array aggregate of this body
    from .mir import Fn
    from .expr import Ex, norm
    try:
        g = Fn(raw)
        ex = Ex(g)
        v = norm(ex.operand(op, at))
    except Exception:      # noqa: BLE001
        return None
    if v[0] != "agg" or v[1] != "array":
        return None
    cands = []
    for l2, ds in defs.items():
        if len(ds) == 1 and ds[0][0] == "s" and ds[0][3]["rv"]["k"] == "agg" and ds[0][3]["rv"].get("ak") == "array":
            try:
                v2 = norm(ex.rvalue(ds[0][3]["rv"], (ds[0][1], ds[0][2])))
            except Exception:      # noqa: BLE001
                continue
            if v2 == v:
                cands.append((l2, ds[0][3]["rv"]["ops"]))
    if len(cands) != 1 or not (1 <= len(cands[0][1]) <= MAX_N):
        return None
    ty = (raw["locals"][_plain_local(op)].get("ty") if _plain_local(op) is not None else op.get("ty")) or ""
    return cands[0][0], cands[0][1], ty.startswith("&")


def _closure_behind(raw, local):
    """like inline._closure_of, through plain copies of the closure value (`filter(pred)` with `pred` a named closure)"""
    for _ in range(4):
        if local is None:
            return None
        c = _closure_of(raw, local)
        if c:
            return c
        ds = [s_ for blk in raw["blocks"] if not blk.get("cleanup") for s_ in blk["stmts"]
              if s_["k"] == "assign" and s_["place"]["l"] == local and not s_["place"]["p"]]
        if len(ds) != 1 or ds[0]["rv"]["k"] != "use":
            return None
        local = _plain_local(ds[0]["rv"]["op"])
    return None


def _user_of(raw, local):
    """the unique call terminator that takes `local` (whole, by move/copy) as an argument -> (bi, term, arg index)"""
    hits = []
    for bi, b in enumerate(raw["blocks"]):
        if b.get("cleanup"):
            continue
        t = b["term"]
        if t and t["k"] == "call":
            for ai, a in enumerate(t["args"]):
                if _plain_local(a) == local:
                    hits.append((bi, t, ai))
    return hits[0] if len(hits) == 1 else None


def _loop_of(raw, header):
    """natural loop of the back edges into `header` (block set), or None"""
    preds = {}
    for bi, b in enumerate(raw["blocks"]):
        if b.get("cleanup"):
            continue
        for s in _succ(b):
            preds.setdefault(s, []).append(bi)
    # blocks that can reach header without leaving through header: reverse reachability from back-edge sources
    # a back edge source: a pred of header that is reachable from header
    reach = set()
    work = [header]
    while work:
        x = work.pop()
        if x in reach:
            continue
        reach.add(x)
        b = raw["blocks"][x]
        if not b.get("cleanup"):
            work.extend(_succ(b))
    latches = [p for p in preds.get(header, []) if p in reach]
    if not latches:
        return None
    loop = {header}
    work = list(latches)
    while work:
        x = work.pop()
        if x in loop:
            continue
        loop.add(x)
        work.extend(preds.get(x, []))
    return loop


def _succ(b):
    t = b["term"]
    if not t:
        return []
    k = t["k"]
    if k == "goto":
        return [t["target"]]
    if k == "switch":
        return [bb for _, bb in t["targets"]] + [t["otherwise"]]
    if k in ("call", "assert", "drop"):
        return [t["target"]] if t.get("target") is not None else []
    return []


def _remap(node, m):
    if isinstance(node, list):
        return [_remap(x, m) for x in node]
    if not isinstance(node, dict):
        return node
    out = {}
    for k, v in node.items():
        if k in ("target", "otherwise") and isinstance(v, int):
            out[k] = m.get(v, v)
        elif k == "targets" and isinstance(v, list):
            out[k] = [[val, m.get(bb, bb)] for val, bb in v]
        else:
            out[k] = _remap(v, m)
    return out


def unroll_array_iterators(fns_by_path, f, raw):
    """-> (raw or None, set of closure paths spliced in)"""
    used = set()
    for _round in range(4):
        cur = raw if raw is not None else f.raw
        plan = _find(fns_by_path, f, cur)
        if plan is None:
            break
        if raw is None:
            raw = copy.deepcopy(f.raw)
            plan = _find(fns_by_path, f, raw)
            if plan is None:
                break
        snapshot = copy.deepcopy(raw)
        try:
            ok = _apply(raw, plan, used)
        except (KeyError, IndexError, TypeError):
            ok = False
        if not ok:
            raw.clear()
            raw.update(snapshot)
            # do not try this source again
            raw["blocks"][plan["src_bi"]]["term"]["callee"] += " "
    if raw is not None:
        for b in raw["blocks"]:
            if b["term"] and b["term"]["k"] == "call" and (b["term"].get("callee") or "").endswith(" "):
                b["term"]["callee"] = b["term"]["callee"].rstrip()
    return raw, used


def _find(fns_by_path, f, raw):
    defs = _single_defs(raw)
    for bi, b in enumerate(raw["blocks"]):
        t = b["term"]
        if b.get("cleanup") or not t or t["k"] != "call" or t.get("target") is None or len(t.get("args") or []) != 1:
            continue
        c = t.get("callee") or ""
        if not (SRC_ITER.search(c) or INTO_ITER.search(c)):
            continue
        src = _array_behind(raw, defs, t["args"][0], (bi, None))
        if src is None:
            continue
        arr, elems, by_ref = src
        if SRC_ITER.search(c):
            by_ref = True
        # the array must not be written again
        if len(defs.get(arr, [])) != 1:
            continue
        stages, calls = [], [bi]
        curl = _plain_local({"k": "move", "place": t["dest"]}) if not t["dest"]["p"] else None
        consumer = None
        for _ in range(8):
            if curl is None:
                break
            u = _user_of(raw, curl)
            if u is None:
                # `iter = move tmp` (the for-loop desugaring binds the iterator to a fresh local)
                mvs = [s_ for blk in raw["blocks"] if not blk.get("cleanup") for s_ in blk["stmts"]
                       if s_["k"] == "assign" and not s_["place"]["p"] and s_["rv"]["k"] == "use" and _plain_local(s_["rv"]["op"]) == curl]
                if len(mvs) == 1:
                    curl = mvs[0]["place"]["l"]
                    u = _user_of(raw, curl)
            if u is None:
                # a for loop: `&mut it` then next()
                refs = [(x, y, s) for x, blk in enumerate(raw["blocks"]) if not blk.get("cleanup") for y, s in enumerate(blk["stmts"])
                        if s["k"] == "assign" and s["rv"]["k"] == "ref" and s["rv"].get("mut") and not s["rv"]["place"]["p"] and s["rv"]["place"]["l"] == curl]
                if len(refs) >= 1:
                    hb = refs[0][0]
                    ht = raw["blocks"][hb]["term"]
                    if ht and ht["k"] == "call" and NEXT.search(ht.get("callee") or "") and all(r[0] == hb for r in refs):
                        consumer = ("for", hb)
                break
            ub, ut, ai = u
            uc = ut.get("callee") or ""
            m = ADAPT.search(uc)
            if m and ai == 0 and ut.get("target") is not None and not ut["dest"]["p"]:
                kind = m.group(2)
                if kind in ("map", "filter"):
                    cp = _closure_behind(raw, _plain_local(ut["args"][1]))
                    if cp is None:
                        # the closure value reached the adaptor through a capture / a dereference: ask the expression engine what it is
                        try:
                            from .mir import Fn
                            from .expr import Ex, norm
                            cv = norm(Ex(Fn(raw)).operand(ut["args"][1], (ub, None)))
                            if cv[0] == "agg" and cv[1] == "closure":
                                cp = cv[2]
                        except Exception:      # noqa: BLE001
                            cp = None
                    cf = fns_by_path.get(cp) if cp else None
                    if cf is None or len(cf.blocks) > 40 or cf.arg_count != 2:
                        break
                    stages.append((kind, ut["args"][1], cf))
                elif kind in ("copied", "cloned"):
                    stages.append(("deref",))
                else:
                    stages.append(("rev",))
                calls.append(ub)
                curl = ut["dest"]["l"]
                continue
            if INTO_ITER.search(uc) and ai == 0 and ut.get("target") is not None and not ut["dest"]["p"]:
                calls.append(ub)
                curl = ut["dest"]["l"]
                continue
            if SUM.search(uc) and ai == 0 and ut.get("target") is not None:
                consumer = ("sum", ub)
            break
        if consumer is None:
            continue
        return dict(src_bi=bi, arr=arr, n=len(elems), by_ref=by_ref, stages=stages, calls=calls, consumer=consumer)
    return None


def _apply(raw, plan, used):
    arr, n, by_ref, stages = plan["arr"], plan["n"], plan["by_ref"], plan["stages"]
    span = raw["blocks"][plan["src_bi"]]["term"]["span"]
    order = list(range(n))
    if sum(1 for s in stages if s[0] == "rev") % 2 == 1:
        order.reverse()
    stages = [s for s in stages if s[0] != "rev"]

    def new_local(ty, name=None):
        raw["locals"].append({"ty": ty, "name": name})
        return len(raw["locals"]) - 1

    def new_block():
        raw["blocks"].append({"stmts": [], "term": None, "cleanup": False})
        return len(raw["blocks"]) - 1

    L = lambda l, ty="?": {"l": l, "p": [], "ty": ty}
    mv = lambda l, ty="?": {"k": "move", "place": L(l, ty)}
    cp_ = lambda l, ty="?": {"k": "copy", "place": L(l, ty)}

    def asg(b_, place, rv):
        raw["blocks"][b_]["stmts"].append({"k": "assign", "place": place, "rv": rv, "span": span, "expn": None})

    def goto(b_, tgt):
        raw["blocks"][b_]["term"] = {"k": "goto", "target": tgt, "span": span, "expn": None}

    def call_closure(b_, cf, clo_op, arg_op, dest_l):
        nb = new_block()
        raw["blocks"][b_]["term"] = {"k": "call", "callee": cf.path, "resolved": cf.path, "resolved_local": True, "gargs": [], "trait": None, "self_ty": None,
                                     "args": [copy.deepcopy(clo_op), arg_op], "dest": L(dest_l), "target": nb, "unwind": None, "span": span, "fn_span": span, "expn": None}
        _inline_call(raw, b_, cf.raw)
        used.add(cf.path)
        return nb

    elem_place = lambda i: {"l": arr, "p": [{"k": "cidx", "o": i, "fe": False, "ml": n}], "ty": "?"}

    def emit_item(i, b_, skip):
        """code computing the i-th item of the pipeline starting in block b_; a filter that rejects it jumps to `skip`.
        -> (block in which the item is available, item local)"""
        if by_ref:
            loc = new_local("&?")
            asg(b_, L(loc), {"k": "ref", "mut": False, "place": elem_place(i)})
        else:
            loc = new_local("?")
            asg(b_, L(loc), {"k": "use", "op": {"k": "copy", "place": elem_place(i)}})
        for st in stages:
            if st[0] == "deref":
                nl = new_local("?")
                asg(b_, L(nl), {"k": "use", "op": {"k": "copy", "place": {"l": loc, "p": [{"k": "deref"}], "ty": "?"}}})
                loc = nl
            elif st[0] == "map":
                r = new_local(st[2].locals[0]["ty"])
                b_ = call_closure(b_, st[2], st[1], mv(loc), r)
                loc = r
            elif st[0] == "filter":
                rr = new_local("&?")
                asg(b_, L(rr), {"k": "ref", "mut": False, "place": L(loc)})
                r = new_local("bool")
                b_ = call_closure(b_, st[2], st[1], mv(rr), r)
                keep = new_block()
                raw["blocks"][b_]["term"] = {"k": "switch", "discr": mv(r, "bool"), "dty": "bool", "targets": [[0, skip]], "otherwise": keep, "span": span, "expn": None}
                b_ = keep
        return b_, loc

    kind, cb = plan["consumer"]
    # the adaptor calls (and the source call) disappear: each becomes a goto to its successor
    def drop_calls():
        for bi in plan["calls"]:
            t = raw["blocks"][bi]["term"]
            raw["blocks"][bi]["term"] = {"k": "goto", "target": t["target"], "span": t["span"], "expn": t.get("expn")}

    if kind == "sum":
        t = raw["blocks"][cb]["term"]
        dest, target = t["dest"], t["target"]
        counting = (t.get("callee") or "").rstrip().endswith("count")
        dty = dest.get("ty") or raw["locals"][dest["l"]].get("ty") or "?"
        if not re.match(r"^[ui](8|16|32|64|128|size)$", dty):
            return False
        drop_calls()
        acc = new_local(dty, "acc")
        asg(cb, L(acc, dty), {"k": "use", "op": {"k": "const", "ty": dty, "v": 0}})
        heads = [new_block() for _ in range(n + 1)]
        goto(cb, heads[0])
        for k_, i in enumerate(order):
            b_, loc = emit_item(i, heads[k_], heads[k_ + 1])
            addend = {"k": "const", "ty": dty, "v": 1} if counting else mv(loc, dty)
            asg(b_, L(acc, dty), {"k": "binop", "op": "Add", "a": cp_(acc, dty), "b": addend})
            goto(b_, heads[k_ + 1])
        asg(heads[n], dest, {"k": "use", "op": cp_(acc, dty)})
        goto(heads[n], target)
        return True

    if kind == "for":
        hb = cb
        ht = raw["blocks"][hb]["term"]
        nxt, h1 = ht["dest"], ht["target"]
        if nxt["p"] or h1 is None:
            return False
        loop = _loop_of(raw, hb)
        if loop is None or len(loop) > 60:
            return False
        # the block deciding Some/None right after next(): its None edge leaves the loop
        t1 = raw["blocks"][h1]["term"]
        if not t1 or t1["k"] != "switch":
            return False
        exits = [bb for _, bb in t1["targets"] if bb not in loop] + ([t1["otherwise"]] if t1["otherwise"] not in loop else [])
        exits = [e for e in exits if raw["blocks"][e]["term"] is None or raw["blocks"][e]["term"]["k"] != "unreachable"]
        if len(set(exits)) != 1:
            return False
        exit_b = exits[0]
        body = sorted(loop - {hb})
        drop_calls()
        heads = [new_block() for _ in range(n + 1)]
        # entry: whatever jumped to the loop header from outside now enters iteration 0
        for bi, b in enumerate(raw["blocks"]):
            if bi in loop or b.get("cleanup") or bi in heads:
                continue
            if b["term"]:
                b["term"] = _remap(b["term"], {hb: heads[0]})
        opt_adt = "std::option::Option"
        for k_, i in enumerate(order):
            m = {hb: heads[k_ + 1]}
            for ob in body:
                m[ob] = new_block()
            for ob in body:
                nbk = copy.deepcopy(raw["blocks"][ob])
                nbk["term"] = _remap(nbk["term"], m) if nbk["term"] else None
                raw["blocks"][m[ob]] = nbk
            # header statements other than the `&mut it` borrow are re-executed per iteration
            b_ = heads[k_]
            for s in raw["blocks"][hb]["stmts"]:
                if not (s["k"] == "assign" and s["rv"]["k"] == "ref" and s["rv"].get("mut")):
                    raw["blocks"][b_]["stmts"].append(copy.deepcopy(s))
            b_, loc = emit_item(i, b_, heads[k_ + 1])
            asg(b_, nxt, {"k": "agg", "ak": "adt", "adt": opt_adt, "variant": "Some", "vidx": 1, "fields": ["0"], "ops": [mv(loc)]})
            goto(b_, m[h1])
            # in this copy the item is known to be Some: the decision block keeps its statements and goes on to the body
            some_t = [bb for val, bb in t1["targets"] if bb in loop and int(val) == 1] or [bb for bb in ([t1["otherwise"]] + [x for _, x in t1["targets"]]) if bb in loop]
            raw["blocks"][m[h1]]["term"] = {"k": "goto", "target": m[some_t[0]], "span": span, "expn": None}
        goto(heads[n], exit_b)
        # the original loop is dead now
        for ob in loop:
            raw["blocks"][ob] = {"stmts": [], "term": {"k": "unreachable", "span": span, "expn": None}, "cleanup": False}
        return True
    return False
