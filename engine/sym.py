"""E9: field-sensitive forward value-flow analysis of small MIR bodies (path-split dataflow; abstract values are expression trees,
as in E4/E5; no solver, no execution of crate code), with an abstract store that understands references.

The expression engine (expr.py) follows definitions of *locals*; it does not compose assignments to single fields of a by-value
struct (`options.permissions = Some(..)`), nor writes through a `&mut` obtained from `Option::as_mut().unwrap()` /
`get_or_insert(..)`.  The writer's public openers build their `FileOptions` exactly that way.  This engine propagates abstract values forward
along every acyclic path (a loop body is entered at most once) with

  * a store keyed by (local, projection) -- a write to `_3.permissions` and a later copy `_16 = _3` compose;
  * reference values `("ref", placekey)`; `*r = v` writes the place the reference was taken from;
  * a small model of the `Option` plumbing the openers use (`is_none/is_some`, `as_mut/as_ref`, `unwrap/expect` on those,
    `unwrap_or`, `get_or_insert`, `insert`), with refinement of the tested place on the two edges of an `is_none()` test;
  * every other call is opaque: its result is `("call", callee, args)` and every place whose `&mut` it receives is havocked.

`run(stop)` returns, for every path that reaches a call terminator accepted by `stop`, the argument values at that call.
Values are tuples in the vocabulary of expr.py (`const`, `arg`, `field`, `variant`, `bin`, `un`, `cast`, `call`, `agg`) plus
`("sel", cond, a, b)` (a value that is `a` when `cond` holds and `b` otherwise) and `("havoc", why)`.
Nothing here executes crate code."""
import re


class SymTooComplex(Exception):
    pass


def _pk(place):
    """projection key of a place: tuple of hashable elements (derefs kept: they are resolved through the store)"""
    out = []
    for x in place["p"]:
        k = x["k"]
        if k == "deref":
            out.append(("deref",))
        elif k == "field":
            out.append(("field", x["n"] if x.get("n") is not None else str(x["i"])))
        elif k == "downcast":
            out.append(("variant", x["v"]))
        else:
            out.append((k, x.get("l"), x.get("o"), x.get("from"), x.get("to")))
    return tuple(out)


SOME = ("variant", "Some")
F0 = ("field", "0")


def mk_some(x):
    return ("agg", "adt:Some", "std::option::Option", (("0", x),))


NONE = ("agg", "adt:None", "std::option::Option", ())


def is_some_agg(v):
    return v[0] == "agg" and v[1] == "adt:Some"


def is_none_agg(v):
    return v[0] == "agg" and v[1] == "adt:None"


def payload(v):
    """the value inside an Option-valued expression, assuming it is Some"""
    if is_some_agg(v):
        return v[3][0][1]
    if v[0] == "sel":
        return ("sel", v[1], payload(v[2]), payload(v[3]))
    return ("field", ("variant", v, "Some"), "0")


def project(v, elem):
    k = elem[0]
    if v[0] == "sel":
        return ("sel", v[1], project(v[2], elem), project(v[3], elem))
    if k == "field":
        if v[0] == "agg":
            for fn_, fe in v[3]:
                if fn_ == elem[1]:
                    return fe
        return ("field", v, elem[1])
    if k == "variant":
        if v[0] == "agg" and v[1] == "adt:" + str(elem[1]):
            return v
        return ("variant", v, elem[1])
    if k == "deref":
        return v
    return ("index", v, elem[1:])


class State:
    __slots__ = ("store", "conds", "trace")

    def __init__(self, store=None, conds=(), trace=()):
        self.store = dict(store or {})
        self.conds = tuple(conds)
        self.trace = tuple(trace)

    def fork(self):
        return State(self.store, self.conds, self.trace)


class Sym:
    def __init__(self, fn, max_paths=3000):
        self.fn = fn
        self.max_paths = max_paths
        self.narg = fn.raw.get("arg_count", 0)
        self._ncalls = 0

    # ------------------------------------------------------------------ store
    def _resolve(self, st, local, proj):
        """follow derefs through reference values: returns the (local, proj) the place denotes, or None if it goes through an
        unknown pointer"""
        cur_l, cur_p = local, ()
        for el in proj:
            if el == ("deref",):
                v = self._read_key(st, cur_l, cur_p)
                if v[0] == "ref":
                    cur_l, cur_p = v[1]
                elif v[0] == "arg" or v[0] == "field" or v[0] == "variant":
                    # a reference parameter (or something reached through one): name what it points at symbolically
                    cur_p = cur_p + (el,)
                else:
                    return None
            else:
                cur_p = cur_p + (el,)
        return cur_l, cur_p

    def _init_local(self, l):
        if 1 <= l <= self.narg:
            return ("arg", l, self.fn.locals[l].get("name") or "_%d" % l)
        return ("uninit", l)

    def _read_key(self, st, l, p):
        # longest stored prefix, then project the remainder
        for n in range(len(p), -1, -1):
            key = (l, p[:n])
            if key in st.store:
                v = st.store[key]
                for el in p[n:]:
                    v = project(v, el)
                if n == len(p):
                    # overlay deeper writes (a struct whose fields were assigned one by one)
                    v = self._overlay(st, l, p, v)
                return v
        v = self._init_local(l)
        for el in p:
            v = project(v, el)
        return self._overlay(st, l, p, v)

    def _overlay(self, st, l, p, base):
        subs = [(k[1][len(p):], v) for k, v in st.store.items() if k[0] == l and len(k[1]) > len(p) and k[1][:len(p)] == p]
        if not subs:
            return base
        # only single-level field overrides are materialised as an aggregate view
        fields = {}
        for rest, v in subs:
            if rest[0][0] == "field" and len(rest) == 1:
                fields[rest[0][1]] = v
            elif rest[0][0] == "field":
                fields.setdefault(rest[0][1], None)
        ov = []
        for name in sorted(fields):
            val = fields[name]
            if val is None:
                val = self._read_key(st, l, p + (("field", name),))
            ov.append((name, val))
        return ("snap", base, tuple(ov))

    def read_place(self, st, place):
        r = self._resolve(st, place["l"], _pk(place))
        if r is None:
            return ("havoc", "read through unknown pointer")
        return self._read_key(st, r[0], r[1])

    def write_place(self, st, place, v):
        r = self._resolve(st, place["l"], _pk(place))
        if r is None:
            return
        self._write_key(st, r[0], r[1], v)

    def _write_key(self, st, l, p, v):
        for k in [k for k in st.store if k[0] == l and len(k[1]) > len(p) and k[1][:len(p)] == p]:
            del st.store[k]
        if v[0] == "snap":
            st.store[(l, p)] = v[1]
            for name, fv in v[2]:
                self._write_key(st, l, p + (("field", name),), fv)
            return
        # a write below an aggregate held by a shorter key: rebuild that aggregate so later whole reads see it
        for n in range(len(p) - 1, -1, -1):
            key = (l, p[:n])
            if key in st.store and st.store[key][0] == "agg":
                agg = st.store[key]
                rest = p[n:]
                if rest[0][0] == "variant" and agg[1] == "adt:" + str(rest[0][1]):
                    rest = rest[1:]
                if len(rest) == 1 and rest[0][0] == "field":
                    st.store[key] = (agg[0], agg[1], agg[2], tuple((fn_, v if fn_ == rest[0][1] else fe) for fn_, fe in agg[3]))
                    return
                break
        st.store[(l, p)] = v

    # ------------------------------------------------------------------ expressions
    def operand(self, st, op):
        k = op["k"]
        if k == "const":
            if "v" in op and op["v"] is not None:
                return ("const", op.get("ty"), int(op["v"]))
            if "fn" in op:
                return ("fn", op["fn"])
            return ("const", op.get("ty"), op.get("name") or op.get("str"))
        return self.read_place(st, op["place"])

    def rvalue(self, st, rv):
        k = rv["k"]
        if k == "use":
            return self.operand(st, rv["op"])
        if k in ("ref", "rawptr"):
            r = self._resolve(st, rv["place"]["l"], _pk(rv["place"]))
            if r is None:
                return ("havoc", "reference through unknown pointer")
            return ("ref", r, bool(rv.get("mut")))
        if k == "cast":
            e = self.operand(st, rv["op"])
            ck = rv["ck"]
            if ck.startswith("PointerCoercion") or ck in ("PtrToPtr", "Transmute", "Subtype"):
                return e
            return ("cast", e, rv["from"], rv["to"])
        if k == "binop":
            a, b = self.operand(st, rv["a"]), self.operand(st, rv["b"])
            if rv["op"].endswith("WithOverflow"):
                return ("agg", "tuple", "", (("0", fold_bin(rv["op"].replace("WithOverflow", ""), a, b)), ("1", ("const", "bool", 0))))
            return fold_bin(rv["op"], a, b)
        if k == "unop":
            return ("un", rv["op"], self.operand(st, rv["a"]))
        if k == "discr":
            return ("discr", self.read_place(st, rv["place"]))
        if k == "agg":
            ops = [self.operand(st, o) for o in rv["ops"]]
            if rv["ak"] == "adt":
                fs = rv.get("fields") or []
                if len(fs) != len(ops):
                    fs = [str(i) for i in range(len(ops))]
                return ("agg", "adt:" + rv["variant"], rv["adt"], tuple(zip(fs, ops)))
            return ("agg", rv["ak"], rv.get("closure") or "", tuple((str(i), o) for i, o in enumerate(ops)))
        return ("havoc", "rvalue " + k)

    # ------------------------------------------------------------------ calls
    def call(self, st, t):
        callee = t.get("resolved") or t.get("callee") or ""
        name = t.get("callee") or ""
        args = [self.operand(st, a) for a in t["args"]]
        short = name.split("::")[-1]
        opt = "option::Option" in name
        self._ncalls += 1

        def place_of(a):
            return a[1] if a[0] in ("ref", "optref") else None

        if opt and short in ("is_none", "is_some") and args and args[0][0] == "ref":
            cur = self._read_key(st, *args[0][1])
            if is_some_agg(cur) or is_none_agg(cur):
                return ("const", "bool", int(is_none_agg(cur) == (short == "is_none")))
            return ("optest", short, args[0][1], cur)
        if opt and short in ("as_mut", "as_ref") and args and args[0][0] == "ref":
            return ("optref", args[0][1])
        if opt and short in ("unwrap", "expect", "unwrap_unchecked") and args and args[0][0] == "optref":
            l, p = args[0][1]
            cur = self._read_key(st, l, p)
            if is_none_agg(cur):
                return ("diverge",)
            if not is_some_agg(cur):
                self._write_key(st, l, p, mk_some(payload(cur)))
            return ("ref", (l, p + (SOME, F0)), True)
        if opt and short in ("get_or_insert", "insert") and args and args[0][0] == "ref":
            l, p = args[0][1]
            cur = self._read_key(st, l, p)
            if short == "insert" or is_none_agg(cur):
                self._write_key(st, l, p, mk_some(args[1]))
            elif not is_some_agg(cur):
                self._write_key(st, l, p, mk_some(("sel", ("is_some", cur), payload(cur), args[1])))
            return ("ref", (l, p + (SOME, F0)), True)
        if opt and short == "unwrap_or" and len(args) == 2:
            cur = args[0]
            if is_some_agg(cur):
                return payload(cur)
            if is_none_agg(cur):
                return args[1]
            return ("sel", ("is_some", cur), payload(cur), args[1])
        if opt and short in ("unwrap", "expect") and args:
            if is_none_agg(args[0]):
                return ("diverge",)
            return payload(args[0])
        if re.search(r"<impl (usize|u64|u32|i64|isize)>::checked_(sub|add)$", name) and len(args) == 2 and args[0][0] == "const" and args[1][0] == "const" \
                and isinstance(args[0][2], int) and isinstance(args[1][2], int):
            r_ = args[0][2] - args[1][2] if short == "checked_sub" else args[0][2] + args[1][2]
            unsigned = not re.search(r"<impl i", name)
            return NONE if (r_ < 0 and unsigned) else mk_some(("const", args[0][1], r_))
        if name.endswith("ops::Try::branch") and len(args) == 1 and args[0][0] == "agg" and args[0][1] in ("adt:Some", "adt:Ok", "adt:None", "adt:Err"):
            if args[0][1] in ("adt:Some", "adt:Ok"):
                return ("agg", "adt:Continue", "std::ops::ControlFlow", (("0", args[0][3][0][1]),))
            return ("agg", "adt:Break", "std::ops::ControlFlow", (("0", args[0]),))
        if name.endswith("FromResidual::from_residual") and len(args) == 1 and args[0][0] == "agg" and args[0][1] in ("adt:None", "adt:Err"):
            return args[0]
        if name.endswith("FromResidual::from_residual") and len(args) == 1:
            # `?` on an opaque value, error edge: whatever the residual is, what is built from it is the error variant -- so that a
            # caller's `?` on an inlined helper's result takes the error edge (and does not "continue" with a failed read)
            dty = (t.get("dest") or {}).get("ty") or (self.fn.locals[t["dest"]["l"]].get("ty") if t.get("dest") else "") or ""
            if dty.startswith("std::result::Result") or dty.startswith("core::result::Result"):
                return ("agg", "adt:Err", "std::result::Result", (("0", ("call", "residual", (args[0],), self._ncalls)),))
            if dty.startswith("std::option::Option") or dty.startswith("core::option::Option"):
                return NONE
        # the writer's option builders (`fn large_file(mut self, v) -> Self { self.large_file = v; self }`): a field update of the
        # receiver, so that a builder chain and a struct literal denote the same options value
        mb = re.search(r"^write::FileOptions::(large_file|last_modified_time|compression_method|compression_level|unix_permissions)$", name)
        if mb and len(args) == 2 and args[0][0] in ("snap", "call", "agg", "arg"):
            fld = mb.group(1)
            val = args[1]
            if fld == "unix_permissions":
                fld, val = "permissions", mk_some(("bin", "BitAnd", args[1], ("const", "u32", 0o777)))
            base, ov = (args[0][1], dict(args[0][2])) if args[0][0] == "snap" else (args[0], {})
            ov[fld] = val
            return ("snap", base, tuple(sorted(ov.items())))
        # opaque call: havoc what it may write through
        for a in args:
            if a[0] == "ref" and len(a) > 2 and a[2]:
                self._write_key(st, a[1][0], a[1][1], ("havoc", "written by %s" % short))
            if a[0] == "optref":
                self._write_key(st, a[1][0], a[1][1], ("havoc", "written by %s" % short))
        return ("call", name, tuple(args), self._ncalls)

    # ------------------------------------------------------------------ driver
    def explore(self, max_visits=4):
        """bounded exploration for small state machines written as a loop (a component walk): every block may be visited up to
        `max_visits` times on a path; returns [dict(ret=<value of _0>, conds=[...])] for the paths that reach `return`"""
        self._max_visits = max_visits
        self._returns = []
        try:
            self.run(lambda bb, t: False)
            return self._returns
        finally:
            self._max_visits = 1
            res = self._returns
            self._returns = None

    _max_visits = 1
    _returns = None
    _block_hook = None      # optional callable(bb, state) invoked on entry to every block; truthy = record the state, "end" = and stop the path
    unique_calls = False    # tag every opaque call result with its position among the calls of the path (two reads of one stream are two values)

    def run(self, stop):
        """stop(bb, term) -> truthy for the call terminators of interest. Returns [dict(bb, term, args, state)] -- one per path and
        site (a path continues after a site)."""
        fn = self.fn
        out = []
        npaths = [0]
        back = set(fn.back_edges()) if hasattr(fn, "back_edges") else set()

        def go(bb, st, visited):
            while True:
                if self._max_visits == 1:
                    if bb in visited:
                        return          # a loop is entered once
                    visited = visited | {bb}
                else:
                    n_ = sum(1 for x in visited if x == bb)
                    if n_ >= self._max_visits:
                        return
                    visited = visited + (bb,)
                blk = fn.blocks[bb]
                if blk.get("cleanup"):
                    return
                if self._block_hook is not None:
                    hv = self._block_hook(bb, st)
                    if hv:
                        out.append(dict(bb=bb, term=None, args=[], state=st.fork()))
                        if hv == "end":
                            npaths[0] += 1
                            return
                for s in blk["stmts"]:
                    if s["k"] == "assign":
                        self.write_place(st, s["place"], self.rvalue(st, s["rv"]))
                t = blk["term"]
                if t is None:
                    return
                k = t["k"]
                if k == "goto":
                    bb = t["target"]
                    continue
                if k in ("drop", "assert"):
                    if t.get("target") is None:
                        return
                    bb = t["target"]
                    continue
                if k == "call":
                    sv = stop(bb, t)
                    if sv:
                        av = [self.operand(st, a) for a in t["args"]]
                        out.append(dict(bb=bb, term=t, args=av, state=st.fork()))
                        if sv == "end":
                            npaths[0] += 1
                            return
                    r = self.call(st, t)
                    if sv:
                        st.trace = st.trace + ((bb, t.get("callee") or "", tuple(av), r),)
                    if r == ("diverge",) or t.get("target") is None:
                        npaths[0] += 1
                        return
                    self.write_place(st, t["dest"], r)
                    bb = t["target"]
                    continue
                if k == "switch":
                    d = self.operand(st, t["discr"])
                    if d[0] == "const" and isinstance(d[2], int):
                        tgt = t["otherwise"]
                        for val, b2 in t["targets"]:
                            if int(val) == d[2]:
                                tgt = b2
                        bb = tgt
                        continue
                    if d[0] == "discr" and d[1][0] == "agg" and d[1][1] in ("adt:Some", "adt:None", "adt:Ok", "adt:Err", "adt:Continue", "adt:Break"):
                        idx = {"adt:None": 0, "adt:Some": 1, "adt:Ok": 0, "adt:Err": 1, "adt:Continue": 0, "adt:Break": 1}[d[1][1]]
                        tgt = t["otherwise"]
                        for val, b2 in t["targets"]:
                            if int(val) == idx:
                                tgt = b2
                        bb = tgt
                        continue
                    edges = [(int(val), b2) for val, b2 in t["targets"]] + [(None, t["otherwise"])]
                    # the same value was tested before on this path (`let big = v > T; if big {..} .. if big {..}`): take the same edge
                    prev = [v_ for d_, v_ in st.conds if d_ == d]
                    if prev and d[0] != "optest" and not _has_havoc(d):
                        edges = [(val, b2) for val, b2 in edges if val == prev[-1]] or edges
                    for val, b2 in edges:
                        npaths[0] += 1
                        if npaths[0] > self.max_paths:
                            raise SymTooComplex(fn.path)
                        s2 = st.fork()
                        s2.conds = s2.conds + ((d, val),)
                        if d[0] == "optest":
                            # refine the tested Option on this edge
                            truth = True if val is None else (val != 0)
                            isnone = truth if d[1] == "is_none" else (not truth)
                            l, p = d[2]
                            self._write_key(s2, l, p, NONE if isnone else mk_some(payload(d[3])))
                        go(b2, s2, visited)
                    return
                if k == "return" and self._returns is not None:
                    self._returns.append(dict(ret=self._read_key(st, 0, ()), conds=list(st.conds)))
                return      # return / unreachable / resume

        go(0, State(), frozenset() if self._max_visits == 1 else ())
        return out


def _has_havoc(v):
    if not isinstance(v, tuple):
        return False
    if v and v[0] == "havoc":
        return True
    return any(_has_havoc(x) for x in v if isinstance(x, tuple))


def fold_bin(op, a, b):
    if a[0] == "const" and b[0] == "const" and isinstance(a[2], int) and isinstance(b[2], int):
        base = op.replace("WithOverflow", "").replace("Unchecked", "")
        try:
            if base in ("Eq", "Ne", "Lt", "Le", "Gt", "Ge") and not isinstance(a[2], bool) and not isinstance(b[2], bool):
                return ("const", "bool", int({"Eq": a[2] == b[2], "Ne": a[2] != b[2], "Lt": a[2] < b[2], "Le": a[2] <= b[2], "Gt": a[2] > b[2], "Ge": a[2] >= b[2]}[base]))
            v = {"BitOr": a[2] | b[2], "BitAnd": a[2] & b[2], "BitXor": a[2] ^ b[2], "Add": a[2] + b[2]}[base]
            return ("const", a[1], v)
        except KeyError:
            pass
    return ("bin", op, a, b)


def field_of(v, name):
    """field `name` of a struct-valued expression (through snapshots and selections)"""
    if v[0] == "snap":
        for n, fv in v[2]:
            if n == name:
                return fv
        return field_of(v[1], name)
    return project(v, ("field", name))


def must_bits(v):
    """bits that are set in every value the integer expression can take"""
    k = v[0]
    if k == "const" and isinstance(v[2], int):
        return v[2]
    if k == "bin":
        op = v[1].replace("WithOverflow", "")
        if op == "BitOr":
            return must_bits(v[2]) | must_bits(v[3])
        if op == "BitAnd":
            return must_bits(v[2]) & must_bits(v[3])
        return 0
    if k == "sel":
        return must_bits(v[2]) & must_bits(v[3])
    return 0


def may_bits(v, width=32):
    """bits that can be set in some value the integer expression takes (everything, when unknown)"""
    full = (1 << width) - 1
    k = v[0]
    if k == "const" and isinstance(v[2], int):
        return v[2]
    if k == "bin":
        op = v[1].replace("WithOverflow", "")
        if op == "BitOr":
            return may_bits(v[2], width) | may_bits(v[3], width)
        if op == "BitAnd":
            return may_bits(v[2], width) & may_bits(v[3], width)
        return full
    if k == "sel":
        return may_bits(v[2], width) | may_bits(v[3], width)
    return full


def show(v, depth=0):
    if depth > 6:
        return "..."
    k = v[0]
    if k == "const":
        return str(v[2])
    if k == "arg":
        return v[2]
    if k == "field":
        return "%s.%s" % (show(v[1], depth + 1), v[2])
    if k == "variant":
        return "(%s as %s)" % (show(v[1], depth + 1), v[2])
    if k == "bin":
        return "%s(%s, %s)" % (v[1], show(v[2], depth + 1), show(v[3], depth + 1))
    if k == "sel":
        return "if %s {%s} else {%s}" % (show(v[1], depth + 1), show(v[2], depth + 1), show(v[3], depth + 1))
    if k == "is_some":
        return "is_some(%s)" % show(v[1], depth + 1)
    if k == "agg":
        return "%s{%s}" % (v[1].replace("adt:", ""), ", ".join("%s: %s" % (n, show(x, depth + 1)) for n, x in v[3]))
    if k == "snap":
        return "%s with {%s}" % (show(v[1], depth + 1), ", ".join("%s: %s" % (n, show(x, depth + 1)) for n, x in v[2]))
    if k == "call":
        return "%s(%s)" % (v[1].split("::")[-1], ", ".join(show(x, depth + 1) for x in v[2]))
    if k == "cast":
        return "(%s as %s)" % (show(v[1], depth + 1), v[3])
    return str(v)[:60]
