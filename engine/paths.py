"""E4: path enumeration with boolean/discriminant atoms (decision tables).

`paths(fn)` walks the acyclic paths of a (small) MIR body from the entry to every return / diverging call.  Along a path it
keeps a tiny environment for scalar locals (constants, copies, negations, discriminant reads, field loads, call results) so that
short-circuit booleans (`a && !b && !c` lowered to assignments of constants on different edges) are evaluated path-sensitively
and infeasible combinations are pruned.  Every branch that is not decided by the environment is recorded as a decision on an
*atom*: the normalised expression of the switch operand.

Path = dict(decisions=[(atom, value)], effects=[(bb, callee, [arg exprs])], ret=<expr of the last assignment to _0 or None>,
            end='return'|'diverge', blocks=[...])
"""
import re
from .expr import Ex, norm, show, alts


class PathExplosion(Exception):
    pass


class Dec(list):
    """list of (atom, value) decisions that also remembers at which position of the path's block list each one was taken"""

    def __init__(self, items=(), pos=()):
        list.__init__(self, items)
        self.pos = list(pos)

    def plus(self, item, pos):
        return Dec(list(self) + [item], self.pos + [pos])


def _sym_of_operand(fn, env, op):
    if op["k"] == "const":
        if "v" in op:
            return ("const", int(op["v"]))
        return None
    pl = op["place"]
    if not pl["p"]:
        v = env.get(pl["l"])
        return None if v is not None and v[0] == "val" else v
    return None


def _cmp_var(fn, bb, t):
    """name of the user variable compared with a constant by the Eq/Ne that feeds the switch terminating bb (None if not that shape)"""
    d = t["discr"]
    if d["k"] == "const" or d["place"]["p"]:
        return None
    dl = d["place"]["l"]
    for s in reversed(fn.blocks[bb]["stmts"]):
        if s["k"] == "assign" and s["place"]["l"] == dl and not s["place"]["p"]:
            rv = s["rv"]
            if rv["k"] == "binop" and rv["op"] in ("Eq", "Ne"):
                for o in (rv["a"], rv["b"]):
                    if o["k"] != "const" and not o["place"]["p"]:
                        l = o["place"]["l"]
                        nm = fn.locals[l].get("name")
                        if not nm:
                            # a temporary holding a copy of the variable
                            for s2 in reversed(fn.blocks[bb]["stmts"]):
                                if s2["k"] == "assign" and s2["place"]["l"] == l and not s2["place"]["p"] and s2["rv"]["k"] == "use" and \
                                        s2["rv"]["op"]["k"] != "const" and not s2["rv"]["op"]["place"]["p"]:
                                    nm = fn.locals[s2["rv"]["op"]["place"]["l"]].get("name")
                                    break
                        if nm:
                            return nm
            return None
    return None


def _fold(op, a, b):
    """constant folding of the integer operations flag words are built from; X-WithOverflow yields a (value, overflow) pair"""
    base = op.replace("WithOverflow", "").replace("Unchecked", "")
    try:
        r = {"BitOr": lambda: a | b, "BitAnd": lambda: a & b, "BitXor": lambda: a ^ b, "Add": lambda: a + b, "Sub": lambda: a - b,
             "Mul": lambda: a * b, "Shl": lambda: a << b if 0 <= b < 128 else None, "Shr": lambda: a >> b if 0 <= b < 128 else None,
             "Eq": lambda: int(a == b), "Ne": lambda: int(a != b), "Lt": lambda: int(a < b), "Le": lambda: int(a <= b),
             "Gt": lambda: int(a > b), "Ge": lambda: int(a >= b)}[base]()
    except KeyError:
        return None
    if r is None or r < 0:
        return None
    return (r,) if op.endswith("WithOverflow") else r


def _variant_of(v):
    """variant name of a path-local value known to be a freshly built enum value: 'Ok' / 'Err' / 'Some' / 'None' / 'Continue' / ..."""
    if v is None or v[0] != "val":
        return None
    e = v[1]
    if e[0] == "agg" and isinstance(e[1], str) and e[1].startswith("adt:"):
        return e[1][4:]
    if e[0] == "errprop":
        return "Err"
    return None


def paths(fn, max_paths=4000, max_loop=1):
    ex = Ex(fn)
    out = []
    back = set(fn.back_edges())

    def atom_for(bb, t):
        d = norm(ex.operand(t["discr"], (bb, None)))
        return d

    retval = [None]
    discr_vals = {}

    def step_block(bb, env, effects, lastret):
        b = fn.blocks[bb]
        for si, s in enumerate(b["stmts"]):
            if s["k"] != "assign":
                continue
            pl = s["place"]
            if pl["l"] == 0:
                lastret = (bb, si)
                retval[0] = None
                rv0 = s["rv"]
                if rv0["k"] == "use" and rv0["op"]["k"] in ("copy", "move") and not rv0["op"]["place"]["p"]:
                    ev = env.get(rv0["op"]["place"]["l"])
                    if ev is not None and ev[0] == "val":
                        retval[0] = ev[1]
            if pl["p"]:
                # write through a projection invalidates nothing we track (we track whole scalar locals only)
                continue
            rv = s["rv"]
            val = None
            if rv["k"] == "use":
                val = _sym_of_operand(fn, env, rv["op"])
                op_ = rv["op"]
                if val is None and op_["k"] != "const" and [q["k"] for q in op_["place"]["p"]] == ["field"] and env.get(op_["place"]["l"], ("",))[0] == "pair":
                    val = ("const", env[op_["place"]["l"]][1]) if op_["place"]["p"][0].get("i", op_["place"]["p"][0].get("n")) in (0, "0") else None
                if val is None and rv["op"]["k"] != "const" and not rv["op"]["place"]["p"] and env.get(rv["op"]["place"]["l"], ("",))[0] == "val":
                    val = env[rv["op"]["place"]["l"]]
                if val is None and rv["op"]["k"] != "const":
                    val = ("expr", show(norm(ex.operand(rv["op"], (bb, si)))))
            elif rv["k"] == "unop" and rv["op"] == "Not":
                a = _sym_of_operand(fn, env, rv["a"])
                if a is not None and a[0] == "const":
                    val = ("const", 0 if a[1] else 1)
                elif a is not None and a[0] == "expr":
                    val = ("not", a[1])
                elif a is not None and a[0] == "not":
                    val = ("expr", a[1])
            elif rv["k"] == "discr":
                val = ("expr", show(norm(ex.rvalue(rv, (bb, si)))))
                if rv.get("vars"):
                    discr_vals[val[1]] = sorted(int(v) for v, _ in rv["vars"])
                    # the variant is known on this path (value built / propagated on this very path, e.g. after inlining a helper)
                    pl_ = rv.get("place")
                    if pl_ is not None and not pl_["p"]:
                        vr = _variant_of(env.get(pl_["l"]))
                        hit = [int(v) for v, n in rv["vars"] if n == vr]
                        if vr is not None and len(hit) == 1:
                            val = ("const", hit[0])
            elif rv["k"] in ("binop", "cast"):
                val = ("expr", show(norm(ex.rvalue(rv, (bb, si)))))
                # constant folding along the path (flag words assembled from per-branch constants)
                if rv["k"] == "binop":
                    a_, b_ = _sym_of_operand(fn, env, rv["a"]), _sym_of_operand(fn, env, rv["b"])
                    if a_ is not None and b_ is not None and a_[0] == "const" and b_[0] == "const":
                        r_ = _fold(rv["op"], a_[1], b_[1])
                        if r_ is not None:
                            val = ("const", r_) if not isinstance(r_, tuple) else ("val", ("agg", "tuple", "", (("0", ("const", "int", r_[0])), ("1", ("const", "bool", 0)))))
                            if isinstance(r_, tuple):
                                val = ("pair", r_[0])
                elif rv["k"] == "cast":
                    a_ = _sym_of_operand(fn, env, rv["a"] if "a" in rv else rv.get("op"))
                    if a_ is not None and a_[0] == "const" and 0 <= a_[1] < 128:
                        val = a_        # (small values survive every integer cast unchanged)
            elif rv["k"] == "agg":
                # the aggregate built on *this* path (its variant is exact even where the expression engine would join paths)
                e_ = norm(ex.rvalue(rv, (bb, si)))
                if e_[0] == "agg" and len(e_[3]) == len(rv.get("ops") or ()):
                    # ... and so are its scalar fields: a field whose value the expression engine can only give as a join of the
                    # paths' values (`mode` patched on one branch) is the constant this path computed
                    flds_ = []
                    for (fn_, fe_), op_ in zip(e_[3], rv["ops"]):
                        sy_ = _sym_of_operand(fn, env, op_)
                        if sy_ is not None and sy_[0] == "const" and fe_[0] in ("phi", "bin") and isinstance(sy_[1], int):
                            fe_ = ("const", "int", sy_[1])
                        flds_.append((fn_, fe_))
                    e_ = ("agg", e_[1], e_[2], tuple(flds_))
                val = ("val", e_)
            if val is not None:
                env[pl["l"]] = val
            else:
                env.pop(pl["l"], None)
        return lastret

    def go(bb, env, decisions, effects, lastret, visited, loopcount):
        if len(out) > max_paths:
            raise PathExplosion(fn.path)
        env = dict(env)
        lastret = step_block(bb, env, effects, lastret)
        t = fn.term(bb)
        blocks = visited + [bb]
        if t is None or t["k"] in ("unreachable", "resume", "terminate"):
            return
        if t["k"] == "return":
            r = None
            ev0 = env.get(0)
            if lastret is not None and ev0 is not None and ev0[0] == "val" and ev0[1][0] == "agg" and retval[0] is None:
                r = ev0[1]      # the aggregate returned was built on this very path
            elif lastret is not None and retval[0] is not None:
                r = retval[0]
            elif lastret is not None:
                st = fn.blocks[lastret[0]]["stmts"][lastret[1]]
                r = norm(ex.rvalue(st["rv"], lastret))
            elif effects and effects[-1][3]:
                r = effects[-1][4]
            out.append(dict(decisions=list(decisions), effects=[e[:3] for e in effects], ret=r, end="return", blocks=blocks,
                            dpos=list(decisions.pos), epos=[e[5] for e in effects], econst=[e[6] for e in effects]))
            return
        if t["k"] == "call":
            args = [norm(ex.operand(a, (bb, None))) for a in t["args"]]
            callee = t.get("callee") or "<indirect>"
            to_ret = t["dest"]["l"] == 0 and not t["dest"]["p"]
            callx = norm(ex._call_value(t, (bb, None), 0))
            csts = tuple((_sym_of_operand(fn, env, a_) or (None, None))[1] if (_sym_of_operand(fn, env, a_) or ("",))[0] == "const" else None for a_ in t["args"])
            effects = effects + [(bb, callee, args, to_ret, callx, len(visited), csts)]
            if not t["dest"]["p"]:
                env[t["dest"]["l"]] = ("expr", show(callx))
                if t.get("ret_variant") in ("Ok", "Err", "Some", "None"):
                    # every return of the (crate-local) callee builds this variant
                    fam_ = "std::option::Option" if t["ret_variant"] in ("Some", "None") else "std::result::Result"
                    env[t["dest"]["l"]] = ("val", ("agg", "adt:" + t["ret_variant"], fam_, (("0", callx),) if t["ret_variant"] != "None" else ()))
                if callee.endswith("FromResidual::from_residual"):
                    env[t["dest"]["l"]] = ("val", callx)
                elif callee.endswith("Try::branch") and t["args"] and t["args"][0]["k"] != "const" and not t["args"][0]["place"]["p"]:
                    vr = _variant_of(env.get(t["args"][0]["place"]["l"]))
                    if vr in ("Ok", "Some"):
                        env[t["dest"]["l"]] = ("val", ("agg", "adt:Continue", "std::ops::ControlFlow", (("0", ("ok", args[0])),)))
                    elif vr in ("Err", "None"):
                        env[t["dest"]["l"]] = ("val", ("agg", "adt:Break", "std::ops::ControlFlow", (("0", ("residual", args[0])),)))
                if to_ret:
                    lastret = None
            if t.get("target") is None:
                out.append(dict(decisions=list(decisions), effects=[e[:3] for e in effects], ret=None, end="diverge", blocks=blocks,
                                dpos=list(decisions.pos), epos=[e[5] for e in effects], econst=[e[6] for e in effects]))
                return
            nxt = [t["target"]]
        elif t["k"] == "switch":
            sym = _sym_of_operand(fn, env, t["discr"])
            targets = [(v, b) for v, b in t["targets"]]
            other = t["otherwise"]
            if sym is not None and sym[0] == "const":
                tgt = other
                for v, b in targets:
                    if v == sym[1]:
                        tgt = b
                nxt = [tgt]
                for n in nxt:
                    _follow(bb, n, env, decisions, effects, lastret, blocks, loopcount)
                return
            if sym is not None and sym[0] in ("expr", "not"):
                name = sym[1]
                neg = sym[0] == "not"
            else:
                name = show(atom_for(bb, t))
                neg = False
            is_bool = t.get("dty") == "bool"
            cmp_const = None
            if is_bool and not neg:
                d_ = atom_for(bb, t) if sym is None else None
                if d_ is None and sym is not None:
                    # rebuild the structured expression behind the boolean local
                    try:
                        d_ = norm(ex.operand(t["discr"], (bb, None)))
                    except Exception:
                        d_ = None
                if d_ is not None and d_[0] == "bin" and d_[1] in ("Eq", "Ne"):
                    for x_, c_ in ((d_[2], d_[3]), (d_[3], d_[2])):
                        if c_[0] == "const" and isinstance(c_[2], int) and x_[0] != "const":
                            nm_ = show(x_)
                            if x_[0] == "phi":
                                # a loop-carried user variable: name the atom after the variable, not after its (unreadable) phi web
                                vn_ = _cmp_var(fn, bb, t)
                                if vn_:
                                    nm_ = "var:" + vn_
                            cmp_const = (nm_, c_[2], d_[1])
                            break
            # previous decision on the same atom?
            last_iter = max([i for i, (a, v) in enumerate(decisions) if a == "#iter"] + [-1])
            prev = [v for (a, v) in decisions[last_iter + 1:] if a == (cmp_const[0] if cmp_const else name)]
            if cmp_const is not None:
                # translate earlier decisions on x into the boolean this comparison would take
                prev = [(1 if (pv == cmp_const[1]) == (cmp_const[2] == "Eq") else 0) if not isinstance(pv, tuple) else
                        ((0 if cmp_const[2] == "Eq" else 1) if cmp_const[1] in pv[1] else None) for pv in prev]
                prev = [pv for pv in prev if pv is not None]
            for v, b in targets + [("other", other)]:
                if v == "other":
                    val = ("not-in", tuple(x for x, _ in targets))
                    rest = [x for x in discr_vals.get(name, []) if x not in val[1]]
                    if name in discr_vals and len(rest) == 1:
                        val = rest[0]     # the only remaining variant of the enum
                    if is_bool and [x for x, _ in targets] == [0]:
                        val = 1
                    elif is_bool and [x for x, _ in targets] == [1]:
                        val = 0
                else:
                    val = v
                if is_bool and neg and val in (0, 1):
                    val = 1 - val
                dname = name
                if cmp_const is not None and val in (0, 1):
                    # `x == c` true  <=> decision (x, c);  false <=> (x, not-in (c,))
                    eq = (val == 1) if cmp_const[2] == "Eq" else (val == 0)
                    dname = cmp_const[0]
                    val = cmp_const[1] if eq else ("not-in", (cmp_const[1],))
                if prev and prev[-1] != val:
                    # contradicts an earlier decision on this atom along the path
                    if not (isinstance(prev[-1], tuple) or isinstance(val, tuple)) or \
                            (isinstance(prev[-1], tuple) and not isinstance(val, tuple) and val in prev[-1][1]) or \
                            (isinstance(val, tuple) and not isinstance(prev[-1], tuple) and prev[-1] in val[1]) or \
                            (isinstance(val, tuple) and isinstance(prev[-1], tuple)):
                        if not (isinstance(val, tuple) and isinstance(prev[-1], tuple)):
                            continue
                # unreachable arms of exhaustive matches
                tb = fn.term(b)
                if tb is not None and tb["k"] == "unreachable":
                    continue
                _follow(bb, b, env, decisions.plus((dname, val), len(visited)), effects, lastret, blocks, loopcount)
            return
        elif t["k"] in ("goto", "drop", "assert"):
            nxt = [t["target"]]
        else:
            return
        for n in nxt:
            _follow(bb, n, env, decisions, effects, lastret, blocks, loopcount)

    def _follow(frm, to, env, decisions, effects, lastret, blocks, loopcount):
        lc = loopcount
        if (frm, to) in back:
            c = loopcount.get((frm, to), 0)
            if c >= max_loop:
                return
            lc = dict(loopcount)
            lc[(frm, to)] = c + 1
            decisions = decisions.plus(("#iter", c + 1), len(blocks))
        go(to, env, decisions, effects, lastret, blocks, lc)

    import sys
    sys.setrecursionlimit(20000)
    go(0, {}, Dec(), [], None, [], {})
    return out


def decided(path, pattern):
    """value of the first decision whose atom matches regex `pattern`, or None"""
    r = re.compile(pattern)
    for a, v in path["decisions"]:
        if a != "#iter" and r.search(a):
            return v
    return None


def called(path, pattern):
    r = re.compile(pattern)
    return [e for e in path["effects"] if r.search(e[1])]


def outcome(path):
    """coarse classification of a path's result: ('Ok', payload) / ('Err', how) / ('diverge',) / ('value', expr)"""
    if path["end"] == "diverge":
        return ("diverge",)
    r = path["ret"]
    if r is None:
        return ("unknown",)
    if r[0] == "agg" and r[1] == "adt:Ok":
        return ("Ok", r[3][0][1] if r[3] else None)
    if r[0] == "agg" and r[1] == "adt:Err":
        return ("Err", r[3][0][1] if r[3] else None)
    if r[0] == "errprop":
        return ("ErrProp", r[1])
    if r[0] == "agg" and r[1] in ("adt:Some", "adt:None"):
        return (r[1][4:], r[3][0][1] if r[3] else None)
    return ("value", r)
