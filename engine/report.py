"""Verdict collection, known-findings handling, evidence and exit code (DESIGN.md §2.9)."""
import json
import os
import re
import sys
import time

HERE = os.path.dirname(os.path.dirname(os.path.abspath(__file__)))
KNOWN = os.path.join(HERE, "KNOWN_FINDINGS.txt")
EVID = os.environ.get("VERIF_EVID") or os.path.join(HERE, "evidence")


def load_known():
    """-> {property: {key: text}} for `open:` lines only; `fixed:` lines suppress nothing"""
    out = {}
    if not os.path.exists(KNOWN):
        return out
    for line in open(KNOWN):
        line = line.strip()
        if not line or line.startswith("#"):
            continue
        m = re.match(r"open:\s+property=(C\d+)\s+key=(\S+)\s+(.*)$", line)
        if m:
            out.setdefault(m.group(1), {})[m.group(2)] = m.group(3)
    return out


class Report:
    def __init__(self, prop, tier="quick", seed=0):
        self.prop = prop
        self.tier = tier
        self.seed = seed
        self.t0 = time.time()
        self.instances = []      # dicts
        self.floors = {}         # rule -> (min, why)
        self.notes = []
        self.assumptions = []
        self.analysed = {}       # free-form counters: functions, paths, call sites ...
        self.configs = []
        self.explanation = ""
        self.selftest = None
        self.cfg = None          # non-default feature configuration being re-checked (thorough tier)
        self.cfg_na = {}         # cfg -> set("rule|key") reviewed as not applicable because the feature is compiled out

    # ---------------------------------------------------------------- recording
    def inst(self, rule, key, verdict, where="", detail="", trivial=False, cls=None):
        """verdict in ok | violation | reviewed | note"""
        assert verdict in ("ok", "violation", "reviewed", "note"), verdict
        key = re.sub(r"\s+", "_", key)
        rule = self._rn(rule)
        self.instances.append(dict(rule=rule, key=key, verdict=verdict, where=where, detail=detail,
                                   trivial=trivial, cls=cls or verdict))

    def _rn(self, rule):
        """rules shared between properties are reported under the property being checked"""
        r = rule if rule.startswith(self.prop) else "%s/%s" % (self.prop, rule)
        if self.cfg and not r.endswith("]"):
            r = "%s[%s]" % (r, self.cfg)
        return r

    def ok(self, rule, key, where="", detail="", trivial=False, cls=None):
        self.inst(rule, key, "ok", where, detail, trivial, cls)

    def violation(self, rule, key, where="", detail=""):
        if self.cfg:
            base = re.sub(r"\[[^\]]*\]$", "", rule)
            k = "%s|%s" % (base, re.sub(r"\s+", "_", key))
            if k in self.cfg_na.get(self.cfg, ()) or k.split("/", 1)[-1] in self.cfg_na.get(self.cfg, ()):
                self.inst(rule, key, "note", where, "not applicable in configuration %s (feature compiled out): %s" % (self.cfg, detail[:120]), cls="n/a-config")
                return
        self.inst(rule, key, "violation", where, detail)

    def reviewed(self, rule, key, where="", detail=""):
        self.inst(rule, key, "reviewed", where, detail)

    def check(self, cond, rule, key, where="", ok_detail="", bad_detail=""):
        cond = bool(cond)
        if cond:
            self.ok(rule, key, where, ok_detail)
        else:
            self.violation(rule, key, where, bad_detail or ok_detail)
        return cond

    def floor(self, rule, minimum, why=""):
        """fail closed: `rule` must have matched at least `minimum` instances (counted by hand on the pinned tree)"""
        if self.cfg:
            return      # floors are hand counts of the default configuration; the default run already enforces them
        self.floors[self._rn(rule)] = (minimum, why)

    def note(self, text):
        self.notes.append(text)

    def assume(self, text):
        if text not in self.assumptions:
            self.assumptions.append(text)

    def count(self, what, n=1):
        self.analysed[what] = self.analysed.get(what, 0) + n

    # ---------------------------------------------------------------- finishing
    def finish(self, only_key=None):
        known = load_known().get(self.prop, {})
        # floors
        per_rule = {}
        for i in self.instances:
            per_rule[i["rule"]] = per_rule.get(i["rule"], 0) + 1
        for rule, (mn, why) in self.floors.items():
            n = per_rule.get(rule, 0)
            if n < mn:
                self.violation(rule, "%s#floor" % rule, "",
                               "rule matched %d instance(s), fewer than the %d confirmed by hand on the pinned tree "
                               "(anchor lost or construct removed%s)" % (n, mn, (": " + why) if why else ""))
        viol = [i for i in self.instances if i["verdict"] == "violation"]
        if only_key is not None:
            viol = [i for i in viol if i["key"] == only_key]
        unlisted = [i for i in viol if i["key"] not in known]
        listed = [i for i in viol if i["key"] in known]
        os.makedirs(os.path.join(EVID, "violations"), exist_ok=True)
        # stale replay files of this property
        for fn in os.listdir(os.path.join(EVID, "violations")):
            if fn.startswith(self.prop + "-"):
                try:
                    os.remove(os.path.join(EVID, "violations", fn))
                except OSError:
                    pass
        seen_known = set()
        for i in listed:
            if i["key"] in seen_known:
                continue
            seen_known.add(i["key"])
            print("KNOWN-FINDING: property=%s %s [%s %s]" % (self.prop, known[i["key"]], i["rule"], i["where"]))
        for n, i in enumerate(unlisted):
            path = os.path.join(EVID, "violations", "%s-%d.json" % (self.prop, n))
            with open(path, "w") as fh:
                json.dump(dict(property=self.prop, **i), fh, indent=1)
            print("VIOLATION property=%s replay=%s" % (self.prop, path))
            print("  rule=%s key=%s" % (i["rule"], i["key"]))
            print("  at %s" % (i["where"] or "?"))
            print("  %s" % i["detail"])
        wall = time.time() - self.t0
        self._write_evidence(per_rule, unlisted, listed, wall)
        nviol = len(unlisted)
        nobl = len([i for i in self.instances if i["verdict"] != "note"])
        print("%s %s: %d rule instances over %s; %d violation(s), %d known finding(s), %d reviewed; %.1fs" % (
            self.prop, self.tier, nobl, ", ".join("%s=%d" % kv for kv in sorted(self.analysed.items())) or "-",
            nviol, len(seen_known), len([i for i in self.instances if i["verdict"] == "reviewed"]), wall))
        return 1 if nviol else 0

    def _write_evidence(self, per_rule, unlisted, listed, wall):
        os.makedirs(EVID, exist_ok=True)
        obligations = [i for i in self.instances if i["verdict"] != "note"]
        discharged = [i for i in obligations if i["verdict"] in ("ok", "reviewed")]
        distinct = sorted({(i["rule"], i["key"]) for i in obligations if not i["trivial"]})
        hist = {}
        for i in obligations:
            hist[i["cls"]] = hist.get(i["cls"], 0) + 1
        samples = []
        seen_rules = set()
        for i in self.instances:
            if i["rule"] in seen_rules and len(samples) >= 12:
                continue
            if i["rule"] in seen_rules and sum(1 for s in samples if s["rule"] == i["rule"]) >= 2:
                continue
            seen_rules.add(i["rule"])
            samples.append(dict(rule=i["rule"], key=i["key"], verdict=i["verdict"], where=i["where"],
                                detail=i["detail"][:400]))
            if len(samples) >= 40:
                break
        for i in unlisted + listed:
            samples.append(dict(rule=i["rule"], key=i["key"], verdict="violation", where=i["where"], detail=i["detail"][:400]))
        ev = dict(
            property_id=self.prop,
            tier=self.tier,
            seed=self.seed,
            level="other",
            coverage=dict(
                explanation=self.explanation,
                evaluations=len(obligations),
                distinct_nontrivial=len(distinct),
                rule="one evaluation per rule instance (a call site, cast, panic-capable site, path or table row found in "
                     "/repo's current MIR); distinct_nontrivial counts distinct (rule, instance key) pairs whose verdict needed "
                     "more than a constant fold",
                obligations=len(obligations),
                discharged=len(discharged),
                per_rule=per_rule,
                floors={k: v[0] for k, v in self.floors.items()},
                classes=hist,
                analysed=self.analysed,
                configurations=self.configs,
                samples=samples,
                notes=self.notes,
                known_findings=sorted({i["key"] for i in listed}),
                checker_cmd="./verif check %s%s" % (self.prop, " --thorough" if self.tier == "thorough" else ""),
                trusted_base=["rustc nightly front-end and MIR construction", "cargo feature/cfg computation",
                              "/verif/spec transcriptions of APPNOTE / WinZip AES", "std and dependency contracts"],
                exhaustive=False,
            ),
            assumptions=self.assumptions,
            wall_s=round(wall, 2),
            violations=len(unlisted),
        )
        if self.selftest is not None:
            ev["coverage"]["selftest"] = self.selftest
        with open(os.path.join(EVID, "%s.json" % self.prop), "w") as fh:
            json.dump(ev, fh, indent=1, sort_keys=True)
