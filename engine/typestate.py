"""E6: typestate by abstract interpretation of MIR over a finite abstraction of one object's private state.

The object (here: `ZipWriter`) is abstracted to a handful of *tracked fields* with small domains (booleans, the variant of an
enum field -- nested one level --, emptiness of a Vec, freshness of an accumulator).  `Machine.run(fn, args, sigma)` executes a MIR
body abstractly from the abstract object state `sigma`:

  * locals carry abstract values (constants, known enum variants with their payload, references into the tracked object, struct
    aggregates); everything else is TOP;
  * a branch on a known value follows one edge, a branch on TOP follows all edges; a *read* of a tracked field whose abstract
    value is TOP splits the state into the field's possible values first (so every branch on object state is decided);
  * calls to functions of the crate that receive a reference into the object are executed recursively (memoised summaries);
    a small table models the std functions the writer's state flows through (`mem::replace`, `Option`/`Result` plumbing, `?`,
    `Vec::push`/`last_mut`, `io::copy` into an `impl Write` of the crate);
  * a diverging call (`panic!`, `unwrap` on a known `None`, `unreachable!`) reached with a feasible abstract state is an outcome
    of its own kind.

The result is the set of (outcome, abstract post-state) pairs: an over-approximation of what the body can do from any concrete
state described by `sigma`.  `explore()` closes a set of initial states under a set of API methods: the reachable abstract states
of *every* call sequence, legal or not.  Nothing here executes crate code.
"""
import re

TOP = ("top",)


class TooComplex(Exception):
    pass


class Unsupported(Exception):
    pass


class _Split(Exception):
    def __init__(self, path, nav, choices):
        self.path, self.nav, self.choices = path, nav, choices


def C(v):
    return ("c", int(v))


def VAR(name, payload=TOP):
    return ("var", name, payload)


def TAG(t):
    return ("tag", t)


PANIC_RE = re.compile(r"panicking::|::panic_fmt$|::panic$|expect_failed$|unwrap_failed$|begin_panic|assert_failed|panic_display|unreachable_display|::panic_nounwind")


class Spec:
    """tracked: {path tuple: kind}; kind in bool | enum | vec | fresh | zero"""

    def __init__(self, tracked, analyse_re, write_impl=None):
        self.tracked = dict(tracked)
        self.analyse_re = re.compile(analyse_re)
        self.write_impl = write_impl or {}      # {tracked path of an object part: path of the crate's `impl Write::write` for it} (io::copy / write_all model)

    def coerce(self, path, av):
        k = self.tracked[path]
        if k == "bool":
            return av if av[0] == "c" and av[1] in (0, 1) else TOP
        if k == "enum":
            return av if av[0] == "var" else TOP
        if k == "vec":
            return av if av[0] == "tag" and av[1] in ("empty", "nonempty") else TOP
        if k == "fresh":
            return av if av == TAG("fresh") else TAG("dirty")
        if k == "zero":
            return TAG("zero") if av in (C(0), TAG("zero")) else TAG("dirty")
        if k == "zn":       # a counter abstracted to zero / non-zero; an unknown value is split when it is tested
            if av in (C(0), TAG("zero")):
                return TAG("zero")
            if av == TAG("nonzero") or (av[0] == "c" and av[1] != 0):
                return TAG("nonzero")
            return TOP
        raise KeyError(k)

    def default(self, path):
        k = self.tracked[path]
        return {"bool": C(0), "enum": TOP, "vec": TAG("empty"), "fresh": TAG("fresh"), "zero": TAG("zero"), "zn": TAG("zero")}[k]

    def choices(self, path):
        k = self.tracked[path]
        if k == "bool":
            return [C(0), C(1)]
        if k == "vec":
            return [TAG("empty"), TAG("nonempty")]
        if k == "zn":
            return [TAG("zero"), TAG("nonzero")]
        return None


def freeze(d):
    return tuple(sorted(d.items()))


class Machine:
    def __init__(self, facts, spec, max_configs=60000):
        self.facts = facts
        self.spec = spec
        self.byname = {f.path: f for f in facts.fns}
        self.memo = {}
        self.stack = []
        self.max_configs = max_configs
        self.assumed = set()       # foreign callees that received a reference into the object and were assumed not to change tracked state
        self.nconfigs = 0
        self.payload_variants = set()
        self.adt_vars = {}         # adt path -> [variant names]   (from discriminant reads seen so far + facts.adts)
        for name, adt in (getattr(facts, "adts", None) or {}).items():
            vs = adt.get("variants") or []
            if len(vs) > 1:
                self.adt_vars[name] = [v["name"] for v in vs]
            for v in vs:
                if v.get("fields"):
                    self.payload_variants.add(v["name"])

    # ------------------------------------------------------------------ places
    def _resolve(self, fn, env, place):
        """-> ('trk', path) | ('val', av)"""
        base = env.get(place["l"], TOP)
        cur = ("val", base)
        down = None
        for pr in place["p"]:
            k = pr["k"]
            if cur[0] == "trk":
                if k == "deref":
                    continue
                if k == "field":
                    nm = pr.get("n")
                    cur = ("trk", cur[1] + ((nm if nm is not None else str(pr.get("i"))),))
                elif k == "downcast":
                    cur = ("trk", cur[1] + ("@" + str(pr["v"]),))
                else:
                    cur = ("trk", cur[1] + ("[]",))
                continue
            av = cur[1]
            if k == "deref":
                if av[0] == "ref":
                    cur = ("trk", av[1])
                elif av[0] == "lref":
                    cur = ("val", env.get(av[1], TOP))
                elif av[0] == "vref":
                    cur = ("val", av[1])
                else:
                    cur = ("val", TOP)
            elif k == "downcast":
                down = str(pr["v"])
                if av[0] == "var" and av[1] != down:
                    cur = ("val", ("bot",))
            elif k == "field":
                nm = pr.get("n")
                idx = pr.get("i")
                if av[0] == "var":
                    cur = ("val", av[2] if str(idx) in ("0", "None") or idx in (0, None) else TOP)
                elif av[0] == "struct":
                    d = dict(av[2])
                    cur = ("val", d.get(nm if nm is not None else str(idx), TOP))
                elif av[0] == "own":
                    cur = ("trk", av[1] + ((nm if nm is not None else str(idx)),))
                else:
                    cur = ("val", TOP)
            else:
                cur = ("val", TOP)
        if cur[0] == "val" and cur[1][0] == "own" and not place["p"]:
            return ("trk", cur[1][1])
        return cur

    def _tracked_prefix(self, path):
        for i in range(len(path), -1, -1):
            if path[:i] in self.spec.tracked:
                return path[:i], path[i:]
        return None, None

    def _read_trk(self, sigma, path, want=None, vars_=None):
        """abstract value stored at a tracked path; splits the state when a decision needs a value that is TOP"""
        P, rest = self._tracked_prefix(path)
        if P is None:
            return TOP
        av = sigma[P]
        nav = ()
        for el in rest:
            if el.startswith("@"):
                if av[0] == "var":
                    if av[1] != el[1:]:
                        return ("bot",)
                elif av == TOP:
                    return TOP
                nav = nav + (el,)
            else:
                if av[0] == "var":
                    av = av[2] if el in ("0",) else TOP
                    nav = nav + (el,)
                else:
                    return TOP
        if av == TOP and want is not None:
            ch = self.spec.choices(P) if not rest else None
            if ch is None and vars_:
                ch = [VAR(n) for _, n in vars_]
            if ch:
                raise _Split(P, tuple(x for x in rest), ch)
        return av

    @staticmethod
    def _set_nav(av, nav, new):
        """replace the sub-value of `av` addressed by nav (sequence of '@V' / '0') with new"""
        if not nav:
            return new
        el = nav[0]
        if el.startswith("@"):
            if av[0] == "var" and av[1] == el[1:]:
                return VAR(av[1], Machine._set_nav(av[2], nav[1:], new)) if nav[1:] else av
            return VAR(el[1:], Machine._set_nav(TOP, nav[1:], new)) if nav[1:] else VAR(el[1:])
        if av[0] == "var":
            return VAR(av[1], Machine._set_nav(av[2], nav[1:], new))
        return TOP

    def _write_trk(self, sigma, path, av):
        P, rest = self._tracked_prefix(path)
        if P is not None:
            if not rest:
                sigma[P] = self.spec.coerce(P, av)
            else:
                k = self.spec.tracked[P]
                sigma[P] = self._set_nav(sigma[P], rest, av) if k == "enum" else self.spec.coerce(P, TOP)
            return
        # a prefix of tracked paths (the whole object / a sub-record) is overwritten
        for Q in self.spec.tracked:
            if Q[:len(path)] == path:
                sub = Q[len(path):]
                v = av
                for el in sub:
                    if v[0] == "struct":
                        v = dict(v[2]).get(el, TOP)
                    elif v[0] == "default":
                        v = ("default",)
                    else:
                        v = TOP
                sigma[Q] = self.spec.default(Q) if v == ("default",) else self.spec.coerce(Q, v)

    def _havoc(self, sigma, path):
        """foreign code holds `&mut` to `path`: every tracked field at or below it becomes unknown.  A reference that points strictly
        *inside* a tracked enum's payload (`&mut W` obtained from `Storer(Unencrypted(w))`) cannot change the enclosing variant."""
        for Q in self.spec.tracked:
            if Q[:len(path)] == path:
                sigma[Q] = self.spec.coerce(Q, TOP)

    # ------------------------------------------------------------------ operands / rvalues
    def _operand(self, fn, env, sigma, op, decide=False, vars_=None):
        if op["k"] == "const":
            if "v" in op and op["v"] is not None:
                try:
                    return C(op["v"])
                except (TypeError, ValueError):
                    return TOP
            return TOP
        r = self._resolve(fn, env, op["place"])
        if r[0] == "trk":
            P, rest = self._tracked_prefix(r[1])
            if P is None:
                # a by-value use of an untracked part of the object (or the object itself)
                return ("own", r[1]) if any(Q[:len(r[1])] == r[1] for Q in self.spec.tracked) and not op["place"]["p"] else TOP
            kind = self.spec.tracked[P]
            return self._read_trk(sigma, r[1], want=True if (decide or kind in ("bool", "zn")) else None, vars_=vars_)
        return r[1]

    def _rvalue(self, fn, env, sigma, rv):
        k = rv["k"]
        if k == "use":
            return self._operand(fn, env, sigma, rv["op"])
        if k in ("ref", "rawptr"):
            pl = rv["place"]
            r = self._resolve(fn, env, pl)
            if r[0] == "trk":
                return ("ref", r[1])
            if not pl["p"]:
                return ("lref", pl["l"])
            if not rv.get("mut") and r[0] == "val" and r[1][0] in ("var", "c", "struct", "vref"):
                return r[1] if r[1][0] == "vref" else ("vref", r[1])
            # &(*_x) reborrow of a reference held in a local
            if [q["k"] for q in pl["p"]] == ["deref"]:
                b = env.get(pl["l"], TOP)
                if b[0] in ("ref", "lref"):
                    return b
            return TOP
        if k == "discr":
            pl = rv["place"]
            vars_ = rv.get("vars") or []
            if rv.get("adt") and vars_:
                self.adt_vars.setdefault(rv["adt"], [n for _, n in vars_])
            r = self._resolve(fn, env, pl)
            av = self._read_trk(sigma, r[1], want=True, vars_=vars_) if r[0] == "trk" else r[1]
            if av[0] == "var":
                hit = [int(i) for i, n in vars_ if n == av[1]]
                if len(hit) == 1:
                    return C(hit[0])
            if av[0] == "tag" and av[1] in ("empty", "nonempty"):
                return TOP
            return TOP
        if k == "agg":
            if rv.get("ak") == "adt":
                ops = [self._operand(fn, env, sigma, o) for o in rv["ops"]]
                fs = rv.get("fields") or []
                variant = rv.get("variant")
                adt = rv.get("adt") or ""
                nvars = len(self.adt_vars.get(adt, ())) if adt in self.adt_vars else None
                is_enum = adt.startswith("std::result::Result") or adt.startswith("std::option::Option") or adt.startswith("std::ops::ControlFlow") or (nvars or 0) > 1
                if is_enum:
                    return VAR(str(variant), ops[0] if ops else TOP)
                if fs and len(fs) == len(ops):
                    return ("struct", adt, tuple(sorted(zip(fs, ops))))
                return VAR(str(variant), ops[0] if ops else TOP) if variant not in (None, adt.split("::")[-1]) else TOP
            return TOP
        if k == "unop":
            a = self._operand(fn, env, sigma, rv["a"], decide=True)
            if rv["op"] == "Not" and a[0] == "c" and a[1] in (0, 1):
                return C(1 - a[1])
            return TOP
        if k == "binop":
            a = self._operand(fn, env, sigma, rv["a"])
            b = self._operand(fn, env, sigma, rv["b"])
            # zero / non-zero counters compared with the literal 0
            for x, y, flip in ((a, b, False), (b, a, True)):
                if x[0] == "tag" and x[1] in ("zero", "nonzero") and y == C(0):
                    z = x[1] == "zero"
                    op = rv["op"]
                    if flip:
                        op = {"Lt": "Gt", "Gt": "Lt", "Le": "Ge", "Ge": "Le"}.get(op, op)
                    r_ = {"Eq": z, "Ne": not z, "Gt": not z, "Le": z, "Ge": True, "Lt": False}.get(op)
                    if r_ is not None:
                        return C(1 if r_ else 0)
            if a[0] == "c" and b[0] == "c":
                op = rv["op"]
                f = {"Eq": lambda: int(a[1] == b[1]), "Ne": lambda: int(a[1] != b[1]), "BitAnd": lambda: a[1] & b[1], "BitOr": lambda: a[1] | b[1],
                     "BitXor": lambda: a[1] ^ b[1], "Lt": lambda: int(a[1] < b[1]), "Le": lambda: int(a[1] <= b[1]), "Gt": lambda: int(a[1] > b[1]),
                     "Ge": lambda: int(a[1] >= b[1])}.get(op)
                if f:
                    return C(f())
            return TOP
        if k == "cast":
            a = self._operand(fn, env, sigma, rv.get("op") or rv.get("a"))
            return a if a[0] in ("c", "ref", "lref") else TOP
        return TOP

    def _assign(self, fn, env, sigma, place, av):
        if not place["p"]:
            b = env.get(place["l"])
            if b is not None and b[0] == "own":
                self._write_trk(sigma, b[1], av)
                return
            if av == TOP:
                env.pop(place["l"], None)
            else:
                env[place["l"]] = av
            return
        r = self._resolve(fn, env, place)
        if r[0] == "trk":
            self._write_trk(sigma, r[1], av)
        else:
            # write through a projection of a local value we may be tracking: forget that local (conservative)
            b = env.get(place["l"])
            if b is not None and b[0] == "struct" and place["p"][0]["k"] == "field":
                # a field of a record held in a local is (partly) overwritten: only that field changes
                fld = place["p"][0].get("n")
                fld = fld if fld is not None else str(place["p"][0].get("i"))
                d = dict(b[2])
                d[fld] = av if len(place["p"]) == 1 else TOP
                env[place["l"]] = ("struct", b[1], tuple(sorted(d.items())))
            elif b is not None and b[0] in ("var", "struct"):
                env.pop(place["l"], None)

    # ------------------------------------------------------------------ calls
    def _call(self, fn, env, sigma, t):
        """-> list of (env', sigma', kind) with kind 'next' | ('panic', site)"""
        callee = t.get("resolved") or t.get("callee") or "<indirect>"
        name = t.get("callee") or callee
        args = [self._operand(fn, env, sigma, a) for a in t["args"]]
        site = "%s @ %s" % (fn.path.split("::")[-1], t.get("span"))

        def done(av, sg=None):
            e2 = dict(env)
            s2 = dict(sg if sg is not None else sigma)
            self._assign(fn, e2, s2, t["dest"], av)
            return [(e2, s2, "next")]

        if t.get("target") is None or PANIC_RE.search(name):
            # a panic that is reached because a test of the *object's state* went this way is a typestate panic; one behind a
            # test of data the abstraction does not model (assert_eq! on offsets, unwrap of a parsed value) is the panic
            # inventory's business (E3) and is not reported here
            return [(env, sigma, ("panic", site))] if env.get(-1) == C(1) else []
        short = name.split("::")[-1]
        a0 = args[0] if args else TOP
        # ---- std plumbing
        if re.search(r"mem::replace$", name) and len(args) == 2 and a0[0] == "ref":
            old = self._read_trk(sigma, a0[1])
            s2 = dict(sigma)
            self._write_trk(s2, a0[1], args[1])
            return done(old, s2)
        if re.search(r"mem::take$", name) and a0[0] == "ref":
            old = self._read_trk(sigma, a0[1])
            s2 = dict(sigma)
            self._write_trk(s2, a0[1], ("default",))
            return done(old, s2)
        if re.search(r"mem::(replace|take|swap)$", name) and a0[0] == "lref":
            old = env.get(a0[1], TOP)
            e2 = dict(env)
            if len(args) == 2 and args[1] != TOP and short == "replace":
                e2[a0[1]] = args[1]
            else:
                e2.pop(a0[1], None)
            s2 = dict(sigma)
            self._assign(fn, e2, s2, t["dest"], old)
            return [(e2, s2, "next")]
        if re.search(r"Vec::<[^>]*>::(new|with_capacity)$|Vec::new$", name):
            return done(TAG("empty"))
        if re.search(r"crc32fast::Hasher::new$|Hasher as std::default::Default>::default$", name):
            return done(TAG("fresh"))
        if re.search(r"Default::default$", name) and not t.get("resolved_local"):
            return done(("default",))
        if a0[0] == "ref" and self.spec.tracked.get(a0[1]) == "vec":
            if re.search(r"::push$", name):
                s2 = dict(sigma)
                s2[a0[1]] = TAG("nonempty")
                return done(TOP, s2)
            if re.search(r"::(last|last_mut|first|first_mut)$", name):
                v = self._read_trk(sigma, a0[1], want=True)
                return done(VAR("Some") if v == TAG("nonempty") else VAR("None"))
            if re.search(r"::is_empty$", name):
                v = self._read_trk(sigma, a0[1], want=True)
                return done(C(1 if v == TAG("empty") else 0))
            if re.search(r"::(deref|deref_mut|as_mut_slice|as_slice|as_mut|as_ref|iter|iter_mut|borrow|borrow_mut)$", name):
                return done(a0)
            if re.search(r"::(len|capacity|get|get_mut|index|index_mut|into_iter|next|as_ptr)$", name):
                return done(TOP)
            if re.search(r"::(pop|remove|swap_remove|clear|truncate|drain|retain|split_off)$", name):
                s2 = dict(sigma)
                s2[a0[1]] = TOP
                return done(TOP, s2)
        if re.search(r"::(deref|deref_mut)$", name) and a0[0] in ("ref", "lref"):
            return done(a0)
        if re.search(r"Option::<T>::(unwrap|expect)$|Result::<T, E>::(unwrap|expect)$", name):
            if a0[0] == "var":
                if a0[1] in ("None", "Err"):
                    return [(env, sigma, ("panic", site + " (%s() on a value that is %s in this state)" % (short, a0[1])))]
                return done(a0[2])
            return done(TOP)
        if re.search(r"Option::<T>::take$", name) and a0[0] == "ref":
            old = self._read_trk(sigma, a0[1], want=True, vars_=[(0, "None"), (1, "Some")])
            s2 = dict(sigma)
            self._write_trk(s2, a0[1], VAR("None"))
            return done(old, s2)
        if re.search(r"Option::<T>::(is_none|is_some)$|Result::<T, E>::(is_ok|is_err)$", name):
            v = a0
            if v[0] == "lref":
                v = env.get(v[1], TOP)
            if v[0] == "var":
                yes = {"is_none": "None", "is_some": "Some", "is_ok": "Ok", "is_err": "Err"}[short]
                return done(C(1 if v[1] == yes else 0))
            return done(TOP)
        if re.search(r"Option::<T>::(ok_or|ok_or_else)$", name):
            if a0[0] == "var":
                return done(VAR("Ok", a0[2]) if a0[1] == "Some" else VAR("Err"))
            return done(TOP)
        if re.search(r"Result::<T, E>::(map_err|map|or_else|and_then)$|Option::<T>::(map|and_then|or_else|filter)$", name):
            if a0[0] == "var":
                if short == "map_err" and a0[1] == "Err":
                    return done(VAR("Err"))
                if short == "map_err":
                    return done(a0)
                if short == "map":
                    return done(VAR(a0[1]) if a0[1] in ("Ok", "Some") else a0)
                if short in ("and_then", "filter") and a0[1] in ("Err", "None"):
                    return done(a0)
                if short == "or_else" and a0[1] in ("Ok", "Some"):
                    return done(a0)
            return done(TOP)
        if re.search(r"Result::<T, E>::ok$", name):
            if a0[0] == "var":
                return done(VAR("Some", a0[2]) if a0[1] == "Ok" else VAR("None"))
            return done(TOP)
        if re.search(r"Try::branch$", name):
            if a0[0] == "var":
                if a0[1] in ("Ok", "Some"):
                    return done(VAR("Continue", a0[2]))
                return done(VAR("Break", VAR(a0[1], a0[2])))
            return done(TOP)
        if re.search(r"FromResidual.*::from_residual$|from_residual$", name):
            ty = (t["dest"].get("ty") or "") + (fn.locals[t["dest"]["l"]].get("ty") or "")
            return done(VAR("None") if "Option<" in ty and "Result<" not in ty.split("Option<")[0] and not ty.strip().startswith("std::result::Result") else VAR("Err"))
        if re.search(r"convert::(Into|From)(<[^>]*>)?::(into|from)$|::into$|::from$", name) and len(args) == 1:
            return done(a0 if a0[0] in ("var", "c") else TOP)
        if re.search(r"Clone::clone$|::clone$", name) and a0[0] == "ref":
            return done(self._read_trk(sigma, a0[1]))
        if re.search(r"cmp::PartialEq(<[^>]*>)?::(eq|ne)$", name) and len(args) == 2:
            x, y = [self._deref_val(env, sigma, a) for a in args]
            if x[0] == "var" and y[0] == "var":
                if x[1] != y[1]:
                    return done(C(0 if short == "eq" else 1))
                if x[2] == TOP and y[2] == TOP and not self._has_payload(x[1]):
                    return done(C(1 if short == "eq" else 0))
            return done(TOP)
        # compressors own the sink they are given and hand it back from finish() (contract of flate2 / bzip2 / zstd encoders)
        if re.search(r"(DeflateEncoder|BzEncoder|ZlibEncoder|GzEncoder)::<[^>]*>::new$", name) and args:
            return done(a0 if a0[0] == "var" else TOP)
        if re.search(r"zstd::(stream::write::)?Encoder::<[^>]*>::new$", name) and args:
            return done(VAR("Ok", a0) if a0[0] == "var" else TOP)
        if re.search(r"(DeflateEncoder|BzEncoder|ZlibEncoder|GzEncoder|Encoder)::<[^>]*>::finish$", name) and args and not t.get("resolved_local"):
            return done(VAR("Ok", a0) if a0[0] == "var" else TOP)
        if re.search(r"^std::io::copy$|io::copy::<", name) and len(args) == 2 and args[1][0] == "ref" and args[1][1] in self.spec.write_impl:
            return self._io_copy(fn, env, sigma, t, args[1], site)
        if re.search(r"io::Write::(write_all|write_fmt)$|WriteBytesExt::write_\w+$", name) and not t.get("resolved_local") and a0[0] == "ref" and a0[1] in self.spec.write_impl:
            return self._io_copy(fn, env, sigma, t, a0, site)
        # ---- functions of the crate that see the object
        target = self.byname.get(callee) or self.byname.get(name)
        sees = any(a[0] in ("ref", "own") for a in args)
        # references to the caller's locals do not survive the frame change: a shared one is passed as the value it points to, a
        # mutable one is passed as unknown and the local is forgotten afterwards
        forget = []
        for i, a in enumerate(args):
            if a[0] == "lref":
                ty = fn.locals[t["args"][i]["place"]["l"]].get("ty") or "" if t["args"][i]["k"] != "const" else ""
                if ty.startswith("&mut"):
                    forget.append(a[1])
                    args[i] = TOP
                else:
                    v = env.get(a[1], TOP)
                    args[i] = ("vref", v) if v[0] in ("var", "c", "struct") else TOP
        if forget:
            env = dict(env)
            for l in forget:
                env.pop(l, None)
        if target is not None and (sees or self.spec.analyse_re.search(target.path)):
            outs = self.run(target, args, sigma)
            res = []
            for kind, rav, s2 in outs:
                if kind == "ret":
                    e2 = dict(env)
                    s3 = dict(s2)
                    self._assign(fn, e2, s3, t["dest"], rav)
                    res.append((e2, s3, "next"))
                else:
                    res.append((env, dict(s2), kind))
            return res
        # ---- anything else: a foreign callee.  A mutable reference into the object makes the parts it can reach unknown.
        s2 = None
        for i, a in enumerate(args):
            if a[0] == "ref":
                ty = (t["args"][i].get("place") or {}).get("ty") or ""
                if t["args"][i]["k"] != "const":
                    ty = fn.locals[t["args"][i]["place"]["l"]].get("ty") or ty
                if ty.startswith("&mut"):
                    if a[1] == ():
                        raise Unsupported("the whole object is handed to foreign code: %s at %s" % (name, site))
                    s2 = dict(sigma) if s2 is None else s2
                    self._havoc(s2, a[1])
                else:
                    self.assumed.add(name)
        return done(TOP, s2)

    def _deref_val(self, env, sigma, a):
        if a[0] == "vref":
            return a[1]
        if a[0] == "lref":
            return env.get(a[1], TOP)
        if a[0] == "ref":
            return self._read_trk(sigma, a[1])
        return a

    def _has_payload(self, variant):
        return variant in self.payload_variants

    def _io_copy(self, fn, env, sigma, t, dst, site):
        """io::copy(reader, &mut object): zero or more object.write(buf) calls; stops at the first error"""
        w = self.byname[self.spec.write_impl[dst[1]]]
        seen = {freeze(sigma)}
        work = [dict(sigma)]
        res = []
        while work:
            s = work.pop()
            # the copy may end here (source exhausted) ...
            e2 = dict(env)
            s3 = dict(s)
            self._assign(fn, e2, s3, t["dest"], VAR("Ok"))
            res.append((e2, s3, "next"))
            # ... or the source failed
            e2 = dict(env)
            s3 = dict(s)
            self._assign(fn, e2, s3, t["dest"], VAR("Err"))
            res.append((e2, s3, "next"))
            for kind, rav, s2 in self.run(w, [dst, TOP], s):
                if kind != "ret":
                    res.append((env, dict(s2), kind))
                elif rav[0] == "var" and rav[1] == "Err":
                    e2 = dict(env)
                    s3 = dict(s2)
                    self._assign(fn, e2, s3, t["dest"], VAR("Err"))
                    res.append((e2, s3, "next"))
                else:
                    k = freeze(s2)
                    if k not in seen:
                        seen.add(k)
                        work.append(dict(s2))
        return res

    # ------------------------------------------------------------------ bodies
    def run(self, fn, args, sigma):
        """-> list of (kind, ret_av, sigma') with kind 'ret' | ('panic', site); deduplicated"""
        key = (fn.path, tuple(args), freeze(sigma))
        if key in self.memo:
            return self.memo[key]
        if fn.path in self.stack:
            raise Unsupported("recursion through %s" % fn.path)
        self.stack.append(fn.path)
        try:
            env0 = {}
            for i, a in enumerate(args[:fn.arg_count]):
                if a != TOP:
                    env0[i + 1] = a
            out = {}
            seen = set()
            work = [(0, env0, dict(sigma))]
            while work:
                bb, env, sg = work.pop()
                k = (bb, freeze(env), freeze(sg))
                if k in seen:
                    continue
                seen.add(k)
                self.nconfigs += 1
                if len(seen) > self.max_configs:
                    raise TooComplex("%s: more than %d abstract configurations" % (fn.path, self.max_configs))
                try:
                    succ = self._step(fn, bb, dict(env), dict(sg))
                except _Split as sp:
                    for ch in sp.choices:
                        s2 = dict(sg)
                        s2[sp.path] = self._set_nav(s2[sp.path], sp.nav, ch) if sp.nav else ch
                        work.append((bb, env, s2))
                    continue
                for item in succ:
                    if item[0] == "goto":
                        work.append((item[1], item[2], item[3]))
                    else:
                        kind, rav, s2 = item
                        out[(kind, rav, freeze(s2))] = (kind, rav, s2)
            res = list(out.values())
        finally:
            self.stack.pop()
        self.memo[key] = res
        return res

    def _step(self, fn, bb, env, sg):
        b = fn.blocks[bb]
        for s in b["stmts"]:
            if s["k"] != "assign":
                continue
            av = self._rvalue(fn, env, sg, s["rv"])
            if av == ("bot",):
                return []
            self._assign(fn, env, sg, s["place"], av)
        t = fn.term(bb)
        if t is None:
            return []
        k = t["k"]
        if k == "return":
            return [("ret", env.get(0, TOP), sg)]
        if k in ("unreachable", "resume", "terminate"):
            return []
        if k in ("goto", "assert", "drop"):
            return [("goto", t["target"], env, sg)]
        if k == "switch":
            d = self._operand(fn, env, sg, t["discr"], decide=True)
            targets = [(v, b2) for v, b2 in t["targets"]]
            if d[0] == "c":
                tgt = t["otherwise"]
                for v, b2 in targets:
                    if int(v) == d[1]:
                        tgt = b2
                env[-1] = C(1)
                return [("goto", tgt, env, sg)]
            env.pop(-1, None)
            outs = []
            for v, b2 in targets + [(None, t["otherwise"])]:
                tb = fn.term(b2)
                if tb is not None and tb["k"] == "unreachable" and not fn.blocks[b2]["stmts"]:
                    continue
                e2 = dict(env)
                # remember the decision when the discriminant is a plain local (a later test of the same local agrees)
                dp = t["discr"].get("place") if t["discr"]["k"] != "const" else None
                if dp is not None and not dp["p"] and v is not None:
                    e2[dp["l"]] = C(v)
                outs.append(("goto", b2, e2, dict(sg)))
            return outs
        if k == "call":
            res = []
            for e2, s2, kind in self._call(fn, env, sg, t):
                if kind == "next":
                    res.append(("goto", t["target"], e2, s2))
                else:
                    res.append((kind, TOP, s2))
            return res
        return []


def outcome_of(rav):
    if rav[0] == "var" and rav[1] in ("Ok", "Err", "Some", "None"):
        return rav[1]
    return "value"


def show_state(sigma, order=None):
    def sh(v):
        if v == TOP:
            return "?"
        if v[0] == "c":
            return str(v[1])
        if v[0] == "tag":
            return v[1]
        if v[0] == "var":
            return v[1] + ("(" + sh(v[2]) + ")" if v[2] != TOP and v[2][0] == "var" else "")
        return str(v[0])
    keys = order or sorted(sigma)
    return " ".join("%s=%s" % (".".join(k), sh(sigma[k])) for k in keys)


def explore(machine, inits, methods, bind, dead_after=(), max_states=5000):
    """close the abstract states `inits` [(label, sigma)] under `methods` [(label, fn)]; bind(fn, sigma) -> args.
    -> (states {frozen: (sigma, parent_key, via_label)}, transitions [(src_key, label, kind, outcome, dst_key, rav)])"""
    states = {}
    trans = []
    work = []
    for lab, sg in inits:
        k = freeze(sg)
        if k not in states:
            states[k] = (dict(sg), None, lab)
            work.append(k)
    while work:
        k = work.pop(0)
        sg = states[k][0]
        for lab, fn in methods:
            for kind, rav, s2 in machine.run(fn, bind(fn, sg), sg):
                k2 = freeze(s2)
                oc = outcome_of(rav) if kind == "ret" else "panic"
                trans.append((k, lab, kind, oc, k2, rav))
                if kind == "ret" and lab not in dead_after and k2 not in states:
                    states[k2] = (dict(s2), k, "%s:%s" % (lab, oc))
                    work.append(k2)
                    if len(states) > max_states:
                        raise TooComplex("more than %d reachable abstract states" % max_states)
    return states, trans


def trace(states, k):
    out = []
    while k is not None:
        sg, parent, via = states[k]
        out.append(via)
        k = parent
    return " -> ".join(reversed(out))
