// Demonstrations of the genuine defects F1..F15 found by the static rules of /verif
// (see DESIGN.md §4 and KNOWN_FINDINGS.txt). Each test states the behaviour the property
// requires; it FAILS on the pinned snapshot and PASSES once the corresponding `fix:` commit
// is applied. This file is evidence for triage only -- no check in MANIFEST.json runs it.
//
// Run (in a scratch worktree of /repo):  cp findings_demo.rs <wt>/tests/ && cargo test --offline --test findings_demo
use std::io::{self, Cursor, Read, Seek, SeekFrom, Write};
use zip::result::ZipError;

// ------------------------------------------------------------------ helpers
fn le16(v: u16) -> [u8; 2] { v.to_le_bytes() }
fn le32(v: u32) -> [u8; 4] { v.to_le_bytes() }

/// one-entry archive written from APPNOTE by hand
#[allow(clippy::too_many_arguments)]
fn mk_zip(name: &[u8], flags: u16, method: u16, crc: u32, csize: u32, usize_: u32,
          local_extra: &[u8], central_extra: &[u8], data: &[u8], lfh_offset_field: u32) -> Vec<u8> {
    let mut z = Vec::new();
    // local header
    z.extend_from_slice(&le32(0x04034b50));
    z.extend_from_slice(&le16(20)); z.extend_from_slice(&le16(flags)); z.extend_from_slice(&le16(method));
    z.extend_from_slice(&le16(0)); z.extend_from_slice(&le16(0x21));
    z.extend_from_slice(&le32(crc)); z.extend_from_slice(&le32(csize)); z.extend_from_slice(&le32(usize_));
    z.extend_from_slice(&le16(name.len() as u16)); z.extend_from_slice(&le16(local_extra.len() as u16));
    z.extend_from_slice(name); z.extend_from_slice(local_extra); z.extend_from_slice(data);
    let cd_start = z.len() as u32;
    z.extend_from_slice(&le32(0x02014b50));
    z.extend_from_slice(&le16(0x031e)); z.extend_from_slice(&le16(20)); z.extend_from_slice(&le16(flags));
    z.extend_from_slice(&le16(method)); z.extend_from_slice(&le16(0)); z.extend_from_slice(&le16(0x21));
    z.extend_from_slice(&le32(crc)); z.extend_from_slice(&le32(csize)); z.extend_from_slice(&le32(usize_));
    z.extend_from_slice(&le16(name.len() as u16)); z.extend_from_slice(&le16(central_extra.len() as u16));
    z.extend_from_slice(&le16(0)); z.extend_from_slice(&le16(0)); z.extend_from_slice(&le16(0));
    z.extend_from_slice(&le32(0o100644 << 16)); z.extend_from_slice(&le32(lfh_offset_field));
    z.extend_from_slice(name); z.extend_from_slice(central_extra);
    let cd_size = z.len() as u32 - cd_start;
    z.extend_from_slice(&le32(0x06054b50));
    z.extend_from_slice(&le16(0)); z.extend_from_slice(&le16(0)); z.extend_from_slice(&le16(1)); z.extend_from_slice(&le16(1));
    z.extend_from_slice(&le32(cd_size)); z.extend_from_slice(&le32(cd_start)); z.extend_from_slice(&le16(0));
    z
}

fn aes_extra(version: u16, strength: u8, method: u16) -> Vec<u8> {
    let mut e = Vec::new();
    e.extend_from_slice(&le16(0x9901)); e.extend_from_slice(&le16(7));
    e.extend_from_slice(&le16(version)); e.extend_from_slice(&le16(0x4541)); e.push(strength);
    e.extend_from_slice(&le16(method));
    e
}

/// Read+Seek wrapper that hands out at most `chunk` bytes per read call
struct ShortReads<R> { inner: R, chunk: usize }
impl<R: Read> Read for ShortReads<R> {
    fn read(&mut self, buf: &mut [u8]) -> io::Result<usize> {
        let n = buf.len().min(self.chunk);
        self.inner.read(&mut buf[..n])
    }
}
impl<R: Seek> Seek for ShortReads<R> {
    fn seek(&mut self, p: SeekFrom) -> io::Result<u64> { self.inner.seek(p) }
}

fn no_panic<T>(f: impl FnOnce() -> T + std::panic::UnwindSafe) -> Result<T, String> {
    std::panic::catch_unwind(f).map_err(|e| {
        if let Some(s) = e.downcast_ref::<&str>() { s.to_string() }
        else if let Some(s) = e.downcast_ref::<String>() { s.clone() } else { "panic".into() }
    })
}

// ------------------------------------------------------------------ F1 (C09, C15)
#[test]
fn f1_zipcrypto_short_reads() {
    use zip::unstable::write::FileOptionsExt;
    let mut buf = Cursor::new(Vec::new());
    {
        let mut w = zip::ZipWriter::new(&mut buf);
        let o = zip::write::FileOptions::default()
            .compression_method(zip::CompressionMethod::Stored)
            .with_deprecated_encryption(b"password");
        w.start_file("a.txt", o).unwrap();
        w.write_all(&(0..200u8).collect::<Vec<_>>()).unwrap();
        w.finish().unwrap();
    }
    let bytes = buf.into_inner();
    let mut ar = zip::ZipArchive::new(ShortReads { inner: Cursor::new(bytes), chunk: 7 }).unwrap();
    let mut f = ar.by_index_decrypt(0, b"password").unwrap().unwrap();
    let mut out = Vec::new();
    f.read_to_end(&mut out).expect("read under short reads must give the same result");
    assert_eq!(out, (0..200u8).collect::<Vec<_>>());
}

// ------------------------------------------------------------------ F2 (C05, C16)
#[test]
fn f2_aes_extra_without_encrypted_flag_no_password() {
    let extra = aes_extra(2, 1, 0);
    let z = mk_zip(b"a", 0 /* bit0 clear */, 99, 0, 30, 2, &extra, &extra, &[0u8; 30], 0);
    let r = no_panic(move || {
        let mut ar = zip::ZipArchive::new(Cursor::new(z)).unwrap();
        let res = ar.by_index(0).map(|_| ());
        let res2 = ar.by_name("a").map(|_| ());
        (res.is_err(), res2.is_err())
    });
    assert_eq!(r, Ok((true, true)), "by_index/by_name must return an error, not panic");
}

// ------------------------------------------------------------------ F3 (C05)
#[test]
fn f3_stream_method_99_no_panic() {
    let z = mk_zip(b"a", 0, 99, 0, 4, 4, &[], &[], b"abcd", 0);
    let r = no_panic(move || {
        let mut c = Cursor::new(z);
        let r = zip::read::read_zipfile_from_stream(&mut c);
        match r {
            Ok(Some(mut f)) => { let mut v = Vec::new(); f.read_to_end(&mut v).is_err() }
            Ok(None) => false,
            Err(_) => true,
        }
    });
    assert_eq!(r, Ok(true), "method 99 in a local header must be refused with an error");
}

// ------------------------------------------------------------------ F4 (C05, C16)
#[test]
fn f4_aes_entry_shorter_than_overhead() {
    let extra = aes_extra(2, 1, 0);
    let z = mk_zip(b"a", 1, 99, 0, 5, 0, &extra, &extra, &[0u8; 5], 0);
    let r = no_panic(move || {
        let mut ar = zip::ZipArchive::new(Cursor::new(z)).unwrap();
        let x = match ar.by_index_decrypt(0, b"pw") { Ok(Ok(_)) => "opened", Ok(Err(_)) => "invalid-password", Err(_) => "error" };
        x
    });
    assert!(matches!(r, Ok("error") | Ok("invalid-password")), "got {:?}", r);
}

// ------------------------------------------------------------------ F5 (C05): needs a sparse 2^64-byte source
struct Sparse { chunks: Vec<(u64, Vec<u8>)>, len: u64, pos: u64 }
impl Read for Sparse {
    fn read(&mut self, buf: &mut [u8]) -> io::Result<usize> {
        if self.pos >= self.len || buf.is_empty() { return Ok(0); }
        for (start, data) in &self.chunks {
            let end = *start + data.len() as u64;
            if self.pos >= *start && self.pos < end {
                let off = (self.pos - *start) as usize;
                let n = buf.len().min(data.len() - off);
                buf[..n].copy_from_slice(&data[off..off + n]);
                self.pos += n as u64;
                return Ok(n);
            }
        }
        // hole: zeros up to the next chunk / end
        let next = self.chunks.iter().map(|c| c.0).filter(|s| *s > self.pos).min().unwrap_or(self.len);
        let n = (buf.len() as u64).min(next - self.pos) as usize;
        for b in &mut buf[..n] { *b = 0; }
        self.pos += n as u64;
        Ok(n)
    }
}
impl Seek for Sparse {
    fn seek(&mut self, p: SeekFrom) -> io::Result<u64> {
        let np: i128 = match p {
            SeekFrom::Start(n) => n as i128,
            SeekFrom::End(n) => self.len as i128 + n as i128,
            SeekFrom::Current(n) => self.pos as i128 + n as i128,
        };
        if np < 0 || np > u64::MAX as i128 { return Err(io::Error::new(io::ErrorKind::InvalidInput, "seek")); }
        self.pos = np as u64;
        Ok(self.pos)
    }
}

#[test]
fn f5_local_header_near_u64_max() {
    // local header at P = LEN-400 whose extra-length field is 0xFFFF: P + 30 + 1 + 65535 > u64::MAX
    let len: u64 = u64::MAX;
    let p: u64 = len - 400;
    let mut lfh = Vec::new();
    lfh.extend_from_slice(&le32(0x04034b50));
    lfh.extend_from_slice(&[20, 0, 0, 0, 0, 0, 0, 0, 0x21, 0]);
    lfh.extend_from_slice(&le32(0)); lfh.extend_from_slice(&le32(0)); lfh.extend_from_slice(&le32(0));
    lfh.extend_from_slice(&le16(1)); lfh.extend_from_slice(&le16(0xFFFF)); lfh.push(b'a');
    // central directory + EOCD at the very end; ZIP64 extra carries the 64-bit header offset
    let mut z64 = Vec::new();
    z64.extend_from_slice(&le16(1)); z64.extend_from_slice(&le16(8)); z64.extend_from_slice(&p.to_le_bytes());
    let mut cd = Vec::new();
    cd.extend_from_slice(&le32(0x02014b50));
    cd.extend_from_slice(&le16(0x031e)); cd.extend_from_slice(&le16(45)); cd.extend_from_slice(&le16(0));
    cd.extend_from_slice(&le16(0)); cd.extend_from_slice(&le16(0)); cd.extend_from_slice(&le16(0x21));
    cd.extend_from_slice(&le32(0)); cd.extend_from_slice(&le32(0)); cd.extend_from_slice(&le32(0));
    cd.extend_from_slice(&le16(1)); cd.extend_from_slice(&le16(z64.len() as u16));
    cd.extend_from_slice(&le16(0)); cd.extend_from_slice(&le16(0)); cd.extend_from_slice(&le16(0));
    cd.extend_from_slice(&le32(0)); cd.extend_from_slice(&le32(0xFFFFFFFF));
    cd.push(b'a'); cd.extend_from_slice(&z64);
    let cd_size = cd.len() as u64;
    let eocd_pos = len - 22;
    let cd_pos = eocd_pos - cd_size;
    // EOCD: cd offset chosen so that archive_offset = cde_pos - size - offset = 0  => offset = cd_pos, which does not fit
    // 32 bits; instead use offset = 0 and let the reader derive archive_offset = cd_pos (prepended-data case), and store
    // the header offset relative to it: stored = P - archive_offset is negative -> so make archive_offset 0 through ZIP64:
    // simpler: keep 32-bit EOCD with offset 0 => archive_offset = cd_pos; header_start(zip64) + archive_offset must be P.
    let stored_off: u64 = p.wrapping_sub(cd_pos);
    // P < cd_pos, so this wraps; use instead a layout where the header is *after* nothing: put P after archive_offset.
    let _ = stored_off;
    let mut eocd = Vec::new();
    eocd.extend_from_slice(&le32(0x06054b50));
    eocd.extend_from_slice(&le16(0)); eocd.extend_from_slice(&le16(0)); eocd.extend_from_slice(&le16(1)); eocd.extend_from_slice(&le16(1));
    eocd.extend_from_slice(&le32(cd_size as u32));
    // offset field: cd_pos - archive_offset with archive_offset := 0 is impossible in 32 bits, so choose
    // archive_offset A = cd_pos - 0xFFFF_0000 and offset = 0xFFFF_0000
    let off32: u32 = 0xFFFF_0000;
    eocd.extend_from_slice(&le32(off32));
    eocd.extend_from_slice(&le16(0));
    let a = cd_pos - off32 as u64; // archive offset the reader will compute
    // the ZIP64 extra must then carry P - A
    let rel = p - a;
    let n = cd.len();
    cd[n - 8..].copy_from_slice(&rel.to_le_bytes());
    let src = Sparse { chunks: vec![(p, lfh), (cd_pos, cd), (eocd_pos, eocd)], len, pos: 0 };
    let r = no_panic(move || {
        let mut ar = match zip::ZipArchive::new(src) { Ok(a) => a, Err(_) => return "open-error" };
        let x = match ar.by_index(0) { Ok(_) => "opened", Err(_) => "error" };
        x
    });
    assert!(matches!(r, Ok("error") | Ok("open-error")), "offset arithmetic must not panic: {:?}", r);
}

// ------------------------------------------------------------------ F6 (C11, C10)
struct FailAfter<R> { inner: R, left: usize }
impl<R: Read> Read for FailAfter<R> {
    fn read(&mut self, buf: &mut [u8]) -> io::Result<usize> {
        if self.left == 0 { return Err(io::Error::new(io::ErrorKind::Other, "injected")); }
        let n = buf.len().min(self.left);
        let k = self.inner.read(&mut buf[..n])?;
        self.left -= k;
        Ok(k)
    }
}
#[test]
fn f6_stream_drop_on_io_error() {
    let z = mk_zip(b"a", 0, 0, 0, 100, 100, &[], &[], &[7u8; 100], 0);
    let r = no_panic(move || {
        let mut src = FailAfter { inner: Cursor::new(z), left: 40 };
        let f = zip::read::read_zipfile_from_stream(&mut src);
        drop(f); // skipping the entry hits the injected error
        true
    });
    assert_eq!(r, Ok(true), "dropping a streamed entry over a failing stream must not panic");
}

// ------------------------------------------------------------------ F7 (C11)
struct FlakySink { inner: Cursor<Vec<u8>>, fail_seek_at: Option<usize>, seeks: usize }
impl Write for FlakySink {
    fn write(&mut self, b: &[u8]) -> io::Result<usize> { self.inner.write(b) }
    fn flush(&mut self) -> io::Result<()> { Ok(()) }
}
impl Seek for FlakySink {
    fn seek(&mut self, p: SeekFrom) -> io::Result<u64> {
        // stream_position() is seek(Current(0)): never fail those, only real repositioning
        if !matches!(p, SeekFrom::Current(0)) {
            self.seeks += 1;
            if Some(self.seeks) == self.fail_seek_at { return Err(io::Error::new(io::ErrorKind::Other, "injected seek failure")); }
        }
        self.inner.seek(p)
    }
}
#[test]
fn f7_failed_seek_then_finish_no_panic() {
    // fail the seek back to the end of the data after the header back-patch: the sink stays inside the header
    for k in 1..6 {
        let r = no_panic(move || {
            let sink = FlakySink { inner: Cursor::new(Vec::new()), fail_seek_at: Some(k), seeks: 0 };
            let mut w = zip::ZipWriter::new(sink);
            let o = zip::write::FileOptions::default().compression_method(zip::CompressionMethod::Stored);
            let _ = w.start_file("a", o);
            let _ = w.write_all(&[1u8; 100]);
            let _ = w.start_file("b", o);
            let _ = w.write_all(&[2u8; 10]);
            let _ = w.finish();
            let _ = w.finish();
            drop(w);
            true
        });
        assert_eq!(r, Ok(true), "seek failure #{k} must surface as Err, never as a panic");
    }
}

// ------------------------------------------------------------------ F8 (C11, C13)
struct RwFlaky { inner: Cursor<Vec<u8>>, fail_seek_at: usize, seeks: usize }
impl Read for RwFlaky { fn read(&mut self, b: &mut [u8]) -> io::Result<usize> { self.inner.read(b) } }
impl Write for RwFlaky {
    fn write(&mut self, b: &[u8]) -> io::Result<usize> { self.inner.write(b) }
    fn flush(&mut self) -> io::Result<()> { Ok(()) }
}
impl Seek for RwFlaky {
    fn seek(&mut self, p: SeekFrom) -> io::Result<u64> {
        if !matches!(p, SeekFrom::Current(0)) {
            self.seeks += 1;
            if self.seeks == self.fail_seek_at { return Err(io::Error::new(io::ErrorKind::Other, "injected seek failure")); }
        }
        self.inner.seek(p)
    }
}
#[test]
fn f8_append_reposition_failure_is_reported() {
    let mut base = Cursor::new(Vec::new());
    {
        let mut w = zip::ZipWriter::new(&mut base);
        let o = zip::write::FileOptions::default().compression_method(zip::CompressionMethod::Stored);
        w.start_file("a", o).unwrap(); w.write_all(b"hello").unwrap();
        w.finish().unwrap();
    }
    let bytes = base.into_inner();
    // count the seeks of a failure-free new_append, then fail the last one (the reposition onto the old directory)
    let mut probe = RwFlaky { inner: Cursor::new(bytes.clone()), fail_seek_at: usize::MAX, seeks: 0 };
    { let w = zip::ZipWriter::new_append(&mut probe); assert!(w.is_ok()); std::mem::forget(w); }
    let total = probe.seeks;
    let rw = RwFlaky { inner: Cursor::new(bytes.clone()), fail_seek_at: total, seeks: 0 };
    match zip::ZipWriter::new_append(rw) {
        Err(_) => {}
        Ok(mut w) => {
            // if it claims success, the result must be a correct append
            let o = zip::write::FileOptions::default().compression_method(zip::CompressionMethod::Stored);
            w.start_file("b", o).unwrap(); w.write_all(b"world").unwrap();
            let out = w.finish().unwrap().inner.into_inner();
            let mut ar = zip::ZipArchive::new(Cursor::new(out)).expect("appended archive must be readable");
            assert_eq!(ar.len(), 2);
            let mut s = String::new(); ar.by_name("a").unwrap().read_to_string(&mut s).unwrap();
            assert_eq!(s, "hello");
        }
    }
}

// ------------------------------------------------------------------ F9 (C02)
#[test]
fn f9_oversized_name_and_comment_rejected() {
    let o = zip::write::FileOptions::default().compression_method(zip::CompressionMethod::Stored);
    let mut w = zip::ZipWriter::new(Cursor::new(Vec::new()));
    let long = "n".repeat(65536 + 5);
    let r = w.start_file(long, o);
    let fin = w.finish();
    if r.is_ok() {
        // success reported: then the archive must be valid and hold the full name
        let bytes = fin.unwrap().into_inner();
        let ar = zip::ZipArchive::new(Cursor::new(bytes)).expect("writer reported success, archive must parse");
        assert_eq!(ar.file_names().next().map(|s| s.len()), Some(65541), "name length wrapped in the 16-bit field");
    }
    let mut w = zip::ZipWriter::new(Cursor::new(Vec::new()));
    w.start_file("a", o).unwrap();
    w.set_raw_comment(vec![b'c'; 65536 + 7]);
    match w.finish() {
        Err(_) => {}
        Ok(c) => {
            let ar = zip::ZipArchive::new(Cursor::new(c.into_inner())).expect("writer reported success, archive must parse");
            assert_eq!(ar.comment().len(), 65543, "comment length wrapped in the 16-bit field");
        }
    }
}

// ------------------------------------------------------------------ F10 (C02, C12, C17)
#[test]
fn f10_extra_length_overflow() {
    let r = no_panic(|| {
        let o = zip::write::FileOptions::default().compression_method(zip::CompressionMethod::Stored).large_file(true);
        let mut w = zip::ZipWriter::new(Cursor::new(Vec::new()));
        w.start_file_with_extra_data("a", o).unwrap();
        // one record: id 0xbeef, 65520 payload bytes => 65524 bytes of extra data; + 20 for the local ZIP64 block > 65535
        let mut rec = Vec::new();
        rec.extend_from_slice(&le16(0xbeef)); rec.extend_from_slice(&le16(65520)); rec.extend_from_slice(&vec![0u8; 65520]);
        w.write_all(&rec).unwrap();
        let e = w.end_extra_data();
        let f = w.finish();
        (e.is_ok(), f.map(|c| c.into_inner()))
    });
    match r {
        Err(p) => panic!("writer panicked: {p}"),
        Ok((true, Ok(bytes))) => {
            let mut ar = zip::ZipArchive::new(Cursor::new(bytes)).expect("success reported, archive must parse");
            assert_eq!(ar.by_index(0).unwrap().extra_data().len() >= 65524, true, "extra length wrapped");
        }
        Ok(_) => {} // rejected with an error: fine
    }
}

// ------------------------------------------------------------------ F11 (C10, C07)
#[test]
fn f11_visitor_sees_central_metadata() {
    use zip::unstable::stream::{ZipStreamFileMetadata, ZipStreamReader, ZipStreamVisitor};
    let mut buf = Cursor::new(Vec::new());
    {
        let mut w = zip::ZipWriter::new(&mut buf);
        let o = zip::write::FileOptions::default().compression_method(zip::CompressionMethod::Stored);
        w.start_file("a", o).unwrap(); w.write_all(b"1").unwrap();
        w.start_file("b", o).unwrap(); w.write_all(b"2").unwrap();
        w.finish().unwrap();
    }
    struct V(usize, Vec<String>);
    impl ZipStreamVisitor for V {
        fn visit_file(&mut self, _f: &mut zip::read::ZipFile<'_>) -> zip::result::ZipResult<()> { self.0 += 1; Ok(()) }
        fn visit_additional_metadata(&mut self, m: &ZipStreamFileMetadata) -> zip::result::ZipResult<()> { self.1.push(m.name().to_string()); Ok(()) }
    }
    let mut v = V(0, vec![]);
    ZipStreamReader::new(Cursor::new(buf.into_inner())).visit(&mut v).unwrap();
    assert_eq!(v.0, 2);
    assert_eq!(v.1, vec!["a".to_string(), "b".to_string()], "central-directory metadata must be delivered once per entry, in order");
}

// ------------------------------------------------------------------ F12 (C08): sink that starts beyond 4 GiB
struct HighSink { base: u64, data: Vec<u8>, pos: u64 }
impl Write for HighSink {
    fn write(&mut self, b: &[u8]) -> io::Result<usize> {
        let off = (self.pos - self.base) as usize;
        if self.data.len() < off + b.len() { self.data.resize(off + b.len(), 0); }
        self.data[off..off + b.len()].copy_from_slice(b);
        self.pos += b.len() as u64;
        Ok(b.len())
    }
    fn flush(&mut self) -> io::Result<()> { Ok(()) }
}
impl Seek for HighSink {
    fn seek(&mut self, p: SeekFrom) -> io::Result<u64> {
        let np = match p {
            SeekFrom::Start(n) => n as i128,
            SeekFrom::End(n) => self.base as i128 + self.data.len() as i128 + n as i128,
            SeekFrom::Current(n) => self.pos as i128 + n as i128,
        };
        if np < self.base as i128 { return Err(io::Error::new(io::ErrorKind::InvalidInput, "before base")); }
        self.pos = np as u64;
        Ok(self.pos)
    }
}
#[test]
fn f12_zip64_sentinel_boundary() {
    // source entry declaring an uncompressed size of exactly 0xFFFFFFFF (stored data is short; raw copy does not care)
    let src = mk_zip(b"a", 0, 8, 0x1234, 4, 0xFFFF_FFFF, &[], &[], b"abcd", 0);
    let mut ar = zip::ZipArchive::new(Cursor::new(src)).unwrap();
    let base: u64 = 0x1_0000_0010; // header offset > 4 GiB => ZIP64 offset needed
    let mut w = zip::ZipWriter::new(HighSink { base, data: vec![], pos: base });
    w.raw_copy_file(ar.by_index_raw(0).unwrap()).unwrap();
    let sink = w.finish().unwrap();
    // parse the central record by hand (APPNOTE 4.3.12 / 4.5.3): find it, read the three 32-bit fields and the ZIP64 block
    let d = &sink.data;
    let cd = d.windows(4).rposition(|w| w == [0x50, 0x4b, 0x01, 0x02]).unwrap();
    let u32at = |o: usize| u32::from_le_bytes([d[o], d[o + 1], d[o + 2], d[o + 3]]);
    let u16at = |o: usize| u16::from_le_bytes([d[o], d[o + 1]]);
    let csize32 = u32at(cd + 20); let usize32 = u32at(cd + 24); let off32 = u32at(cd + 42);
    let nlen = u16at(cd + 28) as usize; let xlen = u16at(cd + 30) as usize;
    let x = &d[cd + 46 + nlen..cd + 46 + nlen + xlen];
    assert_eq!(u16::from_le_bytes([x[0], x[1]]), 1, "ZIP64 block expected");
    let mut vals = x[4..].chunks(8).map(|c| u64::from_le_bytes(c.try_into().unwrap()));
    // spec: a 64-bit value is present for exactly those fields whose 32-bit slot holds the sentinel, in fixed order
    let usize64 = if usize32 == 0xFFFF_FFFF { vals.next().expect("uncompressed size slot is the sentinel: value must follow") } else { usize32 as u64 };
    let csize64 = if csize32 == 0xFFFF_FFFF { vals.next().expect("compressed") } else { csize32 as u64 };
    let off64 = if off32 == 0xFFFF_FFFF { vals.next().expect("offset slot is the sentinel: value must follow") } else { off32 as u64 };
    assert_eq!((usize64, csize64, off64), (0xFFFF_FFFF, 4, base), "reader following APPNOTE recovers wrong values");
}

// ------------------------------------------------------------------ F13 (C12)
#[test]
fn f13_failed_switch_then_finish_no_panic() {
    let r = no_panic(|| {
        let mut w = zip::ZipWriter::new(Cursor::new(Vec::new()));
        let o = zip::write::FileOptions::default()
            .compression_method(zip::CompressionMethod::Deflated)
            .compression_level(Some(1000)); // documented misuse: level out of range
        let a = w.start_file_with_extra_data("a", o).is_ok();
        let b = w.end_extra_data().is_err();
        let c = w.finish().is_err();
        (a, b, c)
    });
    assert_eq!(r, Ok((true, true, true)), "misuse must be reported by Err, no call may panic");
}

// ------------------------------------------------------------------ F14 (C08, also C03 / C16)
#[test]
fn f14_record_after_aes_extra_is_parsed() {
    // AE-2 entry whose central extra field holds the AE-x record FIRST and the ZIP64 record SECOND (both orders are legal, APPNOTE 4.5.1):
    // the uncompressed size lives in the ZIP64 record (32-bit slot = 0xFFFFFFFF)
    let real: u64 = 0x1_2345_6789;
    let mut extra = aes_extra(2, 3, 0);
    extra.extend_from_slice(&le16(0x0001)); extra.extend_from_slice(&le16(8)); extra.extend_from_slice(&real.to_le_bytes());
    let z = mk_zip(b"a", 1, 99, 0, 28, 0xFFFF_FFFF, &[], &extra, &[0u8; 28], 0);
    let mut ar = zip::ZipArchive::new(Cursor::new(z)).expect("well-formed archive");
    let f = ar.by_index_raw(0).unwrap();
    assert_eq!(f.size(), real, "the ZIP64 record behind the AE-x record was skipped: the walk left the record boundary");
}

// ------------------------------------------------------------------ F15 (C12, also C13 / C14)
#[test]
fn f15_refused_start_does_not_damage_the_raw_copy_before_it() {
    // source archive with one deflated entry (compressed bytes differ from the content)
    let content: Vec<u8> = b"hello raw copy ".iter().cycle().take(3000).copied().collect();
    let mut src = zip::ZipWriter::new(Cursor::new(Vec::new()));
    src.start_file("a.txt", zip::write::FileOptions::default().compression_method(zip::CompressionMethod::Deflated)).unwrap();
    src.write_all(&content).unwrap();
    let src = src.finish().unwrap().into_inner();
    let mut ar = zip::ZipArchive::new(Cursor::new(src)).unwrap();
    let mut w = zip::ZipWriter::new(Cursor::new(Vec::new()));
    w.raw_copy_file(ar.by_index_raw(0).unwrap()).unwrap();
    // documented misuse: a name that does not fit its 16-bit length field is refused ...
    let long = "x".repeat(70_000);
    assert!(w.start_file(long, zip::write::FileOptions::default()).is_err());
    // ... and the archive finished afterwards holds exactly the entry whose creation succeeded, with its source's content
    let out = w.finish().unwrap().into_inner();
    let mut back = zip::ZipArchive::new(Cursor::new(out)).unwrap();
    assert_eq!(back.len(), 1);
    let mut f = back.by_index(0).unwrap();
    assert_eq!((f.size(), f.crc32()), (3000, crc32fast::hash(&content)), "the refused start made finish() re-patch the raw copy from the accounting of its COMPRESSED bytes");
    let mut got = Vec::new();
    f.read_to_end(&mut got).unwrap();
    assert_eq!(got, content);
}

#[allow(dead_code)]
fn unused(_: ZipError) {}
