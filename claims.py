# Claim table consumed by bin/gen_manifest.py.  `claim(id, technique, level text, residue/assumptions, design ref)`.
# NOT_APPLICABLE maps property id -> one-line reason for every property that is not claimed.

claim("C05",
      "MIR panic-site inventory over the call-graph closure of the reader API (interval / dominating-guard / IO-contract discharge + "
      "reviewed table), typestate and unreachability rules, loop-progress classification, allocation-size provenance",
      "Decides, on every run from /repo's current MIR, the necessary conditions 'no undischarged panic-capable site (overflow/bounds/"
      "division Assert, unwrap/expect, panic!, panicking std call) is reachable from ZipArchive/ZipFile/stream reader/new_append', 'every "
      "loop reachable from there makes progress by a recognised pattern' and 'every allocation sized by input is bounded by type or guarded "
      "against the stream'. It is an inventory with exact keys, not a proof of the behavioural property: peak-memory multiples, wall time and "
      "panics inside dependencies are not decided.",
      "Residue: memory multiple, time, decompression bombs, dependency internals. Reviewed-table entries carry a one-line reason and, where "
      "the reason is an invariant, the rule that checks it (void if that rule fails).",
      "DESIGN.md §3 C05")

claim("C09",
      "provenance (reaching definitions + expression reconstruction) over every impl Read::read / impl Write::write body; who-may-call for "
      "bare read()/write()",
      "Decides that each stream adapter of the crate returns and advances its hash/MAC/cipher/counter state by exactly the count returned by "
      "the inner transfer (views buf[..n], never the whole buffer), that bare read/write calls exist only inside those adapters, and that the "
      "AES reader is idempotent at end of data. These are necessary conditions of chunking independence, not the behaviour itself.",
      "Residue: chunking independence inside flate2/bzip2/zstd; byte-identity of the produced archive under short writes beyond 'accounting "
      "uses the accepted count'.",
      "DESIGN.md §3 C09")
