# Claim table consumed by bin/gen_manifest.py.  `claim(id, technique, level text, residue/assumptions, design ref)`.
# NOT_APPLICABLE maps property id -> one-line reason for every property that is not claimed.
# Every claim is category `other`: a set of necessary conditions decided from the MIR / type facts of /repo's current tree.

N = "Decided: the listed structural clauses (each a necessary condition of the property), on every run, from facts extracted by a rustc_private driver under the real cargo build. Not a proof of the behavioural property. "

claim("C01", "codec-table extraction from MIR success paths vs APPNOTE tables; provenance (reaching definitions); must-pass-through on CFG/call graph; switch-arm tables",
      N + "Writer and reader tables of all five records agree with APPNOTE 6.3.9 (width, order, little-endian, provenance/destination per field), so they agree with each other; CRC/sizes are "
      "back-patched from hasher/byte counter/stream position at offsets recomputed from the table and unconditionally for non-raw entries; per-entry counters are reset on open; every entry is closed "
      "before the next one and before the directory; finish() and Drop share one finaliser; method codes and encoder/decoder constructors are paired; Unix mode shift/system pairing; end-record search window.",
      "Residue: equality of decoded content through flate2/bzip2/zstd for all inputs/levels/sizes; >65535-entry and multi-MiB behaviour; that the sink honours Seek.", "DESIGN.md §3 C01")
claim("C02", "codec tables vs specification; sibling-expression agreement; interval/guard analysis of narrowing casts feeding record fields; flag decision table; stream-position provenance",
      N + "Record layouts equal the APPNOTE tables (a judge that shares no code with the crate); local and central headers write identical expressions for shared fields and the re-patched extra length; no narrowing cast "
      "into a record field without clamp/guard/checked conversion (lengths >= 65536 are rejected, not wrapped); offsets/counts recorded from stream positions; bits 0/11 decision table; version-needed table; ZIP64 "
      "thresholds, sentinel consistency and end-record condition. Also: the three length guards refuse exactly len >= 65536; all writer seeks are absolute (SeekFrom::Start) and end_extra_data returns to the recorded data start; extra data rejected by validation cannot reach a finished archive; the CRC/size accounting uses the accepted byte count and starts fresh for every entry over all call sequences (C02-TSX).",
      "Residue: acceptance by CPython zipfile / Info-ZIP (another technique); stored CRC vs decoded data; absence of overlap beyond offset provenance.", "DESIGN.md §3 C02")
claim("C03", "reader codec tables vs APPNOTE; accessor-to-field provenance; dominating-guard facts; call-graph reachability",
      N + "Parser tables (EOCD, ZIP64 EOCD + locator, central header, local header, ZIP64 and AE-x extra fields) equal the specification; each accessor returns the field its name promises; the entry window comes from the "
      "central record while data_start uses the local header's own lengths; archive-offset computation is checked and applied to directory start and every header offset; the end-record search spans 22 + 65535 bytes; "
      "duplicate-name / not-found semantics; ZipArchive::new cannot reach per-entry decoding. Also: a who-may-assign table for every metadata field of ZipFileData (nothing replaces a parsed value except the ZIP64/AE-x extra fields and the archive offset); the (directory, read-only) -> mode table of MS-DOS entries; classic disk numbers compared only on unmasked end records; local-header lengths added in 64 bits; timestamps reported verbatim.",
      "Residue: faithful content for foreign compressed streams; tolerance of every legal layout (gaps, ordering, data-descriptor variants).", "DESIGN.md §3 C03")
claim("C04", "ADT type facts; path-enumerated decision table over boolean atoms; provenance of constructor arguments",
      N + "Every decoding variant of the entry reader wraps Crc32Reader; it is built with the entry's declared CRC and with an AE-2 exemption that is true only for vendor version AE-2; Crc32Reader::read's table over "
      "(buffer empty, checksum matches, AE-2, inner result) is exactly the property's case analysis and no other atom influences it; the hash covers exactly the returned bytes.",
      "Residue: that CRC-32 detects a given corruption; decoder behaviour on damaged data; O4 (truncated AE-2 stored entry).", "DESIGN.md §3 C04")
claim("C05", "MIR panic-site inventory over the call-graph closure of the reader API with interval / dominating-guard / IO-contract discharge and a reviewed table; typestate and unreachability rules; loop-progress "
             "classification; allocation-size provenance",
      N + "No undischarged panic-capable site (overflow/bounds/division Assert, unwrap/expect, panic!, panicking std call) is reachable from ZipArchive/ZipFile/stream reader/new_append; the decoder constructor's "
      "fall-through panic is unreachable (open path rejects exactly those methods; invariant M); ZipFile lazy-reader typestate; every loop makes progress by a recognised pattern; allocations sized by input are "
      "bounded by type or guarded against the stream. Also: allocation guards compare against a stream-OBSERVED bound (not a declared field); ZipFile's lazy-reader invariant decided by the typestate engine over every read/get_raw_reader/drop sequence from every constructor; AES reader state machine panic-free.",
      "Residue: peak-memory multiple, wall time, decompression bombs, panics inside dependencies. Reviewed entries name the rule they rely on and are void when it fails.", "DESIGN.md §3 C05")
claim("C06", "path-enumerated decision table over Component kinds; switch-arm effect table; closure analysis; delegation check",
      N + "enclosed_name: NUL => None; Prefix/RootDir => None; ParentDir => checked depth-1 (None on underflow); Normal => depth+1; CurDir => no effect; exhausted => Some(unmodified name); no other atom decides. "
      "mangled_name: walks the NUL-truncated, separator-normalised name, keeps exactly Normal components, pushes them verbatim onto an empty path. Public accessors are pure delegations.",
      "Trusted: std::path::Path::components semantics on the host. Residue: non-lexical escapes (symlinks).", "DESIGN.md §3 C06")
claim("C07", "who-may-call (filesystem-mutating callees); provenance of path arguments; dominators; dependency on C06's tables",
      N + "Confinement clause only: the crate's filesystem-mutating call sites are the 8 in the two extractors; each path argument is base.join(enclosed_name()?) (or its parent) of the entry being extracted; the "
      "unsafe-name error dominates every filesystem call; modes come from the same entry's unix_mode(); C06's accessor tables hold.",
      "Residue (not claimed): the second sentence of the property -- successful reproduction of the tree, contents and modes; file/dir conflicts; pre-existing symlinks.", "DESIGN.md §3 C07")
claim("C08", "constant tables; guard facts at emit/consume sites (sentinel consistency); skip-path facts for the end records; codec tables of the ZIP64 records",
      N + "Thresholds are 0xFFFFFFFF/0xFFFF; each central 32-bit slot is min(v, THR) and its 64-bit value is emitted iff v >= THR -- exactly when a reader keyed on the sentinel consumes it -- in APPNOTE order; the reader "
      "consumes each value iff its own slot holds the sentinel; ZIP64 end record + locator are written whenever a clamped EOCD field would not fit; 4 GiB guard follows the accounting and closes the writer; raw copy "
      "derives large_file from both sizes; ZIP64 record layouts.",
      "Residue: behaviour at real >4 GiB / >65535-entry sizes; O5 (exactly 0xFFFFFFFF-byte non-large entry).", "DESIGN.md §3 C08")
claim("C09", "provenance (reaching definitions + expression reconstruction) over every impl Read::read / impl Write::write body; who-may-call for bare read()/write()",
      N + "Each stream adapter returns and advances its hash/MAC/cipher/counter state by exactly the count returned by the inner transfer (views buf[..n], never the whole buffer); bare read/write calls exist only "
      "inside those adapters; the AES reader is idempotent at end of data.",
      "Residue: chunking independence inside flate2/bzip2/zstd; byte-identity of the archive under short writes beyond 'accounting uses the accepted count'.", "DESIGN.md §3 C09")
claim("C10", "reader codec tables + sibling-expression agreement; dominating facts; path-enumerated token accounting of the visitor; loop-exit analysis",
      N + "Both readers use the same APPNOTE tables and compute flags/method/time identically; same decoder stack; encrypted and data-descriptor entries refused before the entry window exists; window = ZIP64-corrected "
      "compressed size; Drop drains the unwrapped Take until Ok(0) and nothing else ends the loop; visit() consumes the stream by the archive grammar -- each signature once, the record whose signature the entry reader "
      "ate is parsed body-only, callbacks once per record.",
      "Residue: equality of delivered contents/metadata over all archives and consumption patterns.", "DESIGN.md §3 C10")
claim("C11", "use-classification of every I/O Result (def-use over MIR); swallowed-variant analysis; control dependence of panics on Err edges; position-arithmetic discharge; restore-on-success reachability",
      N + "No I/O Result is dropped or merely tested unless reviewed with a structural side-condition; a match that swallows ZipError::Io is allowed only around callees reading an in-memory cursor; no unwrap/expect on "
      "an I/O Result, no panic on an Err edge; unchecked subtractions on stream positions only between positions of the same call; mem::replace(inner, Closed) is restored on every success path. Also: no error-defaulting combinator (unwrap_or*, map_or*, .ok()) on an I/O Result; no buffering adapter whose implicit flush-on-drop discards an error; the readers' typestate (AES reader, ZipFile) stays assertion-free after a failed call.",
      "Residue: the outcome statement 'error or identical to the failure-free run' over fault sequences as a whole (DESIGN.md O1).", "DESIGN.md §3 C11")
claim("C12", "typestate analysis by abstract interpretation of the MIR of every ZipWriter method over a finite abstraction of the writer's private state, closed under ALL call sequences (reachable-state "
             "exploration with witness traces); MIR panic-site inventory over the writer API; structural typestate invariants; path-enumerated misuse tables",
      N + "E6 (C12-TSX): from the states ZipWriter::new/new_append return, the abstract states (4 mode flags x sink variant incl. encryption layer x entry list empty/non-empty x accounting fresh/dirty) reachable by "
      "every sequence of the 17 API calls (public methods, impl Write, Drop; encryption option only with start_file, as the property's quantifier says) are computed from the MIR; on all of them: no call reaches a "
      "state-decided panic (get_plain/unwrap/unreachable!/files.last().unwrap()); write() without an open file, end_extra_data outside extra-data mode, and every entry-creating call on a closed writer never succeed; a "
      "successful add_directory/add_symlink leaves no file open; a successful start_file* leaves a file open, not raw, with fresh accounting on a live sink; finish() leaves a closed writer with no open entry; "
      "extra-data mode implies a plain stored sink and central-only mode never outlives it. Plus: no undischarged panic site reachable from ZipWriter/FileOptions; typestate assertions discharged by invariants I1-I4 (extra-data mode implies a plain sink and is left before the fallible switch; a closed entry "
      "leaves a plain sink; flags imply a current entry and entries are append-only; permissions defaulted before use); misuse rows of write/end_extra_data/switch_to/validate_extra_data; every failing path of the "
      "compressor switch leaves the writer closed; per-entry accounting reset.",
      "Residue: 'exactly the entries/bytes' at content level; sequences using the experimental encryption option beyond start_file+write (outside the quantifier, O7).", "DESIGN.md §3 C12")
claim("C13", "call-graph sibling agreement; closure-capture provenance; aggregate field table; def-use of the parsed entry list; codec tables",
      N + "new_append uses the reader's end-record search, directory location and central parser with the computed archive offset, parses exactly number_of_files records, repositions onto the old directory, and returns "
      "a writer with writing_raw set, a plain sink, the old comment and the parsed list moved in untouched; finish_file skips the back-patch iff writing_raw and clears it; central writer/parser tables agree. Also: absolute seeks; local/central sibling agreement of re-emitted records; the raw flag set by new_append is consumed by the first close on every path and over all call sequences (C13-TSX); re-emitted timestamps/fields are the recorded ones.",
      "Residue: behaviour over multi-round histories, foreign bases, >65535 entries; O2 (double ZIP64 block on re-emission), O3.", "DESIGN.md §3 C13")
claim("C14", "provenance of header values and of the copy's source/sink; must-not-pass-through (compressor switch, encryption); flag ordering",
      N + "The copied entry's CRC/sizes/method/time/permissions/large_file are the source's accessors; bytes move by io::copy from get_raw_reader() (unwraps to the bounded Take, no decoder) into the writer while it is a "
      "plain stored sink; writing_raw/writing_to_file are set before the copy; the close skips CRC/size recomputation iff raw. Also: timestamp/method/large-file flag copied on every path to start_entry; nothing on the raw path branches on the compression method (entries with undecodable methods copy verbatim); rename accepts every valid name length; neighbours' accounting unaffected over all call sequences (C14-TSX).",
      "Residue: bit-equality for all sources (follows given a readable source); O6 (file-type bits dropped).", "DESIGN.md §3 C14")
claim("C15", "path-enumerated decision tables; comparison-site analysis; constant and formula tables vs APPNOTE 6.1; CRC table regeneration; provenance",
      N + "Open table over (password, encrypted flag, AES info) with PASSWORD_REQUIRED identified by constant identity; validator chosen by the data-descriptor flag; 12-byte header, only byte 11 compared with crc>>24 / "
      "time>>8; encrypt/decrypt update keys with the plaintext byte after taking the keystream byte; writer buffers a 12-byte header, sets byte 11 from the plaintext CRC, encrypts all, bit 0 iff encrypted; key "
      "constants, update formulas, CRC table.",
      "Residue: interop with independent implementations; absence of plaintext in the file; 1/256 false accept is inherent.", "DESIGN.md §3 C15")
claim("C16", "constant tables vs WinZip AE-x; generic-argument facts; path-enumerated table of the authenticating reader; dominating facts at keystream refill; open table",
      N + "AE-x constants and key layout; PBKDF2-HMAC-SHA1 x1000; mode<->cipher pairing; LE counter from 1; HMAC fed the ciphertext before decryption; the last bytes are released only after constant_time_eq over the "
      "10-byte code; keystream refill only when the block is exhausted; verifier/missing-password rows; AE-x extra layout; AE-2 exemption plumbing.",
      "Residue: cryptographic correctness of aes/hmac/sha1/pbkdf2; exhaustive bit-flip detection (follows given the primitives); O4.", "DESIGN.md §3 C16")
claim("C17", "must-pass-through (validation before emission); placement provenance; constant table of reserved ids vs APPNOTE; predicate agreement between the padding guard and the self-check",
      N + "Extra data is validated before any emission; buffered verbatim; local emission iff not central-only with data_start advanced and the local extra-length field re-patched at its APPNOTE offset; local part "
      "cleared before the central part; rejection rows with a complete scan of a reserved-id table covering APPNOTE 4.5.2/4.6.1; alignment: validated path, pad/self-check predicate agreement, pad record length, return value.",
      "The pad-length identity is decided by evaluating the pad expression reconstructed from the MIR on a grid of (align, offset) pairs (agreement on the grid is taken as the identity; stated in the evidence). Residue: the alignment of the bytes actually produced for every preceding archive state.", "DESIGN.md §3 C17, §9.6")
claim("C18", "bit-field table extraction (mask/shift/scale/offset) from MIR and comparison with the MS-DOS layout; path-enumerated range table; interval/guard invariant on constructions; panic inventory",
      N + "from_msdos and timepart/datepart are mutually inverse tables covering all 32 bits (bijective without enumeration); the checked constructor accepts exactly the documented ranges; TryFrom guards the year on the "
      "value it stores; every DateTime construction has year in [1980, 2107], discharging `year - 1980`; fields private; to_time propagates errors. Also: extra-length guard is the field capacity and its back-patch a checked conversion; absolute seeks / return to the recorded data start; the reader computes the reported data start in 64 bits. Also: from_msdos' bit fields evaluated on all 65536 words against the MS-DOS layout; no function assigns ZipFileData.last_modified_time after parsing; raw copies and append re-emit the recorded words unconditionally.",
      "Residue: calendar correctness of the `time` crate; archive round trip of timestamps beyond the codec slots.", "DESIGN.md §3 C18")
claim("C19", "table folding of a match over all 256 byte values vs CPython's cp437 codec; dominating facts at decode sites; def-use of the raw buffer; writer tables",
      N + "to_char equals code page 437 for every byte; the ASCII fast path only under all-bytes-<0x80; name/comment decoded by from_utf8_lossy iff bit 11 is set else CP437, in both parsers, nothing else decides; raw "
      "name is the read buffer untouched; writer emits the name's own bytes/length and sets bit 11 iff non-ASCII.",
      "Oracle: CPython's cp437 codec (named by the property).", "DESIGN.md §3 C19")
claim("C20", "ADT type-tree walk for interior mutability; rustc trait-solver verdicts (Send/Sync) captured during extraction; who-may-call on Arc/atomic APIs; provenance of the stored value; signature facts",
      N + "Clones share only Arc<Shared>, whose type tree has no interior mutability except one relaxed atomic; nothing mutates through the Arc; that atomic is stored at one site after the signature check with a value "
      "derived from header_start and bytes this handle read, and loaded only by accessors; opening takes &mut self and begins with an absolute seek; Shared/ZipFileData: Send + Sync per rustc. Also: no process-global mutable state (static with interior mutability, static mut, thread-local) anywhere in the crate.",
      "Residue: actual multi-threaded executions; readers whose Clone shares a cursor.", "DESIGN.md §3 C20")

# Round 5 additions (appended to the level text of the claims above)
_OPEN = ("Round 5: on every path of every public opener the mode handed to start_entry carries exactly the opener's file-type bits and the caller's timestamp / large-file flag / "
         "encryption keys (method, level) are untouched (field-sensitive value flow); start_entry records each option-derived field unconditionally.")
_REF_R = "Round 5: refusal inventory of the reader side -- per function and kind, the number of distinct own errors equals the reviewed table (no new way to turn an archive away, none dropped)."
_REF_W = "Round 5: refusal inventory of the writer side -- per function and kind, the number of distinct own errors equals the reviewed table."
ADDENDA.update({
    "C01": _OPEN + " " + _REF_R + " " + _REF_W + " ZIP64 end records: no clamped or narrowed value in a 64-bit field, in the locator or in the condition that decides whether they are written.",
    "C02": "Round 5: ZIP64 end records refuse clamped/narrowed values in 64-bit fields and in their emit condition; start_entry's record fields are the options, unconditionally.",
    "C03": _REF_R + " Every entry opened for decoding reads through find_content(..)? on every path.",
    "C04": "Round 5: ZipFileReader::Raw (no checksum wrapper) is built only by the raw accessors and get_reader stores nothing but make_reader(..); the crate's impl Read / impl Write define only the required methods (no read_to_end / read_exact override can bypass the end-of-data check).",
    "C07": "Round 5: extractors mutate the filesystem only through create_dir_all / File::create / set_permissions (idempotent on an existing tree; nothing removed, renamed or linked).",
    "C08": "Round 5: as C02; the large_file request reaches the entry through every opener; streamed ZIP64 entries are bounded after the local ZIP64 record was decoded.",
    "C09": "Round 5: the checksum verdict is tied to Ok(0) of the inner reader only (a short read is not the end of data); provided I/O methods are not overridden.",
    "C10": _REF_R,
    "C12": _REF_W + " A partially accepted write is accounted as exactly the accepted bytes.",
    "C13": _REF_W + " " + _REF_R + " Appended entries are recorded as asked for; re-emitted external attributes are shifted where the word is built.",
    "C14": _REF_W + " The raw window is the entry's whole compressed stream for empty entries too.",
    "C15": _OPEN + " " + _REF_R,
    "C16": _REF_R + " No password for an AES entry => InvalidPassword on every such path, never plaintext.",
    "C17": _OPEN + " " + _REF_W + " Extra-data bytes never reach the CRC/size accounting over all call sequences.",
    "C18": _OPEN,
    "C19": "Round 5: name and comment bytes are read with exact-length primitives in both parsers.",
    "C20": "Round 5: opening an entry records its data start itself on every path (find_content is never skipped), so what a handle reports does not depend on a clone's history.",
})

# Round 6 additions
for _pid, _txt in {
    "C01": "Round 6: add_directory honours both separators; the record is pushed only after its local header was written; the ZIP64 back-patch offset uses the name's byte length.",
    "C03": "Round 6: encrypted / data-descriptor flags are bits 0 / 3 of the flags word in both parsers (evaluated on all 65536 words); unix_mode() is None for an all-zero attribute word.",
    "C06": "Round 6: the component walk is decided by bounded exploration (field-sensitive value flow with concrete depth) of every component sequence up to length 3 against the reference walk, whatever the spelling (for+match, try_fold over a closure/helper, signed counter); the shape table is the second opinion.",
    "C07": "Round 6: every delivered metadata record of the streaming extractor has its mode consulted and applied; C06's walk decided by exploration.",
    "C09": "Round 6: no vectored read/write with an unchecked count.",
    "C11": "Round 6: no I/O Result is used as an iterator/Option (flat_map, flatten, filter_map, .ok()); ZipCryptoWriter::finish consumes self; an error carried inside the returned value counts as returned.",
    "C14": "Round 6: raw_copy_file only delegates to raw_copy_file_rename on every path; the options value reaching start_entry is decided field by field (builder chain or struct literal).",
    "C15": "Round 6: finish() consumes the encrypting writer and nothing outside zipcrypto.rs projects into it; key-schedule formulas decided by evaluation on sample points when the spelling is unknown; flag bits table.",
    "C18": "Round 6: DateTime::default() is a valid constant date; range patterns and checked year narrowing are read as the same range table.",
    "C19": "Round 6: the ZIP64 back-patch cannot overwrite name bytes (byte-length offset).",
    "C20": "Round 6: the AtomicU64 wrapper's load/store are unconditional delegations to the std atomic.",
}.items():
    ADDENDA[_pid] = (ADDENDA.get(_pid, "") + " " + _txt).strip()

_VF = "field-sensitive forward value-flow analysis (path-split dataflow over an abstract store with references, expression-tree values)"
TECH_ADD.update({
    "C01": _VF + " for the openers' options; reviewed refusal inventory",
    "C02": "reviewed refusal inventory; clamp/narrowing provenance in 64-bit fields",
    "C03": "reviewed refusal inventory; exhaustive evaluation of flag-bit extraction over the 16-bit flags word",
    "C06": "bounded abstract exploration of the component walk (value flow with a concrete depth counter) over every component sequence up to length 4 (5 in the thorough tier), compared with the reference walk",
    "C07": "C06's exploration; path-enumerated mode table of the metadata phase",
    "C12": "reviewed refusal inventory (writer side)",
    "C14": _VF + " for the options value reaching start_entry",
    "C15": "ownership-as-typestate (signature facts: finish consumes self; who-may-project into ZipCryptoWriter); evaluation of reconstructed key-schedule expressions on sample points",
    "C18": _VF + " for the openers' options",
})


# Round 8 + mechanical mutation sweep (session 6): rules added after 60 fresh seeded changes and a sweep of 1095 first-order syntactic mutants
_XW = ("Round 8: the reader's walk over an extra field stays on record boundaries -- on every one-iteration path bytes consumed + bytes skipped == the record's len "
       "(E9 exploration with a call trace); this found and led to the repair of F14 (the AE-x arm skipped 7 bytes too many).")
_LF = ("Round 8: the central header's name / extra / comment length fields equal, as linear forms, the bytes of the runs emitted behind the fixed part; the ZIP64 serialiser's returned "
       "count equals the bytes it wrote on every path; the local header announces a ZIP64 placeholder exactly on the paths that write it.")
for _pid, _txt in {
    "C01": _LF + " The per-entry accounting step adds each accepted chunk (bytes_written += len, hasher.update(chunk)); end_extra_data advances the accounting start with the data start; the option builders store their argument in the field they name; raw-copy defaults are zeros; the record pushed by start_entry has no extra data and no comment; the ZIP64 back-patch offset is header_start + 30 + len(name) + 4 as a linear form.",
    "C02": _LF + " zip64_extension() is the disjunction of its three 32-bit overflow tests; the end-record ZIP64 condition is established on EVERY way of skipping the ZIP64 records.",
    "C03": _XW + " Disk numbers that differ are refused and equal ones accepted; record_too_small() is the disjunction of the six sentinel tests; both record searches step by one; the locator probe is End(-(42 + len(comment))) as a linear form; the archive offset has no alternative value; version_made_by() is (v/10, v%10), is_empty() is len()==0, the named method constants carry their APPNOTE 4.4.5 codes.",
    "C05": "Round 8: a loop exit mediated by a boolean that is set on the arms of a match on the read result counts as consume-or-exit.",
    "C06": "Round 8: the separator normalisation of mangled_name is unconditional (no fast path that keeps the name as it came).",
    "C07": "Round 8: on every successful path a directory entry is created with create_dir_all, a file entry gets its file, and a missing parent directory is created before the file; unix_mode() of Unix-made entries is attrs >> 16 untouched by DOS bits.",
    "C08": _XW + " " + _LF + " Skip-implies-fits holds on every way of skipping the ZIP64 end records; new_append reads the entry count from the ZIP64-aware parser.",
    "C10": _XW + " is_dir() of both readers' metadata is decided as a truth table over the last character ('/', '\\', other, empty name).",
    "C11": "Round 8: an I/O Result stored in a variable is examined before that variable is assigned again or dropped (flow-sensitive; catches `r = write(a); r = write(b)` across a loop's back edge); a taken-out compressor / sink is never put back on a path that is committed to an error return; a read failure while locating an entry stays an I/O error.",
    "C12": "Round 8: the level's range membership may be tested by a Result-returning helper (decided on its edges); validate_extra_data examines every record (Ok only when nothing is left) and compares size with what is left after the 4 header bytes.",
    "C13": _XW + " " + _LF,
    "C14": "Round 8: a raw copy's record starts without extra data (the local header announces none it does not write); the local ZIP64 record of a copied large entry carries its sizes.",
    "C15": "Round 8: the public FileOptionsExt::with_deprecated_encryption hands the caller's password on verbatim; the (password, encrypted) table of the opener is also decided on the value flow.",
    "C16": _XW + " The decoder behind the AES reader is the reviewed plain constructor.",
    "C17": "Round 8: the pad-length identity (data_start + 4 + pad) % align == 0 with pad < align holds at every point of an (align, offset) grid for the pad expression reconstructed from the MIR; the pad record is written completely (id, length, pad); the self-check compares with zero; the accounting start follows the data start.",
    "C18": "Round 8: TryFrom<OffsetDateTime> stores each calendar accessor's value verbatim (nothing computed from it); range rejections built by an inlined helper and propagated with `?` are read as the same range table.",
}.items():
    ADDENDA[_pid] = (ADDENDA.get(_pid, "") + " " + _txt).strip()
TECH_ADD.update({k_: (TECH_ADD.get(k_, "") + ("; " if TECH_ADD.get(k_) else "") + v_) for k_, v_ in {
    "C02": "linear-form comparison of announced length fields with emitted byte runs on the codec tables; value-flow exploration of the ZIP64 serialiser (returned count vs bytes written)",
    "C03": "one-iteration value-flow exploration of the extra-field walk with a call trace (consumed + skipped == len); disjunction tables decided on the value flow",
    "C08": "the extra-field walk and length-field rules of C03 / C02",
    "C11": "flow-sensitive def/use/kill analysis of Result-holding locals",
    "C17": "evaluation of the reconstructed pad-length expression on a grid of (align, offset) pairs",
}.items()})

# Rounds 9 and 10
for _pid, _txt in {
    "C03": "Round 10: make_reader only constructs (plain decoder constructors, CRC wrapper): no adaptor changes where a decoder stops.",
    "C04": "Round 9/10: no adapter field (counter, flag) is assigned before the wrapped read returned; make_reader constructs only; the raw accessor never decodes.",
    "C05": "Round 9: the streaming reader hands on the method read from the metadata after the AE-x record was applied.",
    "C06": "Round 9: the NUL test of enclosed_name is on the decoded name it validates.",
    "C09": "Round 10: a buffering adapter hands its whole input on (a length query or a sub-slice is not consumption).",
    "C10": "Round 9: decoder and crypto reader of a streamed entry are chosen by result.compression_method after the extra field.",
    "C12": "Round 9/10: a call refused for its arguments (over-long name in start_entry, over-long comment in finalize) has touched nothing before the refusal -- found and led to the repair of F15.",
    "C13": "Round 9/10: as C12 (refused calls leave the raw flag of re-read entries alone).",
    "C14": "Round 9/10: as C12; the raw accessor never goes through the checksum / decoder.",
    "C15": "Round 9: in make_crypto_reader only method, password, AES info, the data-descriptor flag and constructor / validator results decide.",
    "C16": "Round 9/10: adapter state moves only after the wrapped read returned (an interrupted read cannot skip the MAC); the decoder behind the AES reader is the plain constructor.",
    "C17": "Round 9: an implicit close runs end_extra_data whenever extra data is pending (local or central-only part).",
    "C19": "Round 9/10: both decoders of a field read that field's own raw bytes; the decoded string is stored verbatim; bit 11 is decided by is_ascii of the written name.",
}.items():
    ADDENDA[_pid] = (ADDENDA.get(_pid, "") + " " + _txt).strip()

# Round 11 (session 7)
for _pid, _txt in {
    "C07": "Round 11: the CP437 decoder's totality (ASCII fast path below 0x80 only) is evaluated here too -- extraction of a safe name cannot panic in the decoder.",
    "C15": "Round 11: the recorded compressed size is, for every value the field can receive, the distance the sink moved since the entry's start (it covers the 12-byte encryption header; never a plaintext count).",
    "C17": "Round 11: the reader steps over each unknown extra record by its full 16-bit length (the extra-field walk), so entries carrying large caller-supplied records read back.",
    "C18": "Round 11: to_time hands each calendar constructor the stored field itself (no clamp, rollover or other arithmetic), so the constructors' range checks decide.",
}.items():
    ADDENDA[_pid] = (ADDENDA.get(_pid, "") + " " + _txt).strip()
