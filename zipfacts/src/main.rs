// zipfacts: rustc_private fact extractor (E1 of /verif/DESIGN.md).
//
// Used as RUSTC_WORKSPACE_WRAPPER under `cargo +nightly check`. For the crate named by
// ZIPFACTS_CRATE (default "zip") it dumps, after analysis, a JSON description of the
// type-checked program: every MIR body (statements, terminators with resolved callees,
// evaluated constants, spans, macro provenance), ADTs, trait impls, named constants and
// statics. Every other crate is compiled exactly as rustc would.
//
// Output: one file, written once, at $ZIPFACTS_OUT.
#![feature(rustc_private)]
#![allow(clippy::all)]

extern crate rustc_abi;
extern crate rustc_driver;
extern crate rustc_hir;
extern crate rustc_interface;
extern crate rustc_middle;
extern crate rustc_span;
extern crate rustc_infer;
extern crate rustc_trait_selection;

use rustc_driver::{Callbacks, Compilation};
use rustc_hir::def::DefKind;
use rustc_hir::def_id::{DefId, LOCAL_CRATE};
use rustc_interface::interface::Compiler;
use rustc_middle::mir::{self, *};
use rustc_middle::ty::print::with_no_trimmed_paths;
use rustc_middle::ty::{self, Instance, Ty, TyCtxt, TypingEnv};
use rustc_span::Span;
use std::fmt::Write as _;

// ---------------------------------------------------------------- tiny JSON writer

fn esc(s: &str) -> String {
    let mut o = String::with_capacity(s.len() + 2);
    o.push('"');
    for c in s.chars() {
        match c {
            '"' => o.push_str("\\\""),
            '\\' => o.push_str("\\\\"),
            '\n' => o.push_str("\\n"),
            '\r' => o.push_str("\\r"),
            '\t' => o.push_str("\\t"),
            c if (c as u32) < 0x20 => {
                let _ = write!(o, "\\u{:04x}", c as u32);
            }
            c => o.push(c),
        }
    }
    o.push('"');
    o
}

fn arr(items: Vec<String>) -> String {
    format!("[{}]", items.join(","))
}

fn obj(items: Vec<(&str, String)>) -> String {
    let v: Vec<String> = items.into_iter().map(|(k, v)| format!("{}:{}", esc(k), v)).collect();
    format!("{{{}}}", v.join(","))
}

fn opt_str(s: Option<String>) -> String {
    match s {
        Some(s) => esc(&s),
        None => "null".to_string(),
    }
}

// ---------------------------------------------------------------- helpers

struct Cx<'tcx> {
    tcx: TyCtxt<'tcx>,
}

impl<'tcx> Cx<'tcx> {
    fn path(&self, did: DefId) -> String {
        with_no_trimmed_paths!(self.tcx.def_path_str(did))
    }

    fn ty(&self, t: Ty<'tcx>) -> String {
        with_no_trimmed_paths!(format!("{}", t))
    }

    fn span(&self, sp: Span) -> String {
        let sm = self.tcx.sess.source_map();
        // Map a macro-expanded span back to its outermost call site inside user code.
        let sp = sp.source_callsite();
        let lo = sm.lookup_char_pos(sp.lo());
        let name = match &lo.file.name {
            rustc_span::FileName::Real(r) => match r.local_path() {
                Some(p) => p.display().to_string(),
                None => format!("{:?}", lo.file.name),
            },
            n => format!("{:?}", n),
        };
        format!("{}:{}:{}", name, lo.line, lo.col.0 + 1)
    }

    /// Name of the outermost macro a span was expanded from (e.g. `panic`, `assert_eq`,
    /// `vec`, `matches`, `write`), or null.
    fn expn(&self, sp: Span) -> String {
        if !sp.from_expansion() {
            return "null".into();
        }
        let mut names = vec![];
        let mut cur = sp;
        let mut guard = 0;
        while cur.from_expansion() && guard < 32 {
            let d = cur.ctxt().outer_expn_data();
            let n = match d.kind {
                rustc_span::ExpnKind::Macro(_, sym) => sym.to_string(),
                rustc_span::ExpnKind::Desugaring(k) => format!("desugar:{:?}", k),
                rustc_span::ExpnKind::AstPass(k) => format!("astpass:{:?}", k),
                rustc_span::ExpnKind::Root => "root".to_string(),
            };
            names.push(n);
            cur = d.call_site;
            guard += 1;
        }
        arr(names.iter().map(|n| esc(n)).collect())
    }

    fn place(&self, body: &Body<'tcx>, p: &Place<'tcx>) -> String {
        let mut projs = vec![];
        let mut pty = mir::PlaceTy::from_ty(body.local_decls[p.local].ty);
        for elem in p.projection.iter() {
            let s = match elem {
                ProjectionElem::Deref => obj(vec![("k", esc("deref"))]),
                ProjectionElem::Field(f, fty) => {
                    // field name from the ADT (if any)
                    let mut name: Option<String> = None;
                    let mut adt: Option<String> = None;
                    if let ty::Adt(def, _) = pty.ty.kind() {
                        let vidx = pty.variant_index.unwrap_or(rustc_abi::FIRST_VARIANT);
                        if (vidx.as_usize()) < def.variants().len() {
                            let v = def.variant(vidx);
                            if f.as_usize() < v.fields.len() {
                                name = Some(v.fields[f].name.to_string());
                            }
                            adt = Some(self.path(def.did()));
                        }
                    }
                    obj(vec![
                        ("k", esc("field")),
                        ("i", f.as_usize().to_string()),
                        ("n", opt_str(name)),
                        ("adt", opt_str(adt)),
                        ("ty", esc(&self.ty(fty))),
                    ])
                }
                ProjectionElem::Index(l) => {
                    obj(vec![("k", esc("index")), ("l", l.as_usize().to_string())])
                }
                ProjectionElem::ConstantIndex { offset, min_length, from_end } => obj(vec![
                    ("k", esc("cidx")),
                    ("o", offset.to_string()),
                    ("min", min_length.to_string()),
                    ("fe", from_end.to_string()),
                ]),
                ProjectionElem::Subslice { from, to, from_end } => obj(vec![
                    ("k", esc("subslice")),
                    ("from", from.to_string()),
                    ("to", to.to_string()),
                    ("fe", from_end.to_string()),
                ]),
                ProjectionElem::Downcast(sym, vidx) => {
                    let mut name = sym.map(|s| s.to_string());
                    if name.is_none() {
                        if let ty::Adt(def, _) = pty.ty.kind() {
                            if vidx.as_usize() < def.variants().len() {
                                name = Some(def.variant(vidx).name.to_string());
                            }
                        }
                    }
                    obj(vec![
                        ("k", esc("downcast")),
                        ("v", opt_str(name)),
                        ("i", vidx.as_usize().to_string()),
                    ])
                }
                ProjectionElem::OpaqueCast(_) => obj(vec![("k", esc("opaque"))]),
                ProjectionElem::UnwrapUnsafeBinder(_) => obj(vec![("k", esc("unwrap_binder"))]),
            };
            projs.push(s);
            pty = pty.projection_ty(self.tcx, elem);
        }
        obj(vec![
            ("l", p.local.as_usize().to_string()),
            ("p", arr(projs)),
            ("ty", esc(&self.ty(pty.ty))),
        ])
    }

    fn konst(&self, owner: DefId, c: &ConstOperand<'tcx>) -> String {
        let tcx = self.tcx;
        let env = TypingEnv::post_analysis(tcx, owner);
        let ty = c.const_.ty();
        let mut items: Vec<(&str, String)> = vec![("k", esc("const")), ("ty", esc(&self.ty(ty)))];
        // function item?
        if let ty::FnDef(did, args) = ty.kind() {
            items.push(("fn", esc(&self.path(*did))));
            let ga: Vec<String> = args.iter().map(|a| esc(&with_no_trimmed_paths!(format!("{}", a)))).collect();
            items.push(("gargs", arr(ga)));
            return obj(items);
        }
        // named constant?
        if let mir::Const::Unevaluated(u, _) = c.const_ {
            if let Some(p) = u.promoted {
                items.push(("promoted", p.as_usize().to_string()));
            } else {
                items.push(("name", esc(&self.path(u.def))));
            }
        }
        let is_scalar = ty.is_integral() || ty.is_bool() || ty.is_char();
        if is_scalar {
            if let Some(si) = c.const_.try_eval_scalar_int(tcx, env) {
                let bits = si.to_bits_unchecked();
                let size = si.size().bytes();
                // signed interpretation for signed ints
                let v: String = if ty.is_signed() {
                    let shift = 128 - size * 8;
                    let sv = ((bits << shift) as i128) >> shift;
                    sv.to_string()
                } else {
                    bits.to_string()
                };
                items.push(("v", v));
            }
        } else {
            // &str / &[u8] literals
            let is_strlike = match ty.kind() {
                ty::Ref(_, inner, _) => inner.is_str() || matches!(inner.kind(), ty::Slice(t) if *t == tcx.types.u8),
                _ => false,
            };
            if is_strlike {
                if let Ok(val) = c.const_.eval(tcx, env, c.span) {
                    if let Some(bytes) = val.try_get_slice_bytes_for_diagnostics(tcx) {
                        if bytes.len() <= 512 {
                            match std::str::from_utf8(bytes) {
                                Ok(s) => items.push(("str", esc(s))),
                                Err(_) => items.push((
                                    "bytes",
                                    arr(bytes.iter().map(|b| b.to_string()).collect()),
                                )),
                            }
                        }
                    }
                }
            }
        }
        obj(items)
    }

    fn operand(&self, owner: DefId, body: &Body<'tcx>, o: &Operand<'tcx>) -> String {
        match o {
            Operand::Copy(p) => obj(vec![("k", esc("copy")), ("place", self.place(body, p))]),
            Operand::Move(p) => obj(vec![("k", esc("move")), ("place", self.place(body, p))]),
            Operand::Constant(c) => self.konst(owner, c),
            Operand::RuntimeChecks(r) => {
                obj(vec![("k", esc("runtime_checks")), ("what", esc(&format!("{:?}", r)))])
            }
        }
    }

    fn discr_table(&self, t: Ty<'tcx>) -> (String, String) {
        // (adt path, [[value, name]...])
        let t = match t.kind() {
            ty::Ref(_, inner, _) => *inner,
            _ => t,
        };
        if let ty::Adt(def, _) = t.kind() {
            if def.is_enum() {
                let mut v = vec![];
                for (vidx, d) in def.discriminants(self.tcx) {
                    let name = def.variant(vidx).name.to_string();
                    v.push(arr(vec![d.val.to_string(), esc(&name)]));
                }
                return (esc(&self.path(def.did())), arr(v));
            }
        }
        ("null".into(), "[]".into())
    }

    fn rvalue(&self, owner: DefId, body: &Body<'tcx>, rv: &Rvalue<'tcx>) -> String {
        let tcx = self.tcx;
        match rv {
            Rvalue::Use(op, _) => obj(vec![("k", esc("use")), ("op", self.operand(owner, body, op))]),
            Rvalue::Repeat(op, n) => obj(vec![
                ("k", esc("repeat")),
                ("op", self.operand(owner, body, op)),
                ("n", esc(&format!("{}", n))),
            ]),
            Rvalue::Ref(_, bk, p) => obj(vec![
                ("k", esc("ref")),
                ("mut", matches!(bk, BorrowKind::Mut { .. }).to_string()),
                ("place", self.place(body, p)),
            ]),
            Rvalue::ThreadLocalRef(d) => obj(vec![("k", esc("tls")), ("name", esc(&self.path(*d)))]),
            Rvalue::RawPtr(_, p) => obj(vec![("k", esc("rawptr")), ("place", self.place(body, p))]),
            Rvalue::Cast(kind, op, to) => {
                let from = op.ty(&body.local_decls, tcx);
                obj(vec![
                    ("k", esc("cast")),
                    ("ck", esc(&format!("{:?}", kind))),
                    ("op", self.operand(owner, body, op)),
                    ("from", esc(&self.ty(from))),
                    ("to", esc(&self.ty(*to))),
                ])
            }
            Rvalue::BinaryOp(op, ab) => obj(vec![
                ("k", esc("binop")),
                ("op", esc(&format!("{:?}", op))),
                ("a", self.operand(owner, body, &ab.0)),
                ("b", self.operand(owner, body, &ab.1)),
            ]),
            Rvalue::UnaryOp(op, a) => obj(vec![
                ("k", esc("unop")),
                ("op", esc(&format!("{:?}", op))),
                ("a", self.operand(owner, body, a)),
            ]),
            Rvalue::Discriminant(p) => {
                let pty = p.ty(&body.local_decls, tcx).ty;
                let (adt, vars) = self.discr_table(pty);
                obj(vec![
                    ("k", esc("discr")),
                    ("place", self.place(body, p)),
                    ("adt", adt),
                    ("vars", vars),
                ])
            }
            Rvalue::Aggregate(kind, ops) => {
                let opsj: Vec<String> = ops.iter().map(|o| self.operand(owner, body, o)).collect();
                let mut items = vec![("k", esc("agg"))];
                match &**kind {
                    AggregateKind::Array(t) => {
                        items.push(("ak", esc("array")));
                        items.push(("ety", esc(&self.ty(*t))));
                    }
                    AggregateKind::Tuple => items.push(("ak", esc("tuple"))),
                    AggregateKind::Adt(did, vidx, _, _, active) => {
                        items.push(("ak", esc("adt")));
                        items.push(("adt", esc(&self.path(*did))));
                        let def = tcx.adt_def(*did);
                        let v = def.variant(*vidx);
                        items.push(("variant", esc(&v.name.to_string())));
                        items.push(("vidx", vidx.as_usize().to_string()));
                        let fns: Vec<String> = if let Some(a) = active {
                            vec![esc(&v.fields[*a].name.to_string())]
                        } else {
                            v.fields.iter().map(|f| esc(&f.name.to_string())).collect()
                        };
                        items.push(("fields", arr(fns)));
                    }
                    AggregateKind::Closure(did, _) => {
                        items.push(("ak", esc("closure")));
                        items.push(("closure", esc(&self.path(*did))));
                    }
                    AggregateKind::Coroutine(did, _) | AggregateKind::CoroutineClosure(did, _) => {
                        items.push(("ak", esc("coroutine")));
                        items.push(("closure", esc(&self.path(*did))));
                    }
                    AggregateKind::RawPtr(_, _) => items.push(("ak", esc("rawptr"))),
                }
                items.push(("ops", arr(opsj)));
                obj(items)
            }
            Rvalue::CopyForDeref(p) => obj(vec![
                ("k", esc("use")),
                ("op", obj(vec![("k", esc("copy")), ("place", self.place(body, p))])),
            ]),
            Rvalue::WrapUnsafeBinder(op, _) => {
                obj(vec![("k", esc("use")), ("op", self.operand(owner, body, op))])
            }
        }
    }

    fn stmt(&self, owner: DefId, body: &Body<'tcx>, st: &Statement<'tcx>) -> Option<String> {
        let sp = st.source_info.span;
        match &st.kind {
            StatementKind::Assign(b) => {
                let (place, rv) = &**b;
                Some(obj(vec![
                    ("k", esc("assign")),
                    ("place", self.place(body, place)),
                    ("rv", self.rvalue(owner, body, rv)),
                    ("span", esc(&self.span(sp))),
                    ("expn", self.expn(sp)),
                ]))
            }
            StatementKind::SetDiscriminant { place, variant_index } => {
                let pty = place.ty(&body.local_decls, self.tcx).ty;
                let mut vname = None;
                if let ty::Adt(def, _) = pty.kind() {
                    vname = Some(def.variant(*variant_index).name.to_string());
                }
                Some(obj(vec![
                    ("k", esc("setdiscr")),
                    ("place", self.place(body, place)),
                    ("variant", opt_str(vname)),
                    ("span", esc(&self.span(sp))),
                ]))
            }
            StatementKind::Intrinsic(i) => Some(obj(vec![
                ("k", esc("intrinsic")),
                ("what", esc(&format!("{:?}", i))),
                ("span", esc(&self.span(sp))),
            ])),
            _ => None,
        }
    }

    fn unwind(&self, u: &UnwindAction) -> String {
        match u {
            UnwindAction::Cleanup(bb) => bb.as_usize().to_string(),
            _ => "null".into(),
        }
    }

    fn term(&self, owner: DefId, body: &Body<'tcx>, t: &Terminator<'tcx>) -> String {
        let tcx = self.tcx;
        let sp = t.source_info.span;
        let mut items: Vec<(&str, String)> = vec![];
        match &t.kind {
            TerminatorKind::Goto { target } => {
                items.push(("k", esc("goto")));
                items.push(("target", target.as_usize().to_string()));
            }
            TerminatorKind::SwitchInt { discr, targets } => {
                items.push(("k", esc("switch")));
                items.push(("discr", self.operand(owner, body, discr)));
                let dty = discr.ty(&body.local_decls, tcx);
                items.push(("dty", esc(&self.ty(dty))));
                let mut v = vec![];
                for (val, bb) in targets.iter() {
                    v.push(arr(vec![val.to_string(), bb.as_usize().to_string()]));
                }
                items.push(("targets", arr(v)));
                items.push(("otherwise", targets.otherwise().as_usize().to_string()));
            }
            TerminatorKind::UnwindResume => items.push(("k", esc("resume"))),
            TerminatorKind::UnwindTerminate(_) => items.push(("k", esc("terminate"))),
            TerminatorKind::Return => items.push(("k", esc("return"))),
            TerminatorKind::Unreachable => items.push(("k", esc("unreachable"))),
            TerminatorKind::Drop { place, target, unwind, .. } => {
                items.push(("k", esc("drop")));
                items.push(("place", self.place(body, place)));
                items.push(("target", target.as_usize().to_string()));
                items.push(("unwind", self.unwind(unwind)));
            }
            TerminatorKind::Call { func, args, destination, target, unwind, fn_span, .. } => {
                items.push(("k", esc("call")));
                let mut callee = "null".to_string();
                let mut gargs = "[]".to_string();
                let mut resolved = "null".to_string();
                let mut resolved_local = "false".to_string();
                let mut self_ty = "null".to_string();
                let mut trait_of = "null".to_string();
                if let Some((did, ga)) = func.const_fn_def() {
                    callee = esc(&self.path(did));
                    let gv: Vec<String> =
                        ga.iter().map(|a| esc(&with_no_trimmed_paths!(format!("{}", a)))).collect();
                    gargs = arr(gv);
                    if let Some(tr) = tcx.trait_of_assoc(did) {
                        trait_of = esc(&self.path(tr));
                        if let Some(st) = ga.types().next() {
                            self_ty = esc(&self.ty(st));
                        }
                    } else if let Some(imp) = tcx.inherent_impl_of_assoc(did) {
                        let st = tcx.type_of(imp).instantiate_identity().skip_norm_wip();
                        self_ty = esc(&self.ty(st));
                    }
                    let env = TypingEnv::post_analysis(tcx, owner);
                    if let Ok(Some(inst)) = Instance::try_resolve(tcx, env, did, ga) {
                        let rdid = inst.def_id();
                        resolved = esc(&self.path(rdid));
                        resolved_local = rdid.is_local().to_string();
                    }
                } else {
                    // indirect call through a value (closure / fn pointer)
                    items.push(("indirect", self.operand(owner, body, func)));
                }
                items.push(("callee", callee));
                items.push(("gargs", gargs));
                items.push(("trait", trait_of));
                items.push(("self_ty", self_ty));
                items.push(("resolved", resolved));
                items.push(("resolved_local", resolved_local));
                let av: Vec<String> = args.iter().map(|a| self.operand(owner, body, &a.node)).collect();
                items.push(("args", arr(av)));
                items.push(("dest", self.place(body, destination)));
                items.push((
                    "target",
                    match target {
                        Some(bb) => bb.as_usize().to_string(),
                        None => "null".into(),
                    },
                ));
                items.push(("unwind", self.unwind(unwind)));
                items.push(("fn_span", esc(&self.span(*fn_span))));
            }
            TerminatorKind::TailCall { .. } => items.push(("k", esc("tailcall"))),
            TerminatorKind::Assert { cond, expected, msg, target, unwind } => {
                items.push(("k", esc("assert")));
                items.push(("cond", self.operand(owner, body, cond)));
                items.push(("expected", expected.to_string()));
                let (kind, ops): (String, Vec<String>) = match &**msg {
                    AssertKind::BoundsCheck { len, index } => (
                        "BoundsCheck".into(),
                        vec![self.operand(owner, body, len), self.operand(owner, body, index)],
                    ),
                    AssertKind::Overflow(op, a, b) => (
                        format!("Overflow({:?})", op),
                        vec![self.operand(owner, body, a), self.operand(owner, body, b)],
                    ),
                    AssertKind::OverflowNeg(a) => ("OverflowNeg".into(), vec![self.operand(owner, body, a)]),
                    AssertKind::DivisionByZero(a) => {
                        ("DivisionByZero".into(), vec![self.operand(owner, body, a)])
                    }
                    AssertKind::RemainderByZero(a) => {
                        ("RemainderByZero".into(), vec![self.operand(owner, body, a)])
                    }
                    AssertKind::MisalignedPointerDereference { .. } => ("MisalignedPointer".into(), vec![]),
                    AssertKind::NullPointerDereference => ("NullPointer".into(), vec![]),
                    AssertKind::InvalidEnumConstruction(_) => ("InvalidEnum".into(), vec![]),
                    _ => ("Other".into(), vec![]),
                };
                items.push(("akind", esc(&kind)));
                items.push(("ops", arr(ops)));
                items.push(("target", target.as_usize().to_string()));
                items.push(("unwind", self.unwind(unwind)));
            }
            other => {
                items.push(("k", esc("other")));
                items.push(("what", esc(&format!("{:?}", other).chars().take(80).collect::<String>())));
            }
        }
        items.push(("span", esc(&self.span(sp))));
        items.push(("expn", self.expn(sp)));
        obj(items)
    }

    fn body(&self, did: DefId) -> String {
        let tcx = self.tcx;
        let body: &Body<'tcx> = tcx.optimized_mir(did);
        let kind = tcx.def_kind(did);
        let mut items: Vec<(&str, String)> = vec![];
        items.push(("path", esc(&self.path(did))));
        items.push(("kind", esc(&format!("{:?}", kind))));
        items.push(("span", esc(&self.span(tcx.def_span(did)))));
        items.push(("expn", self.expn(tcx.def_span(did))));
        // enclosing impl / trait
        let mut impl_self = "null".to_string();
        let mut impl_trait = "null".to_string();
        let mut vis = "null".to_string();
        let mut name = "null".to_string();
        if matches!(kind, DefKind::Fn | DefKind::AssocFn) {
            vis = esc(&format!("{:?}", tcx.visibility(did)));
            name = esc(&tcx.item_name(did).to_string());
            if let Some(imp) = tcx.impl_of_assoc(did) {
                let st = tcx.type_of(imp).instantiate_identity().skip_norm_wip();
                impl_self = esc(&self.ty(st));
                if let Some(tr) = tcx.impl_opt_trait_ref(imp) {
                    let tr = tr.instantiate_identity().skip_norm_wip();
                    impl_trait = esc(&self.path(tr.def_id));
                }
            }
        }
        if matches!(kind, DefKind::Closure) {
            let parent = tcx.parent(did);
            items.push(("parent", esc(&self.path(parent))));
        }
        items.push(("name", name));
        items.push(("vis", vis));
        items.push(("impl_self", impl_self));
        items.push(("impl_trait", impl_trait));
        items.push(("arg_count", body.arg_count.to_string()));
        // locals
        let mut names: Vec<Option<String>> = vec![None; body.local_decls.len()];
        let mut vdi = vec![];
        for v in body.var_debug_info.iter() {
            if let VarDebugInfoContents::Place(p) = &v.value {
                if p.projection.is_empty() {
                    names[p.local.as_usize()] = Some(v.name.to_string());
                }
                vdi.push(obj(vec![("name", esc(&v.name.to_string())), ("place", self.place(body, p))]));
            }
        }
        let mut locals = vec![];
        for (l, d) in body.local_decls.iter_enumerated() {
            locals.push(obj(vec![
                ("ty", esc(&self.ty(d.ty))),
                ("name", opt_str(names[l.as_usize()].clone())),
            ]));
        }
        items.push(("locals", arr(locals)));
        items.push(("debuginfo", arr(vdi)));
        // blocks
        let mut blocks = vec![];
        for (_bb, data) in body.basic_blocks.iter_enumerated() {
            let stmts: Vec<String> = data.statements.iter().filter_map(|s| self.stmt(did, body, s)).collect();
            let term = match &data.terminator {
                Some(t) => self.term(did, body, t),
                None => "null".into(),
            };
            blocks.push(obj(vec![
                ("stmts", arr(stmts)),
                ("term", term),
                ("cleanup", data.is_cleanup.to_string()),
            ]));
        }
        items.push(("blocks", arr(blocks)));
        // promoted constants (e.g. `&(1980..=2107)`): their tiny bodies, so that rules can see the values
        let mut proms = vec![];
        for pbody in tcx.promoted_mir(did).iter() {
            let mut pblocks = vec![];
            for (_bb, data) in pbody.basic_blocks.iter_enumerated() {
                let stmts: Vec<String> = data.statements.iter().filter_map(|s| self.stmt(did, pbody, s)).collect();
                let term = match &data.terminator {
                    Some(t) => self.term(did, pbody, t),
                    None => "null".into(),
                };
                pblocks.push(obj(vec![("stmts", arr(stmts)), ("term", term), ("cleanup", data.is_cleanup.to_string())]));
            }
            let mut plocals = vec![];
            for (_l, d) in pbody.local_decls.iter_enumerated() {
                plocals.push(obj(vec![("ty", esc(&self.ty(d.ty))), ("name", "null".into())]));
            }
            proms.push(obj(vec![("locals", arr(plocals)), ("blocks", arr(pblocks))]));
        }
        items.push(("promoted", arr(proms)));
        obj(items)
    }

    fn type_tree(&self, t: Ty<'tcx>, depth: usize, out: &mut Vec<String>) {
        // flat list of every ADT path / primitive mentioned in a type (for interior-mutability walks)
        if depth > 12 {
            return;
        }
        for arg in t.walk() {
            if let Some(t) = arg.as_type() {
                match t.kind() {
                    ty::Adt(def, _) => out.push(self.path(def.did())),
                    ty::RawPtr(..) => out.push("*raw".into()),
                    ty::Dynamic(..) => out.push("dyn".into()),
                    _ => {}
                }
            }
        }
    }

    fn adts(&self) -> String {
        let tcx = self.tcx;
        let mut v = vec![];
        for id in tcx.hir_free_items() {
            let did = id.owner_id.to_def_id();
            let kind = tcx.def_kind(did);
            if !matches!(kind, DefKind::Struct | DefKind::Enum | DefKind::Union) {
                continue;
            }
            let def = tcx.adt_def(did);
            let mut variants = vec![];
            let discrs: Vec<(rustc_abi::VariantIdx, u128)> = if def.is_enum() {
                def.discriminants(tcx).map(|(i, d)| (i, d.val)).collect()
            } else {
                vec![]
            };
            for (vidx, var) in def.variants().iter_enumerated() {
                let mut fields = vec![];
                for f in var.fields.iter() {
                    let fty = tcx.type_of(f.did).instantiate_identity().skip_norm_wip();
                    let mut tree = vec![];
                    self.type_tree(fty, 0, &mut tree);
                    fields.push(obj(vec![
                        ("name", esc(&f.name.to_string())),
                        ("ty", esc(&self.ty(fty))),
                        ("vis", esc(&format!("{:?}", f.vis))),
                        ("mentions", arr(tree.iter().map(|s| esc(s)).collect())),
                    ]));
                }
                let d = discrs.iter().find(|(i, _)| *i == vidx).map(|(_, d)| d.to_string());
                variants.push(obj(vec![
                    ("name", esc(&var.name.to_string())),
                    ("discr", d.unwrap_or("null".into())),
                    ("fields", arr(fields)),
                ]));
            }
            // auto traits as rustc itself decides them (identity substitution, the item's own where-clauses as environment)
            let mut send = "null".to_string();
            let mut sync = "null".to_string();
            {
                use rustc_infer::infer::TyCtxtInferExt;
                use rustc_trait_selection::infer::InferCtxtExt;
                let ty = tcx.type_of(did).instantiate_identity().skip_norm_wip();
                let tenv = TypingEnv::post_analysis(tcx, did);
                let (infcx, penv) = tcx.infer_ctxt().build_with_typing_env(tenv);
                if let Some(sd) = tcx.get_diagnostic_item(rustc_span::sym::Send) {
                    send = infcx.type_implements_trait(sd, [ty], penv).must_apply_modulo_regions().to_string();
                }
                if let Some(sd) = tcx.get_diagnostic_item(rustc_span::sym::Sync) {
                    sync = infcx.type_implements_trait(sd, [ty], penv).must_apply_modulo_regions().to_string();
                }
            }
            v.push(obj(vec![
                ("path", esc(&self.path(did))),
                ("kind", esc(&format!("{:?}", kind))),
                ("send", send),
                ("sync", sync),
                ("generics", tcx.generics_of(did).count().to_string()),
                ("vis", esc(&format!("{:?}", tcx.visibility(did)))),
                ("span", esc(&self.span(tcx.def_span(did)))),
                ("variants", arr(variants)),
            ]));
        }
        arr(v)
    }

    fn impls(&self) -> String {
        let tcx = self.tcx;
        let mut v = vec![];
        for (trait_did, impls) in tcx.all_local_trait_impls(()).iter() {
            for imp in impls.iter() {
                let idid = imp.to_def_id();
                let st = tcx.type_of(idid).instantiate_identity().skip_norm_wip();
                let methods: Vec<String> = tcx
                    .associated_items(idid)
                    .in_definition_order()
                    .map(|a| esc(&self.path(a.def_id)))
                    .collect();
                v.push(obj(vec![
                    ("trait", esc(&self.path(*trait_did))),
                    ("self_ty", esc(&self.ty(st))),
                    ("span", esc(&self.span(tcx.def_span(idid)))),
                    ("expn", self.expn(tcx.def_span(idid))),
                    ("items", arr(methods)),
                ]));
            }
        }
        arr(v)
    }

    fn consts(&self) -> String {
        let tcx = self.tcx;
        let mut v = vec![];
        for ldid in tcx.hir_body_owners() {
            let did = ldid.to_def_id();
            let kind = tcx.def_kind(did);
            match kind {
                DefKind::Const { .. } | DefKind::AssocConst { .. } => {
                    let ty = tcx.type_of(did).instantiate_identity().skip_norm_wip();
                    let mut items = vec![
                        ("path", esc(&self.path(did))),
                        ("kind", esc("const")),
                        ("ty", esc(&self.ty(ty))),
                        ("span", esc(&self.span(tcx.def_span(did)))),
                    ];
                    // initialiser body of non-scalar constants (e.g. `const MASK: Wrapping<u32> = Wrapping(0xff)`), so that rules can
                    // look through a named constant exactly as through a literal
                    if !(ty.is_integral() || ty.is_bool() || ty.is_char()) {
                        let cbody: &Body<'tcx> = tcx.mir_for_ctfe(did);
                        let mut cblocks = vec![];
                        for (_bb, data) in cbody.basic_blocks.iter_enumerated() {
                            let stmts: Vec<String> = data.statements.iter().filter_map(|s| self.stmt(did, cbody, s)).collect();
                            let term = match &data.terminator {
                                Some(t) => self.term(did, cbody, t),
                                None => "null".into(),
                            };
                            cblocks.push(obj(vec![("stmts", arr(stmts)), ("term", term), ("cleanup", data.is_cleanup.to_string())]));
                        }
                        let mut clocals = vec![];
                        for (_l, d) in cbody.local_decls.iter_enumerated() {
                            clocals.push(obj(vec![("ty", esc(&self.ty(d.ty))), ("name", "null".into())]));
                        }
                        items.push(("body", obj(vec![("locals", arr(clocals)), ("blocks", arr(cblocks))])));
                    }
                    if ty.is_integral() || ty.is_bool() {
                        if let Ok(val) = tcx.const_eval_poly(did) {
                            if let Some(si) = val.try_to_scalar_int() {
                                items.push(("v", si.to_bits_unchecked().to_string()));
                            }
                        }
                    } else if let ty::Array(elem, _) = ty.kind() {
                        if elem.is_integral() {
                            if let Ok(val) = tcx.const_eval_poly(did) {
                                if let rustc_middle::mir::ConstValue::Indirect { alloc_id, offset } = val {
                                    if let Some(alloc) = tcx.try_get_global_alloc(alloc_id) {
                                        if let rustc_middle::mir::interpret::GlobalAlloc::Memory(m) = alloc {
                                            let a = m.inner();
                                            let len = a.len();
                                            let off = offset.bytes() as usize;
                                            if len <= 1 << 16 && off <= len {
                                                let bytes = a.inspect_with_uninit_and_ptr_outside_interpreter(off..len);
                                                items.push(("bytes", arr(bytes.iter().map(|b| b.to_string()).collect())));
                                            }
                                        }
                                    }
                                }
                            }
                        }
                    } else if let ty::Ref(_, inner, _) = ty.kind() {
                        if inner.is_str() {
                            if let Ok(val) = tcx.const_eval_poly(did) {
                                if let Some(b) = val.try_get_slice_bytes_for_diagnostics(tcx) {
                                    if let Ok(s) = std::str::from_utf8(b) {
                                        items.push(("str", esc(s)));
                                    }
                                }
                            }
                        }
                    }
                    v.push(obj(items));
                }
                DefKind::Static { mutability, .. } => {
                    let ty = tcx.type_of(did).instantiate_identity().skip_norm_wip();
                    let mut items = vec![
                        ("path", esc(&self.path(did))),
                        ("kind", esc(if mutability.is_mut() { "static mut" } else { "static" })),
                        ("ty", esc(&self.ty(ty))),
                        ("span", esc(&self.span(tcx.def_span(did)))),
                    ];
                    if let Ok(alloc) = tcx.eval_static_initializer(did) {
                        let a = alloc.inner();
                        let len = a.len();
                        if len <= 1 << 16 && a.provenance().ptrs().is_empty() {
                            let bytes = a.inspect_with_uninit_and_ptr_outside_interpreter(0..len);
                            items.push(("bytes", arr(bytes.iter().map(|b| b.to_string()).collect())));
                        }
                    }
                    v.push(obj(items));
                }
                _ => {}
            }
        }
        arr(v)
    }

    fn sigs(&self) -> String {
        // signatures of fns (argument types, return type) for items with bodies
        let tcx = self.tcx;
        let mut v = vec![];
        for ldid in tcx.hir_body_owners() {
            let did = ldid.to_def_id();
            let kind = tcx.def_kind(did);
            if !matches!(kind, DefKind::Fn | DefKind::AssocFn) {
                continue;
            }
            let sig = tcx.fn_sig(did).instantiate_identity().skip_norm_wip().skip_binder();
            let ins: Vec<String> = sig.inputs().iter().map(|t| esc(&self.ty(*t))).collect();
            v.push(obj(vec![
                ("path", esc(&self.path(did))),
                ("inputs", arr(ins)),
                ("output", esc(&self.ty(sig.output()))),
                ("unsafe", (!sig.safety().is_safe()).to_string()),
            ]));
        }
        arr(v)
    }
}

struct Cb {
    out: String,
    krate: String,
}

impl Callbacks for Cb {
    fn after_analysis<'tcx>(&mut self, _c: &Compiler, tcx: TyCtxt<'tcx>) -> Compilation {
        if tcx.crate_name(LOCAL_CRATE).as_str() != self.krate {
            return Compilation::Continue;
        }
        // only the lib target (cargo check --lib); tests/examples are other crate names anyway
        let cx = Cx { tcx };
        let mut fns = vec![];
        for ldid in tcx.hir_body_owners() {
            let did = ldid.to_def_id();
            let kind = tcx.def_kind(did);
            if matches!(kind, DefKind::Fn | DefKind::AssocFn | DefKind::Closure) {
                if tcx.is_mir_available(did) {
                    fns.push(cx.body(did));
                }
            }
        }
        let feats: Vec<String> = tcx
            .sess
            .opts
            .cg
            .target_feature
            .split(',')
            .filter(|s| !s.is_empty())
            .map(|s| esc(s))
            .collect();
        let mut cfgs: Vec<String> = vec![];
        for (name, val) in tcx.sess.config.iter() {
            if name.as_str() == "feature" {
                if let Some(v) = val {
                    cfgs.push(esc(v.as_str()));
                }
            }
        }
        cfgs.sort();
        let _ = feats;
        let doc = obj(vec![
            ("crate", esc(&self.krate)),
            ("features", arr(cfgs)),
            ("overflow_checks", tcx.sess.overflow_checks().to_string()),
            ("fns", arr(fns)),
            ("adts", cx.adts()),
            ("impls", cx.impls()),
            ("consts", cx.consts()),
            ("sigs", cx.sigs()),
        ]);
        std::fs::write(&self.out, doc).expect("zipfacts: cannot write facts");
        Compilation::Continue
    }
}

fn main() {
    let mut args: Vec<String> = std::env::args().collect();
    // RUSTC_WORKSPACE_WRAPPER: argv[1] is the real rustc path
    if args.len() > 1 && (args[1].ends_with("rustc") || args[1].contains("/rustc")) {
        args.remove(1);
    }
    let out = std::env::var("ZIPFACTS_OUT").unwrap_or_else(|_| "/dev/null".into());
    let krate = std::env::var("ZIPFACTS_CRATE").unwrap_or_else(|_| "zip".into());
    let mut cb = Cb { out, krate };
    rustc_driver::run_compiler(&args, &mut cb);
}
