#!/usr/bin/env python3
"""import_round.py <base> <round> <confirm-results-dir> : copy every independently confirmed change of a sub-agent round into seeded/<P>-r<round>m<N>/"""
import os, sys, shutil, json
base, rnd, res = sys.argv[1], int(sys.argv[2]), sys.argv[3]
here = os.path.dirname(os.path.dirname(os.path.abspath(__file__)))
ok = bad = 0
for p in sorted(os.listdir(base)):
    for n in (1, 2, 3):
        cf = os.path.join(res, "%s-%d.txt" % (p, n))
        if not os.path.exists(cf):
            continue
        conf = dict(l.strip().split("=", 1) for l in open(cf) if "=" in l and not l.startswith("SUITE_COUNTS"))
        good = conf.get("APPLY") == "ok" and conf.get("SUITE_WITH") == "pass" and conf.get("DEMO_WITH") == "fail" and conf.get("DEMO_WITHOUT") == "pass"
        sid = "%s-r%dm%d" % (p, rnd, n)
        if not good:
            print("REJECTED", sid, conf); bad += 1
            continue
        d = os.path.join(here, "seeded", sid)
        os.makedirs(d, exist_ok=True)
        m = os.path.join(base, p, "MUTANTS")
        shutil.copy(os.path.join(m, "m%d.diff" % n), os.path.join(d, "patch.diff"))
        shutil.copy(os.path.join(m, "m%d_demo.rs" % n), os.path.join(d, "demo.rs"))
        shutil.copy(os.path.join(m, "m%d.json" % n), os.path.join(d, "agent.json"))
        shutil.copy(cf, os.path.join(d, "confirm.txt"))
        ok += 1
print("imported", ok, "rejected", bad)
