#!/usr/bin/env python3
"""(re)generate tables/config_na.json from the CURRENT tree: every rule instance that fails only because its anchor is compiled
out under a non-default feature configuration.  Run on the pinned/repaired tree only, then REVIEW the distinct keys it prints:
each must be explained by a feature being off (AES absent, no compressing method, `unreserved` lifting the extra-ID table...)."""
import json, os, re, subprocess, sys
HERE = os.path.dirname(os.path.dirname(os.path.abspath(__file__)))
open(os.path.join(HERE, "tables", "config_na.json"), "w").write("{}")
na = {}
for i in range(1, 21):
    p = "C%02d" % i
    r = subprocess.run([os.path.join(HERE, "verif"), "check", p, "--thorough"], env=dict(os.environ, VERIF_EVID="/var/tmp/gen-na-ev"),
                       stdout=subprocess.PIPE, stderr=subprocess.STDOUT, text=True)
    for m in re.finditer(r"^  rule=(\S+)\[([^\]]+)\] key=(\S+)$", r.stdout, re.M):
        rule, cfg, key = m.group(1), m.group(2), m.group(3)
        rule = rule.split("/", 1)[-1]
        na.setdefault(cfg, set()).add("%s|%s" % (rule, key))
out = {c: sorted(v) for c, v in sorted(na.items())}
json.dump(out, open(os.path.join(HERE, "tables", "config_na.json"), "w"), indent=1, sort_keys=True)
alls = sorted({k for v in out.values() for k in v})
for k in alls:
    print(k, "  <-", ",".join(c for c in out if k in out[c]))
