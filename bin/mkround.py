#!/usr/bin/env python3
"""mkround.py <round-dir> [props...] : create one scratch worktree of /repo per property under <round-dir>/<Cxx> with PROPERTY.txt
(the property's text from properties.jsonl, and one-line summaries of the breaking changes already in seeded/ so that authors do not repeat them).
Nothing else from /verif goes in."""
import json, os, subprocess, sys, glob
base = sys.argv[1]; want = sys.argv[2:]
here = os.path.dirname(os.path.dirname(os.path.abspath(__file__)))
props = [json.loads(l) for l in open(os.path.join(here, "properties.jsonl"))]
os.makedirs(base, exist_ok=True)
for p in props:
    pid = p["id"]
    if want and pid not in want:
        continue
    wt = os.path.join(base, pid)
    if not os.path.exists(wt):
        subprocess.run(["git", "-C", "/repo", "worktree", "add", "--detach", wt, "HEAD"], check=True, stdout=subprocess.DEVNULL, stderr=subprocess.DEVNULL)
    os.makedirs(os.path.join(wt, "MUTANTS"), exist_ok=True)
    known = []
    for m in sorted(glob.glob(os.path.join(here, "seeded", pid + "-*", "meta.json"))):
        s = json.load(open(m))["summary"]
        known.append("- " + s[:400])
    with open(os.path.join(wt, "PROPERTY.txt"), "w") as fh:
        fh.write("PROPERTY %s: %s\n\nSTATEMENT\n%s\n\nQUANTIFIER (what it ranges over)\n%s\n\nWHY ORDINARY TESTS CANNOT SETTLE IT\n%s\n\nANCHORS (code the property is about)\n%s\n\n"
                 % (pid, p["title"], p["statement"], p["quantifier"], p["why_tests_cant"], json.dumps(p["anchors"], indent=1)))
        fh.write("ALREADY-KNOWN BREAKING CHANGES (do not reproduce these or close variants)\n" + "\n".join(known) + "\n")
    print(wt)
