#!/bin/bash
# E1 runner: extract facts from /repo's *current working tree* through the real cargo build.
# usage: extract.sh <out.json> [cargo feature args...]
# env: VERIF_REPO (default /repo)
set -euo pipefail
OUT="$1"; shift || true
REPO="${VERIF_REPO:-/repo}"
HERE="$(cd "$(dirname "$0")/.." && pwd)"
DRV="$HERE/zipfacts/target/debug/zipfacts"
CACHE="${VERIF_CACHE:-$HERE/.cache}"
TGT="$CACHE/target"
mkdir -p "$CACHE"
if [ ! -x "$DRV" ]; then
  (cd "$HERE/zipfacts" && CARGO_NET_OFFLINE=true cargo build --offline >/dev/null 2>&1) || { echo "extract: driver build failed" >&2; exit 3; }
fi
SYSROOT="$(rustc +nightly --print sysroot)"
exec 9>"$CACHE/lock"
flock 9
# cargo's freshness cache would silently skip the wrapper: drop the member's fingerprints
rm -rf "$TGT"/debug/.fingerprint/zip-* 2>/dev/null || true
rm -f "$OUT"
cd "$REPO"
if ! ZIPFACTS_OUT="$OUT" ZIPFACTS_CRATE=zip \
   LD_LIBRARY_PATH="$SYSROOT/lib" \
   RUSTC_WORKSPACE_WRAPPER="$DRV" \
   CARGO_TARGET_DIR="$TGT" \
   CARGO_NET_OFFLINE=true \
   RUSTFLAGS="-Zmir-opt-level=0 -Awarnings" \
   cargo +nightly check --offline --lib "$@" >"$CACHE/cargo.log" 2>&1; then
  echo "extract: cargo check failed (see $CACHE/cargo.log)" >&2
  tail -30 "$CACHE/cargo.log" >&2
  exit 3
fi
if [ ! -s "$OUT" ]; then
  echo "extract: fact file missing after cargo check" >&2
  exit 3
fi
