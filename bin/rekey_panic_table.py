#!/usr/bin/env python3
"""Maintenance helper: re-key tables/panic_sites.json to the exact keys of the current (pinned) tree, keeping each entry's reason.
Run only after reviewing that every fallback match is the same site."""
import json, os, re, sys
HERE = os.path.dirname(os.path.dirname(os.path.abspath(__file__)))
sys.path.insert(0, HERE)
from engine.mir import Facts
from engine.panics import enumerate_sites, discharge, const_return_summaries
from rules.shared_panic import is_read_root, is_write_root, is_time_root, load_reviewed
F = Facts(os.path.join(HERE, ".cache", "facts-default.json")).with_inlining()
summ = const_return_summaries(F)
roots = [f.path for f in F.fns if is_read_root(f) or is_write_root(f) or is_time_root(f)]
reach, _ = F.reachable_from(roots)
rev = load_reviewed()
sites = []
for f in F.fns:
    if f.path in reach:
        for s in enumerate_sites(F, f):
            cls, why = discharge(F, s, summ)
            if not cls:
                sites.append(s)
present = {s.key for s in sites}
out = []
used = set()
unmatched = []
for s in sites:
    ent = rev.get(s.key)
    if ent is None:
        suf = s.key.split("|", 1)[1].split("#")[0]
        c = [e for k, e in rev.items() if k.split("|", 1)[1] == suf and k not in used]
        if len(c) == 1:
            ent = c[0]
    if ent is None:
        fnk = "|".join(s.key.split("|")[:2]) + "|"
        mine = set(re.split(r"[,;:]", s.key.split("|", 2)[2].split("#")[0])) - {""}
        best = []
        for k, e in rev.items():
            if k.startswith(fnk) and k not in used and k not in present:
                theirs = set(re.split(r"[,;:]", k.split("|", 2)[2].split("#")[0])) - {""}
                best.append((len(mine & theirs) / max(1, len(mine | theirs)), e))
        best.sort(key=lambda x: -x[0])
        if best and best[0][0] >= 0.5:
            ent = best[0][1]
    if ent is None:
        unmatched.append(s.key)
        continue
    used.add(ent["key"])
    e2 = dict(ent)
    e2["key"] = s.key
    out.append(e2)
print(len(out), "entries;", len(unmatched), "unmatched:", unmatched)
if "--write" in sys.argv:
    json.dump(out, open(os.path.join(HERE, "tables", "panic_sites.json"), "w"), indent=1)
