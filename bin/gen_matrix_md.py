#!/usr/bin/env python3
"""seeded/MATRIX.md and benign/MATRIX.md from the stored verdicts (fired.txt written by bin/seedmatrix)"""
import json, os, re, glob
HERE = os.path.dirname(os.path.dirname(os.path.abspath(__file__)))
rows = []
for d in sorted(glob.glob(os.path.join(HERE, "seeded", "*"))):
    if not os.path.isdir(d):
        continue
    m = json.load(open(os.path.join(d, "meta.json")))
    s = (m.get("summary") or "").replace("|", "/").replace("\n", " ")
    rows.append("| %s | %s | %s | %s | %s |" % (m["id"], m["round"], s[:150] + ("…" if len(s) > 150 else ""), " ".join(m["checks_that_fire"]) or "-",
                                            m.get("first_run_before_hardening", "own (after round-1 hardening)" if m["round"] == 1 else "?")))
with open(os.path.join(HERE, "seeded", "MATRIX.md"), "w") as fh:
    fh.write("# Catch matrix of the seeded breaking changes\n\nEach change: written by a fresh sub-agent from the property text only, confirmed independently "
             "(existing suite passes with it, its demonstration fails with it and passes without it), never committed to /repo. `checks that fire` is the "
             "verdict of the CURRENT checks (regenerate: `bin/seedmatrix seeded && python3 bin/seed_meta.py && python3 bin/gen_matrix_md.py`). "
             "`first run` is what the checks said the first time they saw a round-2 or later change, before any rule was touched for it.\n\n")
    fh.write("| id | round | change | checks that fire (property[rules]) | first run |\n|---|---|---|---|---|\n" + "\n".join(rows) + "\n")
rows = []
for d in sorted(glob.glob(os.path.join(HERE, "benign", "*"))):
    if not os.path.isdir(d):
        continue
    a = json.load(open(os.path.join(d, "agent.json"))) if os.path.exists(os.path.join(d, "agent.json")) else {}
    f = open(os.path.join(d, "fired.txt")).read().strip() if os.path.exists(os.path.join(d, "fired.txt")) else "?"
    m = re.search(r"FIRED: (.*)", f)
    s = (a.get("summary") or "").replace("|", "/").replace("\n", " ")
    rows.append("| %s | %s | %s |" % (os.path.basename(d), s[:170] + ("…" if len(s) > 170 else ""), m.group(1) if m else f[:60]))
with open(os.path.join(HERE, "benign", "MATRIX.md"), "w") as fh:
    fh.write("# Behaviour-preserving refactorings (negative controls)\n\nEach: written by a fresh sub-agent told to change the code without changing behaviour; the "
             "existing suite passes. The checks must stay silent (`-`).\n\n| id | refactoring | checks that fire |\n|---|---|---|\n" + "\n".join(rows) + "\n")
print("ok")
