#!/bin/bash
# Confirm every agent-produced mutant independently: (1) existing suite passes with the change, (2) its demo fails with the change,
# (3) its demo passes without it.  Results -> /var/tmp/cm-results/<prop>-<n>.txt ; scratch worktree + target removed at the end.
set -u
RES=${CMRES:-/var/tmp/cm-results}; mkdir -p $RES
WT=/var/tmp/cm-wt${CMID:-}; TGT=/var/tmp/cm-target${CMID:-}
git -C /repo worktree remove --force $WT >/dev/null 2>&1; rm -rf $WT
git -C /repo worktree add --detach $WT HEAD >/dev/null 2>&1 || exit 3
export CARGO_TARGET_DIR=$TGT CARGO_NET_OFFLINE=true RUST_BACKTRACE=0
cd $WT
for P in "$@"; do
  for N in ${CMN:-1 2}; do
    D=${MUTBASE:-/tmp/mut}/$P/MUTANTS
    [ -f $D/m$N.diff ] || { echo "$P m$N: missing" > $RES/$P-$N.txt; continue; }
    git checkout -q -- . ; rm -f tests/mutdemo_*.rs
    OUT=$RES/$P-$N.txt; : > $OUT
    if ! git apply $D/m$N.diff 2>>$OUT; then echo "APPLY=fail" >> $OUT; continue; fi
    echo "APPLY=ok" >> $OUT
    if timeout 1200 cargo test --offline --workspace --no-fail-fast >$RES/$P-$N.suite.log 2>&1; then echo "SUITE_WITH=pass" >> $OUT; else echo "SUITE_WITH=FAIL" >> $OUT; fi
    grep -E "^test result" $RES/$P-$N.suite.log | awk '{p+=$4; f+=$6} END {print "SUITE_COUNTS passed=" p " failed=" f}' >> $OUT
    cp $D/m${N}_demo.rs tests/mutdemo_${P}_$N.rs
    if timeout 1200 cargo test --offline --test mutdemo_${P}_$N >$RES/$P-$N.demo_with.log 2>&1; then echo "DEMO_WITH=pass(UNEXPECTED)" >> $OUT; else echo "DEMO_WITH=fail" >> $OUT; fi
    git checkout -q -- src
    if timeout 1200 cargo test --offline --test mutdemo_${P}_$N >$RES/$P-$N.demo_without.log 2>&1; then echo "DEMO_WITHOUT=pass" >> $OUT; else echo "DEMO_WITHOUT=FAIL(UNEXPECTED)" >> $OUT; fi
    rm -f tests/mutdemo_*.rs
  done
done
cd /; git -C /repo worktree remove --force $WT >/dev/null 2>&1; rm -rf $WT $TGT
echo DONE > $RES/DONE${CMID:-}
