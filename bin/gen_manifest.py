#!/usr/bin/env python3
"""Generate /verif/MANIFEST.json from the claim table below (kept in one place so the manifest is always schema-valid)."""
import json
import os
import subprocess

HERE = os.path.dirname(os.path.dirname(os.path.abspath(__file__)))

TRUST = ("Trusted base: rustc nightly front-end/MIR construction and Instance::try_resolve; cargo's cfg/feature computation; "
         "the /verif/spec transcriptions of APPNOTE 6.3.9 / WinZip AES; std and dependency contracts (Read/Write count contract, "
         "Path::components, io::Take, HashMap::insert); dependencies do not panic. ")

# property -> (technique, level text, residue / assumptions, design_ref)
CLAIMS = {}


def claim(pid, technique, text, note, ref):
    CLAIMS[pid] = dict(technique=technique, text=text, note=note, ref=ref)


NOT_YET = {}


def load_claims():
    import importlib.util
    spec = importlib.util.spec_from_file_location("claims", os.path.join(HERE, "claims.py"))
    m = importlib.util.module_from_spec(spec)
    m.claim = claim
    m.NOT_APPLICABLE = {}
    m.ADDENDA = {}
    m.TECH_ADD = {}
    spec.loader.exec_module(m)
    for pid, extra in m.TECH_ADD.items():
        if pid in CLAIMS:
            CLAIMS[pid]["technique"] = CLAIMS[pid]["technique"].rstrip() + "; " + extra
    for pid, extra in m.ADDENDA.items():
        if pid in CLAIMS:
            CLAIMS[pid]["text"] = CLAIMS[pid]["text"].rstrip() + " " + extra
    return m.NOT_APPLICABLE


def main():
    na = load_claims()
    checks = []
    for pid in sorted(CLAIMS):
        c = CLAIMS[pid]
        checks.append({
            "property_id": pid,
            "quick_cmd": "./verif check %s" % pid,
            "thorough_cmd": "./verif check %s --thorough" % pid,
            "evidence_file": "/verif/evidence/%s.json" % pid,
            "replay_cmd_template": "./verif replay {path}",
            "engine": "zipfacts+rules",
            "level_claimed": {"category": "other", "text": c["text"], "design_ref": c["ref"]},
            "level_note": TRUST + c["note"],
            "technique": c["technique"],
        })
    props = [json.loads(l)["id"] for l in open(os.path.join(HERE, "properties.jsonl"))]
    nal = []
    for pid in props:
        if pid in CLAIMS:
            continue
        nal.append({"property_id": pid, "reason": na.get(pid, "not claimed yet: its rule module is under construction in this round")})
    man = {
        "version": 1,
        "setup_cmd": "./verif setup",
        "hooks": {
            "guard": "zip_rs_zip_verif",
            "enable": "none needed: the checks are static (rustc_private fact extraction under `cargo +nightly check`); no instrumentation "
                      "was added to /repo, the cfg name is reserved and unused",
            "baseline_off_cmd": "cd /repo && cargo test --workspace --no-fail-fast --offline",
            "source_commits": [],
            "add_only": True,
        },
        "engines": [
            {"name": "zipfacts", "path": "/verif/zipfacts", "serves_properties": sorted(CLAIMS),
             "kind_free_text": "rustc_private driver (RUSTC_WORKSPACE_WRAPPER under cargo +nightly check): dumps MIR bodies with resolved callees, "
                               "evaluated constants, ADTs, impls, statics of /repo's current tree as JSON"},
            {"name": "rules", "path": "/verif/rules", "serves_properties": sorted(CLAIMS),
             "kind_free_text": "Python rule modules over the facts: reaching definitions + expression reconstruction, dominators/guards, "
                               "interval analysis, call graph with CHA, path/decision tables, codec tables vs APPNOTE, constant tables"},
        ],
        "checks": checks,
        "notes": "Technique family: static analysis only; no check executes crate code. Genuine defects found by the rules were repaired in /repo "
                 "as separate unguarded `fix:` commits (see /verif/KNOWN_FINDINGS.txt and /verif/findings/); DESIGN.md explains every rule, "
                 "its floors, what it does not decide, and which seeded changes it catches.",
        "not_applicable": nal,
    }
    with open(os.path.join(HERE, "MANIFEST.json"), "w") as fh:
        json.dump(man, fh, indent=1)
    # validate
    try:
        import jsonschema
        schema = json.load(open("/root/.vp/MANIFEST.schema.json"))
        jsonschema.validate(man, schema)
        print("MANIFEST.json valid: %d checks, %d not_applicable" % (len(checks), len(nal)))
    except ImportError:
        print("MANIFEST.json written (jsonschema not importable here)")


if __name__ == "__main__":
    main()
