#!/usr/bin/env python3
"""gen_refusals.py : regenerate tables/refusals.json from /repo's current tree (default features). The result is a REVIEWED table: read the
diff before committing it -- every added line is a new way for the crate to turn an input or a call sequence away."""
import json, os, sys
HERE = os.path.dirname(os.path.dirname(os.path.abspath(__file__)))
sys.path.insert(0, HERE)
import importlib.machinery, importlib.util
loader = importlib.machinery.SourceFileLoader("verifcli", os.path.join(HERE, "verif"))
spec = importlib.util.spec_from_loader("verifcli", loader); v = importlib.util.module_from_spec(spec); loader.exec_module(v)
from rules.shared_refusals import inventory
facts = v.Ctx("quick").facts
inv = inventory(facts)
old = {}
try:
    old = json.load(open(os.path.join(HERE, "tables", "refusals.json")))
except Exception:
    pass
out = {"cfg_only": old.get("cfg_only", []), "_comment_cfg_only": old.get("_comment_cfg_only", ""), "_comment": "function (helpers inlined, closures attributed to the parent) -> [[kind, message], ...]; compared per function and kind by the number of distinct messages (rules/shared_refusals.py)",
       "functions": {k: [list(x) for x in inv[k]] for k in sorted(inv)}}
with open(os.path.join(HERE, "tables", "refusals.json"), "w") as fh:
    json.dump(out, fh, indent=1, sort_keys=True)
print("wrote %d functions, %d refusals" % (len(inv), sum(len(x) for x in inv.values())))
