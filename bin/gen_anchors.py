#!/usr/bin/env python3
"""(Re)generate tables/anchors.json: type-signature + call-profile fingerprints of the private functions the rules know by name,
taken from the pinned tree.  Used only to follow a *rename/move* of such a function (engine/mir.py Facts.resolve_renamed)."""
import glob, json, os, re, sys
HERE = os.path.dirname(os.path.dirname(os.path.abspath(__file__)))
sys.path.insert(0, HERE)
from engine.mir import Facts
F = Facts(sys.argv[1] if len(sys.argv) > 1 else os.path.join(HERE, ".cache", "facts-default.json"), canonicalize=False)
src = " ".join(open(p).read() for p in glob.glob(os.path.join(HERE, "rules", "*.py")))
words = set(re.findall(r"[A-Za-z_][A-Za-z0-9_]*", src))
out = {}
for f in F.fns:
    if f.kind == "Closure" or f.impl_trait or not f.name or f.name not in words:
        continue
    out.setdefault(f.name, []).append(F.fingerprint(f))
json.dump(out, open(os.path.join(HERE, "tables", "anchors.json"), "w"), indent=1, sort_keys=True)
print(len(out), "anchors")
