#!/usr/bin/env python3
"""mutsweep.py -- mechanical mutation sweep (development tool; not a check, registers nothing in MANIFEST.json).

Generates first-order syntactic mutants of /repo's library source (relational / arithmetic / logical / bitwise operator
replacement, integer-literal +-1, boolean flip, negation removal, statement deletion, a few method swaps), and for each one

  1. copies it into a private scratch copy of /repo (never /repo itself),
  2. runs every property's quick rules over it (`./verif matrix`, one fact extraction),
  3. if NO check fires: runs the crate's own test-suite on the mutant.

A mutant that compiles, is not reported by any check and passes the suite is a *survivor*: either an equivalent mutant
(behaviour unchanged -- silence is right) or a blind spot of the rules.  Survivors are triaged by hand; the triage and what was
added are in DESIGN.md section 9.6.

  mutsweep.py gen [--files a.rs,b.rs]            -> /var/tmp/ms/mutants.jsonl
  mutsweep.py run [--jobs N] [--limit K] [--seed S] [--only-op OP,...]   -> /var/tmp/ms/results.jsonl (resumable)
  mutsweep.py report                              -> summary + survivors
"""
import json, os, random, re, shutil, subprocess, sys, time
from multiprocessing import Pool

HERE = os.path.dirname(os.path.dirname(os.path.abspath(__file__)))
BASE = os.environ.get("MS_BASE", "/var/tmp/ms")
# the sweep works on a snapshot of /repo taken when the mutants were generated, so that /repo can move on while it runs
REPO = os.path.join(BASE, "pristine") if os.path.isdir(os.path.join(BASE, "pristine")) else "/repo"
SRC_FILES = ["src/read.rs", "src/write.rs", "src/types.rs", "src/spec.rs", "src/crc32.rs", "src/zipcrypto.rs", "src/aes.rs", "src/aes_ctr.rs",
             "src/compression.rs", "src/cp437.rs", "src/result.rs", "src/read/stream.rs", "src/unstable.rs"]


def code_mask(lines):
    """per line: list of booleans, True where the character is code (not in a comment, string or char literal); lines in
    #[cfg(test)] modules and attribute lines are fully masked"""
    masks = []
    in_block = False
    in_test = False
    for ln in lines:
        if re.match(r"\s*#\[cfg\(test\)\]", ln):
            in_test = True
        m = [False] * len(ln)
        if in_test or re.match(r"\s*(#\[|#!\[|//)", ln):
            masks.append(m)
            continue
        i = 0
        in_str = False
        while i < len(ln):
            c = ln[i]
            if in_block:
                if ln.startswith("*/", i):
                    in_block = False
                    i += 2
                    continue
                i += 1
                continue
            if in_str:
                if c == "\\":
                    i += 2
                    continue
                if c == '"':
                    in_str = False
                i += 1
                continue
            if ln.startswith("//", i):
                break
            if ln.startswith("/*", i):
                in_block = True
                i += 2
                continue
            if c == '"':
                in_str = True
                i += 1
                continue
            if c == "'":
                mm = re.match(r"'(\\.|[^\\'])'", ln[i:])
                if mm:
                    i += mm.end()
                    continue
            m[i] = True
            i += 1
        masks.append(m)
    return masks


OPS = [
    ("ROR", r" (<=|>=|==|!=|<|>) ", {"<": ["<=", ">"], "<=": ["<", "=="], ">": [">=", "<"], ">=": [">", "=="], "==": ["!="], "!=": ["=="]}),
    ("AOR", r" (\+|-|\*|/|%) ", {"+": ["-"], "-": ["+"], "*": ["+"], "/": ["*"], "%": ["/"]}),
    ("AOR=", r" (\+=|-=) ", {"+=": ["-=", "="], "-=": ["+=", "="]}),
    ("LOR", r" (&&|\|\|) ", {"&&": ["||"], "||": ["&&"]}),
    ("BIT", r" (&|\||\^|<<|>>) ", {"&": ["|"], "|": ["&"], "^": ["|"], "<<": [">>"], ">>": ["<<"]}),
    ("BOOL", r"\b(true|false)\b", {"true": ["false"], "false": ["true"]}),
    ("METH", r"\b(min|max|checked_add|checked_sub|saturating_sub|is_some|is_none|is_ok|is_err|wrapping_add|wrapping_sub|ok_or|unwrap_or_default|take|any|all|first|last)\(",
     {"min": ["max"], "max": ["min"], "checked_add": ["checked_sub"], "checked_sub": ["checked_add"], "saturating_sub": ["wrapping_sub"], "is_some": ["is_none"], "is_none": ["is_some"],
      "is_ok": ["is_err"], "is_err": ["is_ok"], "wrapping_add": ["wrapping_sub"], "wrapping_sub": ["wrapping_add"], "any": ["all"], "all": ["any"], "first": ["last"], "last": ["first"]}),
]


def gen(files):
    out = []
    for rel in files:
        path = os.path.join(REPO, rel)
        lines = open(path).read().split("\n")
        masks = code_mask(lines)
        for li, ln in enumerate(lines):
            mk = masks[li]
            if not any(mk):
                continue
            code = "".join(c if mk[i] else "\x00" for i, c in enumerate(ln))
            for name, rx, table in OPS:
                for m in re.finditer(rx, code):
                    tok = m.group(1)
                    for rep in table.get(tok, []):
                        s, e = m.start(1), m.end(1)
                        out.append(dict(file=rel, line=li + 1, col=s, op=name, frm=tok, to=rep, new=ln[:s] + rep + ln[e:]))
            # integer literals
            for m in re.finditer(r"(?<![\w.])(0x[0-9a-fA-F_]+|\d[\d_]*)(?![\w.]|\.\d)", code):
                tok = m.group(1)
                if li > 0 and re.search(r"\[u8; *$", code[:m.start()]):
                    continue
                try:
                    v = int(tok.replace("_", ""), 0)
                except ValueError:
                    continue
                for nv in ([v + 1] + ([v - 1] if v > 0 else [])):
                    rep = ("0x%x" % nv) if tok.startswith("0x") else str(nv)
                    out.append(dict(file=rel, line=li + 1, col=m.start(1), op="LIT", frm=tok, to=rep, new=ln[:m.start(1)] + rep + ln[m.end(1):]))
            # negation removal
            for m in re.finditer(r"(?<![\w\x00])!(?=[A-Za-z_(])", code):
                out.append(dict(file=rel, line=li + 1, col=m.start(), op="NEG", frm="!", to="", new=ln[:m.start()] + ln[m.start() + 1:]))
            # statement deletion (single-line expression statements)
            st = code.strip("\x00 ")
            if re.match(r"^[A-Za-z_(*][^\x00]*;$", st) and not re.match(r"^(let|return|use|pub|fn|const|static|type|mod|impl|struct|enum|break|continue|extern|trait)\b", st) \
                    and st.count("(") == st.count(")") and st.count("{") == st.count("}") and st.count("[") == st.count("]"):
                prev = "".join(c if masks[li - 1][i] else " " for i, c in enumerate(lines[li - 1])).rstrip() if li > 0 else ""
                if prev.endswith((";", "{", "}")) or prev == "":
                    out.append(dict(file=rel, line=li + 1, col=0, op="SDL", frm=st[:60], to="", new=""))
    # the two 256-entry tables (CRCTABLE, CP437) are sampled: one literal in 25
    kept, k = [], 0
    for m in out:
        ln = m["new"] if m["op"] != "SDL" else ""
        table = m["op"] == "LIT" and ((m["file"].endswith("zipcrypto.rs") and re.match(r"^\s*0x[0-9a-f]{8}, 0x", ln)) or (m["file"].endswith("cp437.rs") and re.search(r"^\s*0x[0-9a-f]{2} => ", ln)))
        if table:
            k += 1
            if k % 25:
                continue
        kept.append(m)
    out = kept
    for i, m in enumerate(out):
        m["id"] = i
    return out


def worker_dir(w):
    return os.path.join(BASE, "w%d" % w)


def setup_worker(w):
    d = worker_dir(w)
    r = os.path.join(d, "repo")
    if not os.path.exists(r):
        os.makedirs(d, exist_ok=True)
        subprocess.run(["rsync", "-a", "--exclude", "target", "--exclude", ".git", REPO + "/", r + "/"], check=True)
    c = os.path.join(d, "cache")
    if not os.path.exists(c):
        subprocess.run(["rsync", "-a", os.path.join(HERE, ".cache") + "/", c + "/"], check=True)
        for f in os.listdir(c):
            if f.startswith("facts-"):
                os.remove(os.path.join(c, f))
    return d


def run_one(args):
    w, m = args
    d = setup_worker(w)
    r = os.path.join(d, "repo")
    # restore pristine sources, then apply
    for rel in SRC_FILES:
        shutil.copyfile(os.path.join(REPO, rel), os.path.join(r, rel))
    p = os.path.join(r, m["file"])
    lines = open(p).read().split("\n")
    if m["op"] == "SDL":
        lines[m["line"] - 1] = ""
    else:
        lines[m["line"] - 1] = m["new"]
    open(p, "w").write("\n".join(lines))
    env = dict(os.environ, VERIF_REPO=r, VERIF_CACHE=os.path.join(d, "cache"), VERIF_EVID=os.path.join(d, "evid"), CARGO_NET_OFFLINE="true")
    t0 = time.time()
    pr = subprocess.run([os.path.join(HERE, "verif"), "matrix"], env=env, stdout=subprocess.PIPE, stderr=subprocess.STDOUT, text=True)
    out = pr.stdout
    res = dict(id=m["id"], file=m["file"], line=m["line"], op=m["op"], frm=m["frm"], to=m["to"], t_matrix=round(time.time() - t0, 1))
    fired = [l for l in out.splitlines() if l.startswith("FIRED:")]
    if pr.returncode == 2 or not fired:
        res["status"] = "nobuild"
        res["tail"] = out[-300:] if "cargo check failed" not in out else ""
        return res
    res["fired"] = fired[0][7:].strip()
    if res["fired"] != "-":
        res["status"] = "caught"
        return res
    if os.environ.get("MS_NOTESTS"):
        res["status"] = "silent"
        return res
    # silent: does the crate's own suite notice?
    t0 = time.time()
    env2 = dict(os.environ, CARGO_TARGET_DIR=os.path.join(d, "ttarget"), CARGO_NET_OFFLINE="true", RUST_BACKTRACE="0")
    try:
        # own process group, killed as a whole on timeout: a mutant that makes a test spin for ever must not outlive the sweep
        import signal
        pr_ = subprocess.Popen(["cargo", "test", "--offline", "--workspace", "--no-fail-fast"], cwd=r, env=env2, stdout=subprocess.PIPE, stderr=subprocess.STDOUT, text=True, start_new_session=True)
        try:
            out_, _ = pr_.communicate(timeout=900)
        except subprocess.TimeoutExpired:
            os.killpg(pr_.pid, signal.SIGKILL)
            pr_.communicate()
            raise

        class tr:       # noqa: N801
            returncode = pr_.returncode
            stdout = out_
        passed = tr.returncode == 0
        failing = sorted(set(re.findall(r"^test (\S+) \.\.\. FAILED", tr.stdout, re.M)))[:6]
        if "could not compile" in tr.stdout:
            res["status"] = "nobuild-tests"
            return res
    except subprocess.TimeoutExpired:
        passed, failing = False, ["TIMEOUT"]
    res["t_tests"] = round(time.time() - t0, 1)
    res["status"] = "survivor" if passed else "tests-only"
    res["failing"] = failing
    return res


def main():
    cmd = sys.argv[1]
    os.makedirs(BASE, exist_ok=True)
    mp = os.path.join(BASE, "mutants.jsonl")
    rp = os.path.join(BASE, "results.jsonl")
    if cmd == "gen":
        files = SRC_FILES
        if "--files" in sys.argv:
            files = sys.argv[sys.argv.index("--files") + 1].split(",")
        ms = gen(files)
        with open(mp, "w") as fh:
            for m in ms:
                fh.write(json.dumps(m) + "\n")
        from collections import Counter
        print(len(ms), "mutants", dict(Counter(m["op"] for m in ms)), dict(Counter(m["file"] for m in ms)))
        return
    if cmd == "run":
        jobs = int(sys.argv[sys.argv.index("--jobs") + 1]) if "--jobs" in sys.argv else 12
        limit = int(sys.argv[sys.argv.index("--limit") + 1]) if "--limit" in sys.argv else 10 ** 9
        seed = int(sys.argv[sys.argv.index("--seed") + 1]) if "--seed" in sys.argv else 1
        ms = [json.loads(l) for l in open(mp)]
        if "--only-op" in sys.argv:
            want = set(sys.argv[sys.argv.index("--only-op") + 1].split(","))
            ms = [m for m in ms if m["op"] in want]
        if "--only-file" in sys.argv:
            want = set(sys.argv[sys.argv.index("--only-file") + 1].split(","))
            ms = [m for m in ms if m["file"] in want]
        done = set()
        if os.path.exists(rp):
            done = {json.loads(l)["id"] for l in open(rp)}
        random.Random(seed).shuffle(ms)
        todo = [m for m in ms if m["id"] not in done][:limit]
        print("todo", len(todo), "done", len(done), flush=True)
        # one mutant per worker at a time: a pool of `jobs` processes, each bound to its own scratch copy
        from multiprocessing import Process, Queue
        q, outq = Queue(), Queue()
        for m in todo:
            q.put(m)
        for _ in range(jobs):
            q.put(None)

        def loop(w):
            while True:
                m = q.get()
                if m is None:
                    break
                try:
                    outq.put(run_one((w, m)))
                except Exception as e:      # noqa: BLE001
                    outq.put(dict(id=m["id"], status="error", err=str(e)[:200]))
        ps = [Process(target=loop, args=(w,)) for w in range(jobs)]
        for p in ps:
            p.start()
        with open(rp, "a") as fh:
            for i in range(len(todo)):
                r = outq.get()
                fh.write(json.dumps(r) + "\n")
                fh.flush()
                if r.get("status") in ("survivor",):
                    print("SURVIVOR", r["file"], r["line"], r["op"], r["frm"], "->", r["to"], flush=True)
        for p in ps:
            p.join()
        return
    if cmd == "one":
        # mutsweep.py one <file> <line> <op> [<frm> <to>] : evaluate matching mutants again with the rules as they are now (no tests)
        ms = [json.loads(l) for l in open(mp)]
        sel = [m for m in ms if m["file"].endswith(sys.argv[2]) and m["line"] == int(sys.argv[3]) and m["op"] == sys.argv[4] and
               (len(sys.argv) < 7 or (m["frm"] == sys.argv[5] and m["to"] == sys.argv[6]))]
        for m in sel:
            os.environ["MS_NOTESTS"] = "1"
            r = run_one((90, m))
            print(m["file"], m["line"], m["op"], m["frm"], "->", m["to"], "|", r.get("status"), r.get("fired", ""))
        return
    if cmd == "resurvey":
        # evaluate every survivor again with the rules as they are now (no tests); -> /var/tmp/ms/resurvey.jsonl
        rs = [json.loads(l) for l in open(rp)]
        ms = {json.loads(l)["id"]: json.loads(l) for l in open(mp)}
        sv = [ms[r["id"]] for r in rs if r["status"] == "survivor"]
        os.environ["MS_NOTESTS"] = "1"
        jobs = int(sys.argv[sys.argv.index("--jobs") + 1]) if "--jobs" in sys.argv else 8
        from multiprocessing import Process, Queue
        q, outq = Queue(), Queue()
        for m in sv:
            q.put(m)
        for _ in range(jobs):
            q.put(None)

        def loop(w):
            while True:
                m = q.get()
                if m is None:
                    break
                try:
                    outq.put(run_one((w + 50, m)))
                except Exception as e:      # noqa: BLE001
                    outq.put(dict(id=m["id"], status="error", err=str(e)[:200]))
        ps = [Process(target=loop, args=(w,)) for w in range(jobs)]
        for p in ps:
            p.start()
        with open(os.path.join(BASE, "resurvey.jsonl"), "w") as fh:
            for i in range(len(sv)):
                fh.write(json.dumps(outq.get()) + "\n")
                fh.flush()
        for p in ps:
            p.join()
        rr = [json.loads(l) for l in open(os.path.join(BASE, "resurvey.jsonl"))]
        from collections import Counter
        print(len(rr), dict(Counter(r["status"] for r in rr)))
        for r in sorted(rr, key=lambda r: (r.get("file", ""), r.get("line", 0))):
            if r["status"] == "silent":
                src = open(os.path.join(REPO, r["file"])).read().split("\n")[r["line"] - 1].strip()
                print("%s:%d %s %s -> %s | %s" % (r["file"], r["line"], r["op"], r["frm"], r["to"], src[:110]))
        return
    if cmd == "report":
        from collections import Counter
        rs = [json.loads(l) for l in open(rp)]
        print(len(rs), "evaluated", dict(Counter(r["status"] for r in rs)))
        ms = {json.loads(l)["id"]: json.loads(l) for l in open(mp)}
        for r in sorted(rs, key=lambda r: (r.get("file", ""), r.get("line", 0))):
            if r["status"] == "survivor":
                src = open(os.path.join(REPO, r["file"])).read().split("\n")[r["line"] - 1].strip()
                print("%s:%d %s %s -> %s | %s" % (r["file"], r["line"], r["op"], r["frm"], r["to"], src[:110]))
        return


if __name__ == "__main__":
    main()
