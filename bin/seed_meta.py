#!/usr/bin/env python3
"""write seeded/<id>/meta.json from the agent's report, the independent confirmation and the current catch matrix (fired.txt)"""
import json, os, re, glob
HERE = os.path.dirname(os.path.dirname(os.path.abspath(__file__)))
FIRST_RUN_R2 = {  # verdict of the checks as they stood when the round-2 change was first tried (before any hardening for it)
 "own": "C01-r2m1 C02-r2m1 C02-r2m2 C03-r2m2 C06-r2m1 C06-r2m2 C10-r2m2 C12-r2m2 C13-r2m1 C13-r2m2 C14-r2m1 C15-r2m1 C16-r2m1 C16-r2m2 C17-r2m1 C17-r2m2 C18-r2m2 C19-r2m1 C19-r2m2 C20-r2m1 C20-r2m2".split(),
 "other-property-only": "C01-r2m2 C03-r2m1 C04-r2m2 C05-r2m1 C05-r2m2 C08-r2m1 C09-r2m1 C09-r2m2 C14-r2m2 C18-r2m1".split(),
 "missed": "C04-r2m1 C08-r2m2 C10-r2m1 C11-r2m1 C11-r2m2 C12-r2m1 C15-r2m2".split(),
 "checker-crash(exit 2)": "C07-r2m1 C07-r2m2".split(),
}
FIRST_RUN_LATER = json.load(open(os.path.join(HERE, "seeded", "FIRST_RUN.json"))) if os.path.exists(os.path.join(HERE, "seeded", "FIRST_RUN.json")) else {}
for d in sorted(glob.glob(os.path.join(HERE, "seeded", "C*"))):
    sid = os.path.basename(d)
    a = json.load(open(os.path.join(d, "agent.json")))
    conf = dict(l.strip().split("=", 1) for l in open(os.path.join(d, "confirm.txt")) if "=" in l and not l.startswith("SUITE_COUNTS"))
    fired = open(os.path.join(d, "fired.txt")).read().strip() if os.path.exists(os.path.join(d, "fired.txt")) else ""
    m = re.search(r"FIRED: (.*)", fired)
    checks = m.group(1).split() if m and m.group(1) != "-" else []
    prop = sid.split("-")[0]
    meta = dict(
        id=sid, property=prop, round=int(re.search(r"-r(\d+)m", sid).group(1)) if re.search(r"-r(\d+)m", sid) else 1,
        origin="fresh sub-agent given only the property text and a scratch worktree of /repo (nothing from /verif)",
        summary=a.get("summary"), needs_to_manifest=a.get("needs_to_manifest"), files_touched=a.get("files_touched"),
        agent_commands=a.get("commands_run"), agent_results=a.get("results"),
        confirmed_independently=dict(
            how="bin/confirm_mutants.sh in a scratch worktree: git apply patch.diff; cargo test --offline --workspace --no-fail-fast (existing suite); "
                "cargo test --offline --test <demo> with and without the change",
            apply=conf.get("APPLY"), existing_suite_with_change=conf.get("SUITE_WITH"), demo_with_change=conf.get("DEMO_WITH"), demo_without_change=conf.get("DEMO_WITHOUT")),
        checks_that_fire=checks,
        caught_by_own_property=any(c.split("[")[0] == prop for c in checks),
        how_to_rerun="git -C /repo apply /verif/seeded/%s/patch.diff && (cd /verif && ./verif check %s); git -C /repo checkout -- ." % (sid, prop),
    )
    if meta["round"] == 2:
        meta["first_run_before_hardening"] = next((k for k, v in FIRST_RUN_R2.items() if sid in v), "?")
    elif meta["round"] > 2:
        meta["first_run_before_hardening"] = FIRST_RUN_LATER.get(sid, "?")
    json.dump(meta, open(os.path.join(d, "meta.json"), "w"), indent=1)
print("ok", len(glob.glob(os.path.join(HERE, "seeded", "*"))))
