CONFIG_NAMES = ["default", "none", "deflate", "deflate-miniz", "deflate-zlib", "bzip2", "zstd", "aes-crypto", "time", "unreserved"]
