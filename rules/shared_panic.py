"""Shared E3 rule: no undischarged panic-capable site reachable from an entry set."""
import json
import os
import re

from engine.mir import AnchorLost
from engine.panics import enumerate_sites, discharge, const_return_summaries

HERE = os.path.dirname(os.path.dirname(os.path.abspath(__file__)))

# ---- entry sets (module-based over-approximation of the public API surface of each property)
READ_ROOT = re.compile(
    r"^(<)?(read::|aes::|aes_ctr::|crc32::|cp437::|&'a \[u8\] as cp437|std::vec::Vec<u8> as cp437)"
    r"|^(<)?zipcrypto::ZipCryptoReader|^zipcrypto::ZipCryptoKeys"
    r"|^spec::\w+::(parse|find_and_parse|record_too_small)"
    r"|new_append")
WRITE_ROOT = re.compile(
    r"^(<)?write::|^(<)?zipcrypto::ZipCryptoWriter|^<write::FileOptions as unstable|^spec::\w+::write$")
TIME_ROOT = re.compile(r"^(<)?types::DateTime(::| as )")


def _api(f):
    """entry points are what a user (or std, through a trait) can call: public functions and trait-impl methods; private helpers are
    analysed where they are called from (after inlining of unknown helpers)"""
    return f.vis == "Public" or bool(f.impl_trait)


def is_read_root(f):
    return bool(READ_ROOT.search(f.path)) and _api(f)


def is_write_root(f):
    return bool(WRITE_ROOT.search(f.path)) and _api(f)


def is_time_root(f):
    # every function of the type, crate-private ones included: a conversion helper that only the header writers call is still one of
    # "the conversions" the property speaks about (a timestamp read from an archive must be re-written, not asserted upon)
    return bool(TIME_ROOT.search(f.path)) and f.kind in ("Fn", "AssocFn")


def load_reviewed():
    with open(os.path.join(HERE, "tables", "panic_sites.json")) as fh:
        ents = json.load(fh)
    return {e["key"]: e for e in ents}


def foreign_rule_holds(ctx, rep, facts, name):
    """a reviewed entry of this property's inventory leans on a rule that belongs to another property: evaluate that rule here (its
    instances are reported under this property's name) so that the entry is void when the rule fails.  Cached per report and tree."""
    cache = rep.__dict__.setdefault("_foreign", {})
    key = (name, id(facts))
    if key in cache:
        return cache[key]
    import importlib
    table = {
        "C16-CONST": ("rules.C16", "const_rules", False), "C16-MAC": ("rules.C16", "mac_rules", False),
        "C19-TABLE": ("rules.C19", "table_rules", False), "C18-INV-YEAR": ("rules.C18", "inv_year_rules", False),
        "C12-TS": ("rules.C12", "ts_rules", False), "C15-WRITE": ("rules.C15", "write_rules", True),
        "C09-COUNT": ("rules.shared_count", "count_rule", False), "C06-MANGLE": ("rules.C06", "mangle_rules", False),
    }
    if name not in table:
        cache[key] = True
        return True
    mod, fn, wants_ctx = table[name]
    f = getattr(importlib.import_module(mod), fn)
    try:
        res = f(ctx, facts, rep) if wants_ctx else f(facts, rep)
    except AnchorLost as e:
        rep.violation(name, "%s-ANCHOR:%s" % (name, str(e)[:60]), "", "anchor of a rule that reviewed panic sites lean on is lost: %s" % e)
        res = False
    cache[key] = bool(res) if res is not None else True
    return cache[key]


def panic_rule(ctx, rep, rule, facts, root_pred, void_rules=(), only=None):
    """Evaluate the inventory for every function reachable from the entry set.
    void_rules: names of `discharged_by` rules that FAILED in this run -> entries relying on them are void."""
    reviewed = load_reviewed()
    by_suffix = {}
    for k_, e_ in reviewed.items():
        by_suffix.setdefault(k_.split("|", 1)[1], []).append(e_)
    summaries = const_return_summaries(facts)
    roots = [f.path for f in facts.fns if root_pred(f)]
    reach, parent = facts.reachable_from(roots)
    rep.count("entry_functions", len(roots))
    rep.count("reachable_functions", len(reach))
    nsites = 0
    used = set()
    present_keys = set()
    allsites = {}
    for f in facts.fns:
        if f.path in reach:
            allsites[f.path] = enumerate_sites(facts, f)
            present_keys |= {s_.key for s_ in allsites[f.path]}
    for f in facts.fns:
        if f.path not in reach:
            continue
        # derive(Debug/Clone/PartialEq) bodies are compiler-written and contain no sites of interest
        sites = allsites[f.path]
        for s in sites:
            if only and not only(s):
                continue
            nsites += 1
            chain = " -> ".join(facts.chain(parent, f.path)[-4:])
            where = "%s in %s" % (s.where, f.path)
            cls, why = discharge(facts, s, summaries)
            if cls:
                rep.ok(rule, s.key, where, "%s: %s" % (cls, why), trivial=(cls == "interval"), cls=cls)
                continue
            ent = reviewed.get(s.key)
            if ent is None:
                # the site may have moved into another function (helper extraction / inlining): same kind and operand
                # signature, unique in the table
                cands = by_suffix.get(s.key.split("|", 1)[1].split("#")[0], [])
                if len(cands) == 1 and cands[0]["key"] not in used:
                    ent = cands[0]
                else:
                    # several functions have such a site on file: the one whose own site is gone (its body was inlined here) is meant
                    free = [c_ for c_ in cands if c_["key"] not in used and c_["key"] not in present_keys]
                    if len(free) > 1:
                        allp = {g_.path for g_ in facts.fns} | {g_.path for g_ in getattr(facts, "orig", facts).fns}
                        gone = [c_ for c_ in free if c_["key"].split("|")[0] not in allp]
                        if len(gone) == 1:
                            free = gone
                    if len(free) == 1:
                        ent = free[0]
            if ent is None:
                # the site was re-spelled (named constant, conversion function instead of cast, temporaries): same function, same
                # kind, and an operand signature that overlaps strongly with exactly one still unmatched reviewed entry
                fnk = s.key.split("|")[0] + "|" + s.key.split("|")[1] + "|"
                mine = set(re.split(r"[,;:]", s.key.split("|", 2)[2].split("#")[0])) - {""}
                best = []
                for k_, e_ in reviewed.items():
                    if k_.startswith(fnk) and k_ not in used and k_ not in present_keys:
                        theirs = set(re.split(r"[,;:]", k_.split("|", 2)[2].split("#")[0])) - {""}
                        sim = len(mine & theirs) / max(1, len(mine | theirs))
                        best.append((sim, e_))
                best.sort(key=lambda x: -x[0])
                # entries that differ only by their #n occurrence suffix are the same reviewed fact: a tie among them is no ambiguity
                base = lambda e_: e_["key"].split("#")[0]
                rivals = [b for b in best[1:] if base(b[1]) != base(best[0][1])] if best else []
                if best and best[0][0] >= 0.5 and (not rivals or best[0][0] > rivals[0][0]):
                    ent = best[0][1]
            if ent is not None:
                used.add(ent["key"])
                by = ent.get("discharged_by")
                failed = bool(by) and by in void_rules
                if by and not failed and not by.startswith(rep.prop):
                    failed = not foreign_rule_holds(ctx, rep, facts, by)
                if failed:
                    rep.violation(rule, s.key, where,
                                  "panic-capable site %s was reviewed as safe *because of* rule %s, which fails on this tree "
                                  "(reason on file: %s); reachable via %s" % (s.text, by, ent["reason"], chain))
                else:
                    rep.reviewed(rule, s.key, where, "reviewed: %s%s" % (ent["reason"], (" [relies on %s]" % by) if by else ""))
                continue
            rep.violation(rule, s.key, where,
                          "undischarged panic-capable site: %s -- not provable by interval/guard analysis and not in the reviewed "
                          "table; reachable from the entry set via %s" % (s.text, chain))
    rep.count("panic_capable_sites", nsites)
    return nsites


def thorough_configs(ctx, rep, rule, root_pred, void):
    """re-evaluate the inventory under every feature configuration that builds offline ("cover what the build covers")"""
    import sys
    sys.path.insert(0, ctx.here)
    from verif_configs import CONFIG_NAMES
    for name in CONFIG_NAMES:
        if name == "default":
            continue
        facts = ctx.facts_config(name)
        rep.configs.append(name)
        panic_rule(ctx, rep, "%s[%s]" % (rule, name), facts, root_pred, void_rules=void)
