"""EXTRAWALK -- the reader's walk over an entry's extra field stays on record boundaries.

An extra field is a sequence of records `id:u16 len:u16 body[len]` (APPNOTE 4.5.1).  Whatever a record's arm does with the body,
after the record the cursor must stand at the next record's header: (bytes the arm consumed) + (bytes skipped afterwards) == len.
If an arm consumes bytes without accounting for them, every record that follows is misparsed -- a ZIP64 record behind an AE-x
record is lost (sizes stay 0xFFFFFFFF), an AE-x record behind a ZIP64 record is skipped ("AES encryption without AES extra data
field").  Necessary condition of C03 (metadata of well-formed archives), C08 (ZIP64 values in every layout), C16 (AE-x parameters).

Decided by E9 (engine/sym.py): the loop of the function that walks `extra_field` is followed through exactly one iteration on every
path (path-split value flow, two visits of the loop head); along the path the reads on the cursor are collected with their widths,
and the relative seek that ends the iteration is compared, as a linear expression over the record's `len`, with `len - consumed`.
A path that ends the iteration without a seek must have decided `len - consumed > 0` to be false (or, equivalently, have pinned
`len` to the number of bytes it consumed).  Nothing is executed."""
import re

from engine import sym
from engine.mir import AnchorLost
from engine.query import where

WIDTH = {"read_u8": 1, "read_i8": 1, "read_u16": 2, "read_i16": 2, "read_u32": 4, "read_i32": 4, "read_u64": 8, "read_i64": 8, "read_u128": 16}


def _strip(e):
    """look through the value-preserving plumbing between a read and its use: casts, `?` (Try::branch + Continue payload)"""
    while True:
        if e[0] == "cast":
            e = e[1]
        elif e[0] == "field" and e[2] == "0" and e[1][0] == "variant" and e[1][2] == "Continue":
            e = e[1][1]
        elif e[0] == "call" and e[1].endswith("Try::branch") and len(e[2]) == 1:
            e = e[2][0]
        elif e[0] == "call" and re.search(r"convert::(From|Into)(<|::)|convert::(TryFrom|TryInto)(<|::)", e[1]) and len(e[2]) == 1:
            e = e[2][0]
        else:
            return e


def _lin(e):
    """(base, k) such that e == base + k, with base stripped of casts; integer constants folded"""
    k = 0
    while True:
        s = _strip(e) if e[0] in ("cast",) else e
        if s[0] == "bin":
            op = s[1].replace("WithOverflow", "").replace("Unchecked", "")
            a, b = s[2], s[3]
            if op in ("Sub", "Add") and b[0] == "const" and isinstance(b[2], int):
                k += -b[2] if op == "Sub" else b[2]
                e = a
                continue
            if op == "Add" and a[0] == "const" and isinstance(a[2], int):
                k += a[2]
                e = b
                continue
        if s[0] == "call" and re.search(r"::(wrapping_sub|saturating_sub|wrapping_add)$", s[1]) and len(s[2]) == 2 and s[2][1][0] == "const":
            k += -s[2][1][2] if "sub" in s[1] else s[2][1][2]
            e = s[2][0]
            continue
        return _strip(s), k


def walk_fn(facts):
    """the function that walks an entry's extra field: loops, reads u16 headers from a cursor over `extra_field`, and branches on the
    ZIP64 (0x0001) header id -- found by what it does; `parse_extra_field` by name as the first candidate"""
    c = facts.find(r"^read::parse_extra_field$")
    if c:
        return c[0]
    for g in facts.fns.values() if hasattr(facts, "fns") and isinstance(facts.fns, dict) else facts.fns:
        if not g.path.startswith("read::") or not g.back_edges():
            continue
        calls = [t.get("callee") or "" for _, t in g.calls()]
        if sum(1 for c_ in calls if c_.endswith("read_u16")) >= 2 and any(c_.endswith("read_u64") for c_ in calls) and any("Cursor" in c_ for c_ in calls):
            return g
    raise AnchorLost("the function that walks the extra field (parse_extra_field)")


def extrawalk_rules(facts, rep, rule="C03-EXTRAWALK"):
    g = walk_fn(facts)
    heads = {d for _, d in g.back_edges()}
    if not heads:
        raise AnchorLost("record loop in %s" % g.path)
    S = sym.Sym(g, max_paths=400000)
    S._max_visits = 2

    def hook(bb, st):
        if bb in heads:
            n = sum(1 for x in st.trace if x[1] == "#head")
            st.trace = st.trace + ((bb, "#head", (), None),)
            return "end" if n >= 1 else None
        return None
    S._block_hook = hook

    def stop(bb, t):
        c = t.get("callee") or ""
        return bool(re.search(r"ReadBytesExt::read_[ui]\d+$|Read::read_exact$|Read::read$|Seek::seek$|Cursor::<T>::set_position$|BufRead::consume$|Read::read_to_end$", c))
    try:
        out = S.run(stop)
    except sym.SymTooComplex:
        rep.check(False, rule, "walk", where(g, g.span), "", "the extra-field walk has too many paths to follow (fail closed)")
        return False
    finally:
        S._max_visits = 1
    ends = [o for o in out if o["term"] is None]
    ok = True
    n_ok = 0
    bad = {}
    arms = set()
    for o in ends:
        tr = [x for x in o["state"].trace]
        # the iteration: between the two head markers
        idx = [i for i, x in enumerate(tr) if x[1] == "#head"]
        it = tr[idx[0] + 1: idx[1]]
        reads = [x for x in it if re.search(r"read_[ui]\d+$", x[1])]
        other = [x for x in it if not re.search(r"read_[ui]\d+$|Seek::seek$", x[1])]
        seeks = [x for x in it if x[1].endswith("Seek::seek")]
        if len(reads) < 2:
            bad.setdefault("header", "an iteration completes without reading the record's id and length")
            continue
        # the record's length is the second header word
        len_call = _strip(reads[1][3])
        body = reads[2:]
        arm = tuple(x[1].split("::")[-1] for x in body)
        arms.add(arm)
        if other:
            bad.setdefault("unaccounted:%s" % other[0][1].split("::")[-1], "the walk consumes bytes through %s, whose count the rule cannot see" % other[0][1])
            continue
        consumed = sum(WIDTH[x[1].split("::")[-1]] for x in body)
        conds = list(o["state"].conds)

        def pinned():
            """did the path decide `len == consumed` (e.g. `if len != 7 { return Err }` before seven bytes are read)?"""
            for d, v in conds:
                if d[0] == "bin" and d[1] in ("Eq", "Ne") and d[3][0] == "const" and d[3][2] == consumed and _strip(d[2]) == len_call:
                    truth = (v is None) or (v != 0)
                    if (d[1] == "Eq") == truth:
                        return True
                if _strip(d) == len_call and v == consumed:       # `match len { 7 => .. }`
                    return True
            return False
        if len(seeks) > 1:
            bad.setdefault("seeks:" + "+".join(arm), "more than one reposition in one record")
            continue
        if seeks:
            a = seeks[0][2][1]
            good = False
            if a[0] == "agg" and a[1] == "adt:Current" and a[3]:
                base, k = _lin(a[3][0][1])
                good = base == len_call and (k == -consumed or (pinned() and False))
            elif a[0] == "agg" and a[1] == "adt:Start":
                good = False        # an absolute reposition would need the record's start: not the shape of today's walk
            if not good:
                bad.setdefault("skip:" + "+".join(arm), "a record whose arm consumed %d byte(s) (%s) is followed by a skip of %s -- must be len - %d" % (
                    consumed, ", ".join(arm) or "nothing", sym.show(a)[:90], consumed))
                continue
        else:
            good = pinned()
            for d, v in conds:
                if d[0] == "bin" and d[1] in ("Gt", "Ne", "Ge") and d[3][0] == "const" and isinstance(d[3][2], int):
                    base, k = _lin(d[2])
                    c0 = d[3][2]
                    if base == len_call and v == 0:
                        # decided false: Gt: len+k <= c0 ; Ne: len+k == c0 ; Ge: len+k < c0.  With len+k == len-consumed and c0 == 0 (Gt/Ne) or 1 (Ge)
                        if (d[1] in ("Gt", "Ne") and k - c0 == -consumed) or (d[1] == "Ge" and k - c0 + 1 == -consumed):
                            good = True
                if d[0] == "bin" and d[1] in ("Le", "Eq", "Lt") and d[3][0] == "const" and isinstance(d[3][2], int):
                    base, k = _lin(d[2])
                    c0 = d[3][2]
                    truth = (v is None) or (v != 0)
                    if base == len_call and truth:
                        if (d[1] in ("Le", "Eq") and k - c0 == -consumed) or (d[1] == "Lt" and k - c0 + 1 == -consumed):
                            good = True
            if not good:
                bad.setdefault("noskip:" + "+".join(arm), "a record whose arm consumed %d byte(s) (%s) is left without a skip although nothing on the path says len - %d <= 0" % (
                    consumed, ", ".join(arm) or "nothing", consumed))
                continue
        n_ok += 1
    w = where(g, g.span)
    for k_, msg in sorted(bad.items()):
        ok = False
        rep.check(False, rule, "record-boundary:" + k_, w, "", "extra-field walk leaves the record boundary: %s" % msg)
    if ok:
        rep.check(True, rule, "record-boundary", w, "%d one-iteration paths over %d arm shapes: consumed + skipped == len on each" % (n_ok, len(arms)), "")
        for a_ in sorted(arms):
            rep.check(True, rule, "arm:" + ("+".join(a_) or "skip-only"), w, "arm reading [%s] is accounted for" % ", ".join(a_), "")
    ok &= bool(rep.check(len(ends) >= 3 and any(len(a_) >= 3 for a_ in arms) and any(len(a_) == 0 for a_ in arms), rule, "coverage", w,
                         "the explored iterations include the skip-only arm and the multi-read arms",
                         "the explored iterations do not cover the record kinds of the walk (%d paths, arms %s) -- fail closed" % (len(ends), sorted(arms))))
    rep.floor(rule, 4)
    return ok
