"""C09 -- results do not depend on how I/O is chunked (DESIGN.md §3 C09).

Decides: every stateful stream adapter (impl Read / impl Write in the crate) advances its state by exactly the number of
bytes actually transferred (C09-COUNT); bare read()/write() occur only inside such adapters, parsers and serialisers use
exact-length primitives (C09-EXACT); the AES reader is idempotent at end of data (C09-EOF)."""
import re

from engine.expr import Ex, norm, show, walk, alts
from engine.intervals import dominating_facts
from engine.mir import AnchorLost
from engine.query import where
from rules.shared_count import count_rule, exact_rule


def eof_rule(facts, rep):
    rule = "C09-EOF"
    f = facts.method(r"aes::AesReaderValid<", "read", r"std::io::Read")
    ex = Ex(f)
    # the entry block (or the first switch) tests data_remaining == 0 and the true edge returns Ok(0) with no call
    t = f.term(0)
    good = False
    detail = ""
    if t and t["k"] == "switch":
        d = norm(ex.operand(t["discr"], (0, None)))
        if d[0] == "bin" and d[1] == "Eq" and any(x[0] == "field" and x[2] == "data_remaining" for x in walk(d[2])) and d[3][0] == "const" and d[3][2] == 0:
            tgt = t["otherwise"] if [v for v, _ in t["targets"]] == [0] else None
            if tgt is not None:
                # walk to return without calls
                b = tgt
                seen = set()
                calls = 0
                while b is not None and b not in seen:
                    seen.add(b)
                    tt = f.term(b)
                    if tt["k"] == "call":
                        calls += 1
                    if tt["k"] == "return":
                        break
                    s = f.succ(b)
                    b = s[0] if len(s) == 1 else None
                e = norm(ex.local(0, (b, None))) if b is not None else None
                good = calls == 0 and b is not None and any(a[0] == "agg" and a[1] == "adt:Ok" and a[3][0][1] == ("const", "usize", 0) for a in alts(e))
                detail = "remaining == 0 at entry returns Ok(0) without touching reader, MAC or cipher"
    rep.check(good, rule, "AesReaderValid::read:eof-idempotent", where(f, f.span), detail,
              "AesReaderValid::read does not start with `if data_remaining == 0 { return Ok(0) }`: reads after end of data are not idempotent")
    return good


def run(ctx, rep):
    facts = ctx.facts
    rep.configs.append("default")
    rep.explanation = (
        "For each impl Read::read / impl Write::write body of the crate: the count returned and every state update after the "
        "inner transfer (hash, MAC, cipher, counters) derive from the count the inner call returned -- a view buf[..n], never "
        "the whole caller buffer; bare read()/write() calls occur only in those adapters (parsers use read_exact/byteorder). "
        "Necessary for chunking independence: an adapter that advances over untransferred bytes gives different results under "
        "short reads/writes. Decoder-internal chunking (flate2/bzip2/zstd) is not decided.")
    count_rule(facts, rep)
    exact_rule(facts, rep)
    eof_rule(facts, rep)
    # adapters with position state: the result must not depend on how the caller slices its reads
    if facts.find(r"^aes_ctr::AesCtrZipKeyStream"):
        from rules.C16 import ctr_rules
        ctr_rules(facts, rep)          # reported as C09/C16-CTR: the keystream position advances by exactly what was consumed
        from rules.C16 import mac_rules
        mac_rules(facts, rep)          # reported as C09/C16-MAC: the read paths of the AES adapter (a zero-length request is not an error, end of data is sticky)
    from rules.C10 import drain_rules
    drain_rules(facts, rep)            # reported as C09/C10-DRAIN: the drop-time drain tolerates short reads (ends on Ok(0) only)
    rep.floor("C09-COUNT", 12, "6 impl Read + 3 impl Write adapters, several obligations each")
    rep.floor("C09-EXACT", 9, "7 bare read + 4 bare write sites on the pinned tree")
    rep.assume("std::io::Read/Write contracts; byteorder's read_uN/write_uN are read_exact/write_all")
