"""C13 -- appending keeps every existing entry and adds the new ones (DESIGN.md §3 C13).

Decides: the append constructor re-hydrates entries through the same parsers as the reader, with the computed archive offset
(C13-SAMEPARSER); it positions the sink on the old directory (C13-SEEK); the writer it returns protects the last old entry's header
from re-patching, carries the old comment and the parsed entry list unmodified and in order (C13-RAW); every field the central
writer serialises is one the central parser fills from the same slot (C13-FIDELITY)."""
import re

from engine.codec import Codec
from engine.expr import Ex, norm, show, walk, alts
from engine.intervals import dominating_facts
from engine.mir import AnchorLost, callee_matches
from engine.query import calls_matching, where, aggregates
from rules.C01 import patch_rules, ZW
from rules.shared_codec import writer_table, reader_table, tokens

NA = r"^write::<impl write::zip_writer::ZipWriter<A>>::new_append$"


def sameparser_rules(facts, rep):
    rule = "C13-SAMEPARSER"
    ok = True
    na = facts.one(NA)
    ex = Ex(na)
    rd = facts.one(r"^read::<impl read::zip_archive::ZipArchive<R>>::new$")
    for pat, label in ((r"^spec::CentralDirectoryEnd::find_and_parse$", "end record search"),
                       (r"get_directory_counts$", "directory location")):
        good = bool(calls_matching(na, pat)) and bool(calls_matching(rd, pat))
        ok &= rep.check(good, rule, label.replace(" ", "-"), where(na, na.span), "%s shared with ZipArchive::new" % label, "new_append no longer uses the reader's %s" % label)
    clo = facts.closures_of(na)
    cs = []
    for c in [na] + clo:
        exc = Ex(c)
        for bi, t in calls_matching(c, r"^read::central_header_to_zip_file$"):
            cs.append((c, bi, t, norm(exc.operand(t["args"][1], (bi, None)))))
    good = len(cs) == 1
    if good:
        c, bi, t, off = cs[0]
        # inside the closure the offset is a capture: it must be the archive_offset computed by get_directory_counts
        if c.kind == "Closure":
            good = off[0] in ("field", "upvars") or "upvar" in show(off) or off[0] == "field"
            # the captured variable: look at the closure aggregate in new_append
            for b2, si2, s2 in na.stmts():
                if s2["k"] == "assign" and s2["rv"]["k"] == "agg" and s2["rv"].get("ak") == "closure" and s2["rv"].get("closure") == c.path:
                    caps = [norm(ex.operand(o, (b2, si2))) for o in s2["rv"]["ops"]]
                    good = any(cp[0] == "field" and cp[2] == "0" and any(x[0] == "call" and x[1].endswith("get_directory_counts") for x in walk(cp)) for cp in caps) and \
                        not any(cp[0] == "const" for cp in caps)
        else:
            good = off[0] == "field" and off[2] == "0" and any(x[0] == "call" and x[1].endswith("get_directory_counts") for x in walk(off))
    ok &= rep.check(good, rule, "central-parse-with-archive-offset", where(na, na.span),
                    "old records parsed by central_header_to_zip_file with the archive offset computed by get_directory_counts",
                    "old central records are re-hydrated with offset %s: with data prepended to the base archive every old entry points before its data" %
                    (show(cs[0][3]) if cs else "?"))
    # count of records parsed = number_of_files
    rng = [norm(ex.operand(t["args"][0], (bi, None))) for bi, t in na.calls() if callee_matches(t, r"Iterator::map$|IntoIterator::into_iter$")]
    good = any(r[0] == "agg" and r[1] == "adt:Range" and dict(r[3]).get("start") == ("const", "usize", 0) and
               dict(r[3]).get("end", ("",))[0] == "field" and dict(r[3])["end"][2] == "2" for r in rng)
    ok &= rep.check(good, rule, "count", where(na, na.span), "parses exactly number_of_files records", "new_append does not parse 0..number_of_files records")
    sk = calls_matching(na, r"io::Seek::seek$")
    tg = [norm(ex.operand(t["args"][1], (bi, None))) for bi, t in sk]
    good = len([t for t in tg if t[0] == "agg" and t[1] == "adt:Start" and t[3][0][1][0] == "field" and t[3][0][1][2] == "1"]) == 2
    ok &= rep.check(good, "C13-SEEK", "seeks-directory_start-twice", where(na, na.span), "seeks to directory_start before parsing and again before returning (to overwrite the old directory)",
                    "new_append seeks to %s" % [show(t) for t in tg])
    return ok


def raw_rules(facts, rep):
    rule = "C13-RAW"
    ok = True
    na = facts.one(NA)
    ex = Ex(na)
    ag = list(aggregates(na, r"write::zip_writer::ZipWriter$"))
    if not ag:
        raise AnchorLost("ZipWriter construction in new_append")
    bi, si, s, flds = ag[0]
    vals = {k: norm(ex.operand(v, (bi, si))) for k, v in flds.items()}
    want = {"writing_raw": 1, "writing_to_file": 0, "writing_to_extra_field": 0, "writing_to_central_extra_field_only": 0}
    for k, v in want.items():
        good = vals[k] == ("const", "bool", v)
        ok &= rep.check(good, rule, "flag:%s" % k, where(na, s["span"]), "%s = %s" % (k, bool(v)),
                        "appending writer starts with %s = %s%s" % (k, show(vals[k]), " (the last old entry's local header would be re-patched with zero CRC/sizes)" if k == "writing_raw" else ""))
    inner = vals["inner"]
    good = inner[0] == "agg" and inner[1] == "adt:Storer" and inner[3][0][1][0] == "agg" and inner[3][0][1][1] == "adt:Unencrypted" and inner[3][0][1][3][0][1][0] == "arg"
    ok &= rep.check(good, rule, "inner", where(na, s["span"]), "inner = Storer(Unencrypted(readwriter))", "appending writer's sink is %s" % show(inner)[:80])
    good = ".zip_file_comment" in tokens(vals["comment"])
    ok &= rep.check(good, rule, "comment", where(na, s["span"]), "comment carried over from the old end record", "appending writer's comment is %s" % show(vals["comment"])[:80])
    fl = vals["files"]
    good = fl[0] == "ok" and fl[1][0] == "call" and fl[1][1].endswith("Iterator::collect")
    if not good and fl[0] == "call" and re.search(r"Vec::<T>::(new|with_capacity)$|Vec::<T, A>::with_capacity", fl[1]):
        # the same list built by an explicit loop: one push of the parser's result per counted record
        pushes = [(b2, t2) for b2, t2 in na.calls() if callee_matches(t2, r"Vec::<T, A>::push$") and len(t2["args"]) == 2]
        pv = [norm(ex.operand(t2["args"][1], (b2, None))) for b2, t2 in pushes]
        inloop = [any(b2 in body for _, body in na.loops()) for b2, _ in pushes]
        good = len(pushes) == 1 and pv[0][0] == "ok" and pv[0][1][0] == "call" and pv[0][1][1].endswith("central_header_to_zip_file") and all(inloop)
    ok &= rep.check(good, rule, "files=collect", where(na, s["span"]), "files = the parsed records, collected in directory order", "appending writer's entry list is %s" % show(fl)[:100])
    # nothing touches the entry list between parsing and construction
    fop = flds["files"]
    touched = []
    if fop["k"] != "const":
        fl_local = fop["place"]["l"]
        # locals holding the list: follow plain moves backwards
        locs = {fl_local}
        changed = True
        while changed:
            changed = False
            for b2, si2, s2 in na.stmts():
                if s2["k"] == "assign" and s2["place"]["l"] in locs and not s2["place"]["p"] and s2["rv"]["k"] == "use" and s2["rv"]["op"]["k"] in ("move", "copy") \
                        and not s2["rv"]["op"]["place"]["p"] and s2["rv"]["op"]["place"]["l"] not in locs:
                    locs.add(s2["rv"]["op"]["place"]["l"])
                    changed = True
        refs = set()
        for b2, si2, s2 in na.stmts():
            if s2["k"] == "assign" and s2["rv"]["k"] == "ref" and s2["rv"]["place"]["l"] in locs:
                refs.add(s2["place"]["l"])
        for b2, t in na.calls():
            for a in t["args"]:
                if a["k"] != "const" and (a["place"]["l"] in refs or (a["place"]["l"] in locs and not callee_matches(t, r"Try::branch$|from_residual$"))):
                    # building the list entry by entry from the parser is the same thing as collecting it
                    if callee_matches(t, r"Vec::<T, A>::push$") and len(t["args"]) == 2:
                        pv = norm(ex.operand(t["args"][1], (b2, None)))
                        if pv[0] == "ok" and pv[1][0] == "call" and pv[1][1].endswith("central_header_to_zip_file"):
                            continue
                    touched.append(t["callee"])
    ok &= rep.check(not touched, rule, "files-untouched", where(na, s["span"]), "the parsed entry list is moved into the writer unmodified",
                    "the parsed entry list is passed to %s before the writer is built: existing entries can be reordered or altered" % touched)
    # the entry-closing function consumes the raw flag
    ff = facts.one(ZW + "finish_file$")
    clr = [(bi2, s2) for bi2, si2, s2 in ff.stmts() if s2["k"] == "assign" and [p.get("n") for p in s2["place"]["p"] if p["k"] == "field"] == ["writing_raw"]
           and s2["rv"]["k"] == "use" and s2["rv"]["op"].get("v") is not None and int(s2["rv"]["op"]["v"]) == 0]
    ok &= rep.check(bool(clr), rule, "raw-flag-cleared-on-close", where(ff, ff.span), "writing_raw is cleared when an entry is closed (next entry is patched normally)",
                    "finish_file no longer clears writing_raw")
    # ... on EVERY successful path on which it was set: the flag new_append() sets protects the last OLD entry only.  An early
    # `return Ok(())` (no entry yet: the base archive was empty) taken before the flag is consumed leaves it set for the first NEW
    # entry, whose sizes and CRC then stay zero
    from engine.paths import paths as _paths, outcome as _outcome
    clr_blocks = {b for b, _ in clr}
    leak = []
    nok = 0
    for p in _paths(ff, max_paths=20000):
        if _outcome(p)[0] != "Ok":
            continue
        nok += 1
        raw = [v_ for a_, v_ in p["decisions"] if a_ == "self.writing_raw"]
        if raw and raw[0] == 0:
            continue            # decided: the flag was not set on this path
        if not (set(p["blocks"]) & clr_blocks):
            leak.append([(a_[:40], v_) for a_, v_ in p["decisions"]][-3:])
    ok &= rep.check(nok >= 1 and not leak, rule, "raw-flag-consumed-on-every-close", where(ff, ff.span),
                    "every successful path of finish_file either found writing_raw clear or clears it",
                    "finish_file can return Ok with writing_raw still set (path ending in %s): after new_append() on an archive without entries the "
                    "first appended entry is treated as a raw copy and keeps crc/sizes 0" % (leak[:1] or "no Ok path"))
    return ok


def comment_rules(facts, rep, rule="C13-RAW"):
    """the comment setters replace the comment unconditionally (an empty comment is a comment: it is how a carried-over one is removed)"""
    ok = True
    sr = facts.one(r"^write::<impl write::zip_writer::ZipWriter<W>>::set_raw_comment$")
    ex = Ex(sr)
    asg = [norm(ex.rvalue(s_["rv"], (b_, si_))) for b_, si_, s_ in sr.stmts() if s_["k"] == "assign" and [q.get("n") for q in s_["place"]["p"] if q["k"] == "field"] == ["comment"]]
    branches = [b_ for b_ in range(len(sr.blocks)) if not sr.blocks[b_]["cleanup"] and sr.term(b_) and sr.term(b_)["k"] == "switch"]
    good = len(asg) == 1 and asg[0][0] == "arg" and not branches
    ok &= rep.check(good, rule, "set_raw_comment:unconditional", where(sr, sr.span), "self.comment = comment, always", "set_raw_comment stores %s under %d condition(s)" % ([show(a)[:40] for a in asg], len(branches)))
    sc = facts.one(r"^write::<impl write::zip_writer::ZipWriter<W>>::set_comment$")
    calls = [t_["callee"].split("::")[-1] for _, t_ in sc.calls()]
    branches = [b_ for b_ in range(len(sc.blocks)) if not sc.blocks[b_]["cleanup"] and sc.term(b_) and sc.term(b_)["k"] == "switch"]
    ok &= rep.check("set_raw_comment" in calls and not branches, rule, "set_comment:delegates", where(sc, sc.span), "set_comment(s) = set_raw_comment(s.into().into())", "set_comment calls %s under %d condition(s)" % (calls, len(branches)))
    return ok


def run(ctx, rep):
    facts = ctx.facts
    rep.configs.append("default")
    rep.explanation = (
        "Append structure from MIR: same end-record search / directory location / central parser as the reader, parsing exactly "
        "number_of_files records with the computed archive offset; sink repositioned on the old directory; returned writer has "
        "writing_raw set, a plain stored sink, the old comment and the parsed list moved in untouched; finish_file skips the back-patch "
        "iff writing_raw and clears it; central writer/parser tables agree field by field (re-emission is the identity on the listed "
        "fields). Behaviour over multi-round histories and foreign bases is not decided.")
    sameparser_rules(facts, rep)
    raw_rules(facts, rep)
    comment_rules(facts, rep)
    patch_rules(facts, rep, rule="C13-PATCH")
    spec = ctx.spec("appnote.json")
    c = Codec(facts)
    writer_table(facts, rep, "C13-FIDELITY", facts.one(r"^write::write_central_directory_header$"), "CDH", spec, c)
    reader_table(facts, rep, "C13-FIDELITY", facts.one(r"^read::central_header_to_zip_file$"), "CDH", spec, c, adt_re=r"ZipFileData")
    from rules.C02 import sib_rules
    sib_rules(ctx, facts, rep)         # reported as C13/C02-SIB: re-emitted central records and local headers carry the same name bytes / flags
    from rules.C02 import seekabs_rules
    seekabs_rules(facts, rep)          # reported as C13/C02-SEEKABS: appended entries overwrite the old directory from absolute offsets
    from rules.C01 import msdos_arg_order
    msdos_arg_order(facts, rep, "C13-FIDELITY")     # the re-emitted timestamp is the recorded one (the parser does not normalise it)
    rep.floor("C13-SAMEPARSER", 4)
    rep.floor("C13-RAW", 9)
    rep.floor("C13-FIDELITY", 30)
    rep.note("O3: new_append rejects disk_number != disk_with_central_directory without the record_too_small() exemption ZipArchive::new has")
