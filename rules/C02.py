"""C02 -- every archive the writer emits is a valid, self-consistent ZIP file (DESIGN.md §3 C02).

Decides: layout per APPNOTE (C02-CODEC, judge = the specification table); local/central agreement on every shared field
(C02-SIB); no length is silently truncated into a 16/32-bit field (C02-NARROW); offsets and counts are recorded from the
positions they describe (C02-OFFS); flag bits 0 and 11 (C02-FLAGS); version-needed table (C02-VERS); ZIP64 presence/consistency
(C02-Z64 = C08-THR/PAIR/EOCD)."""
import re

from engine.codec import Codec
from engine.expr import Ex, norm, show, walk, alts, canon
from engine.intervals import Intervals, dominating_facts, ty_range, argtys_of
from engine.mir import AnchorLost, callee_matches
from engine.panics import const_return_summaries, leaf_sig
from engine.query import aggregates, calls_matching, where, find_switch_on, enum_variants
from rules.C01 import codec_rules, patch_rules, patchoff_rules, ZW
from rules.shared_codec import tokens, main_stream_events
from rules.shared_panic import is_write_root
from rules.shared_zip64 import thr_rules, pair_rules, eocd_rules

SHARED = ["flags", "method", "mod_time", "mod_date", "crc32", "name_len"]

REVIEWED_NARROW = {
    # key -> reason (one named symbol each)
    "write::update_local_file_header|u64->u32|.uncompressed_size,file":
        "uncompressed_size of a non-large entry is bounded by the 4 GiB guard in Write::write (C08-GUARD write:4GiB-guard), which "
        "closes the writer before the entry can be finished",
    "write::write_local_file_header|u64->u32|.compressed_size,file":
        "at header time sizes are 0 (new entry) or raw values whose max decides large_file (C08-GUARD raw-copy:large_file)",
    "write::write_local_file_header|u64->u32|.uncompressed_size,file":
        "at header time sizes are 0 (new entry) or raw values whose max decides large_file (C08-GUARD raw-copy:large_file)",
}


def core(e):
    """strip value-preserving wrappers (checked conversions and their error mapping, Ok payload, casts)"""
    while True:
        if e[0] in ("ok", "cast"):
            e = e[1]
        elif e[0] == "call" and re.search(r"Result::<T, E>::(map_err|or_else)$|TryInto::try_into$|TryFrom::try_from$|convert::(From|Into)::", e[1]) and e[2]:
            e = e[2][0]
        else:
            return _bytelen(e)


def _bytelen(e):
    """the byte length of a string/vector has one meaning however it is reached: s.len(), s.as_bytes().len(), s.as_str().len(), (&*v).len()"""
    if e[0] == "call" and re.search(r"::len$", e[1]) and len(e[2]) == 1:
        a = e[2][0]
        while a[0] == "call" and len(a[2]) == 1 and re.search(r"::(as_bytes|as_str|as_slice|deref|as_ref|borrow|as_mut_slice)$", a[1]):
            a = a[2][0]
        return ("call", "len", (a,)) + tuple(None for _ in e[3:])
    return e


def sib_rules(ctx, facts, rep):
    rule = "C02-SIB"
    spec = ctx.spec("appnote.json")
    c = Codec(facts)
    lf = facts.one(r"^write::write_local_file_header$")
    cf = facts.one(r"^write::write_central_directory_header$")
    ok = True

    def table(fn, record):
        names = [f["name"] for f in spec["records"][record]["fields"]]
        out = {}
        for s in c.sequences(fn):
            evs = [e for e in main_stream_events(s, fn) if e["kind"] in ("w", "wa")]
            head = []
            for e in evs:
                if e["kind"] == "wa":
                    break
                head.append(e)
            for n, e in zip(names, head):
                out.setdefault(n, set()).add(show(core(e["expr"])))
            was = [e for e in evs if e["kind"] == "wa"]
            if was:
                out.setdefault("name", set()).add(show(was[0]["expr"]))
        return out
    lt, ct = table(lf, "LFH"), table(cf, "CDH")
    for n in SHARED + ["name"]:
        good = bool(lt.get(n)) and lt.get(n) == ct.get(n)
        ok &= rep.check(good, rule, "shared:%s" % n, where(cf, cf.span), "local and central header write the same expression for %s" % n,
                        "local header writes %s for %s, central header writes %s" % (sorted(lt.get(n, [])), n, sorted(ct.get(n, []))))
    # the extra-length field re-patched by end_extra_data must be the expression the header writer used, at the field's offset
    ee = facts.one(ZW + "end_extra_data$")
    off = 0
    for fdef in spec["records"]["LFH"]["fields"]:
        if fdef["name"] == "extra_len":
            break
        off += fdef["w"]
    found = False
    for s_ in c.sequences(ee):
        evs = [e for e in s_ if e["fn"] == ee.path]
        for i, e in enumerate(evs):
            if e["kind"] == "seek" and ".header_start" in tokens(e["expr"]) and i + 1 < len(evs) and evs[i + 1]["kind"] == "w":
                found = True
                consts = [x[2] for x in walk(e["expr"]) if x[0] in ("const", "named") and isinstance(x[2], int)]
                good_off = consts == [off]
                wv = re.sub(r"Option::unwrap\(slice::last_mut\(self\.files\)\)", "file", show(core(evs[i + 1]["expr"])))
                good_val = wv in lt.get("extra_len", set()) and evs[i + 1]["width"] == 2
                ok &= rep.check(good_off and good_val, rule, "extra-len-repatch", where(ee, e["span"]),
                                "end_extra_data rewrites the local extra-length field at +%d with the header writer's own expression" % off,
                                "end_extra_data patches %s at %s; the local header's extra-length field is at offset %d and holds %s" % (
                                    wv, show(e["expr"]), off, sorted(lt.get("extra_len", []))))
    if not found:
        ok = False
        rep.violation(rule, "extra-len-repatch", where(ee, ee.span), "end_extra_data no longer re-patches the local extra-length field")
    return ok


def _phi_defs(fn, ex, op, at, depth=0):
    """[(value_expr, def_block)] for an operand, following plain copies through reaching definitions"""
    if op["k"] == "const" or depth > 6:
        return [(norm(ex.operand(op, at)), at[0])]
    if op["place"]["p"]:
        return [(norm(ex.operand(op, at)), at[0])]
    out = []
    defs, _ = ex.reaching(op["place"]["l"], at[0], at[1])
    for d in defs:
        kind, bb, si, node = d
        if kind == "s" and node["k"] == "assign" and not node["place"]["p"]:
            rv = node["rv"]
            if rv["k"] == "use" and rv["op"]["k"] in ("copy", "move") and not rv["op"]["place"]["p"]:
                out.extend(_phi_defs(fn, ex, rv["op"], (bb, si), depth + 1))
            else:
                out.append((norm(ex.rvalue(rv, (bb, si))), bb))
        else:
            out.append((norm(ex._def_value(d, 0)), bb))
    return out or [(norm(ex.operand(op, at)), at[0])]


def flag_rules(ctx, facts, rep, rule="C02-FLAGS"):
    """general purpose flags: bit 11 iff the name is not ASCII, bit 0 iff encrypted, nothing else.  Decided as a truth table: on
    every path the flag word handed to the header's flags field is a constant (folded along the path) and equals the value the two
    atoms taken on that path call for -- however the word is assembled (if-expression OR, accumulator, helper function)."""
    from engine.paths import paths as _paths
    spec = ctx.spec("appnote.json")["flags"]
    ok = True
    A_ASCII, A_ENC = r"is_ascii\(.*file_name(?!_raw)\b", r"(^|\.)encrypted$"      # (the name that is written -- not the raw buffer, which is empty for entries the writer started)
    for pat, idx in ((r"^write::write_local_file_header$", 2), (r"^write::write_central_directory_header$", 3)):
        f = facts.one(pat)
        key = "flags[%s]" % f.path.split("::")[-1]
        rows = {}
        bad = []
        for p in _paths(f):
            ws = [(e_, c_) for e_, c_ in zip(p["effects"], p["econst"]) if re.search(r"WriteBytesExt::write_u(8|16|32|64)$", e_[1])]
            if len(ws) <= idx:
                continue        # an earlier write failed
            e_, c_ = ws[idx]
            val = c_[1] if len(c_) > 1 else None
            asc = [v for a, v in p["decisions"] if a != "#iter" and re.search(A_ASCII, a)]
            enc = [v for a, v in p["decisions"] if a != "#iter" and re.search(A_ENC, a)]
            if not e_[1].endswith("write_u16") or val is None or len(set(asc)) != 1 or len(set(enc)) != 1:
                bad.append("flags field written as %s under ascii=%s encrypted=%s" % (show(e_[2][1])[:60] if len(e_[2]) > 1 else "?", asc, enc))
                continue
            want = (0 if asc[0] == 1 else (1 << spec["utf8"])) | ((1 << spec["encrypted"]) if enc[0] == 1 else 0)
            rows[(asc[0], enc[0])] = rows.get((asc[0], enc[0]), True) and (val == want)
            if val != want:
                bad.append("ascii=%s encrypted=%s => %#x (APPNOTE: %#x)" % (asc[0], enc[0], val, want))
        good = not bad and len(rows) == 4 and all(rows.values())
        ok &= rep.check(good, rule, key, where(f, f.span), "flags = (bit 11 iff !is_ascii(name)) | (bit 0 iff encrypted), all four combinations, no other bit",
                        "general purpose flag word: %s" % ("; ".join(sorted(set(bad))[:4]) or "only %d of the 4 (ascii, encrypted) combinations are distinguished" % len(rows)))
    return ok


def _flag_value_ok(f, ex, op, at, spec):
    e = norm(ex.operand(op, at))
    if not (e[0] == "bin" and e[1] == "BitOr"):
        return False, "flag word is %s: not the OR of the UTF-8 bit and the encryption bit (one can overwrite the other)" % show(e)
    # locate the two operands' definitions
    # find the assignment statement computing the BitOr
    defs = _phi_defs(f, ex, op, at)
    parts = None
    for bb, si, s in f.stmts():
        if s["k"] == "assign" and s["rv"]["k"] == "binop" and s["rv"]["op"] == "BitOr":
            if norm(ex.rvalue(s["rv"], (bb, si))) == e:
                parts = (s["rv"]["a"], s["rv"]["b"], (bb, si))
    if parts is None:
        return False, "cannot locate the OR computing the flag word"
    seen = {}
    for side in (parts[0], parts[1]):
        for val, dbb in _phi_defs(f, ex, side, parts[2]):
            bit = None
            if val[0] == "const" and val[2] == 0:
                bit = "zero"
            elif val[0] == "bin" and val[1] == "Shl" and val[2][0] == "const" and val[2][2] == 1 and val[3][0] == "const":
                bit = val[3][2]
            elif val[0] == "const" and isinstance(val[2], int) and val[2] > 0 and (val[2] & (val[2] - 1)) == 0:
                bit = val[2].bit_length() - 1
            else:
                return False, "flag operand %s is not a single-bit constant" % show(val)
            fs = dominating_facts(f, ex, dbb)
            ascii_t = [x[2] for x in fs if x[0] == "truth" and any(y[0] == "call" and y[1].endswith("is_ascii") and ".file_name" in tokens(y) and ".file_name_raw" not in tokens(y) for y in walk(x[1]))]
            enc_t = [x[2] for x in fs if x[0] == "truth" and x[1][0] == "field" and x[1][2] == "encrypted"]
            seen.setdefault(bit, []).append((ascii_t, enc_t))
    bits = {b for b in seen if b != "zero"}
    if bits != {spec["utf8"], spec["encrypted"]}:
        return False, "flag word sets bit(s) %s; APPNOTE 4.4.4 / Appendix D: bit 11 = UTF-8 names, bit 0 = encrypted" % sorted(bits)
    for (a, en) in seen[spec["utf8"]]:
        if a != [False]:
            return False, "bit 11 (language encoding) is set under %s instead of `!file_name.is_ascii()`" % (a or "no is_ascii test")
    for (a, en) in seen[spec["encrypted"]]:
        if en != [True]:
            return False, "bit 0 (encrypted) is set under %s instead of `file.encrypted`" % (en or "no encrypted test")
    # zero alternatives are the complements
    for (a, en) in seen.get("zero", []):
        if not (a == [True] or en == [False]):
            return False, "a flag operand is 0 on a path not determined by is_ascii / encrypted"
    return True, ""


def narrow_rules(ctx, facts, rep):
    """no value is truncated on its way into a record: every narrowing integer cast inside the expression handed to a
    fixed-width write (or stored in an end-record structure) is clamped, guarded, or fits by type"""
    rule = "C02-NARROW"
    ok = True
    roots = [f.path for f in facts.fns if is_write_root(f)]
    reach, _ = facts.reachable_from(roots)
    summaries = const_return_summaries(facts)
    n = 0
    seenk = {}

    def check_expr(f, ex, e, bb, span, what):
        nonlocal ok, n
        fs = [x for x in dominating_facts(f, ex, bb) if x[0] != "truth"]
        iv = Intervals(summaries, fs, argtys_of(f))
        for x in walk(e):
            if x[0] != "cast":
                continue
            fr, to = x[2], x[3]
            rf, rt = ty_range(fr), ty_range(to)
            if rf == rt or (rf[0] >= rt[0] and rf[1] <= rt[1]) or to not in ("u8", "u16", "u32", "u64", "usize", "i64", "i32"):
                continue
            n += 1
            inner = x[1]
            base = "%s|%s->%s|%s" % (f.path, fr, to, leaf_sig(inner))
            k = seenk.get(base, 0)
            seenk[base] = k + 1
            key = re.sub(r"\s+", "_", base if k == 0 else "%s#%d" % (base, k + 1))
            w = where(f, span)
            if inner[0] == "discr":
                rep.ok(rule, key, w, "enum discriminant", trivial=True, cls="interval")
                continue
            r = iv.range_of(inner, fr)
            if r[0] >= rt[0] and r[1] <= rt[1]:
                rep.ok(rule, key, w, "%s: value in [%d, %d] fits %s (clamp / guard / type range)" % (what, r[0], r[1], to), cls="interval")
            elif key in REVIEWED_NARROW:
                rep.reviewed(rule, key, w, "reviewed: " + REVIEWED_NARROW[key])
            else:
                ok = False
                rep.violation(rule, key, w, "%s: narrowing cast %s -> %s of %s with no clamp, guard or checked conversion -- a value that "
                              "does not fit is silently truncated into the record" % (what, fr, to, show(inner)[:140]))

    for f in facts.fns:
        if f.path not in reach:
            continue
        ex = Ex(f)
        for bi, t in f.calls():
            if callee_matches(t, r"WriteBytesExt::write_(u|i)\d+$"):
                e = norm(ex.operand(t["args"][1], (bi, None)))
                check_expr(f, ex, e, bi, t["span"], "value written by %s" % t["callee"].split("::")[-1])
        for bi, si, s, flds in aggregates(f, r"^spec::(CentralDirectoryEnd|Zip64CentralDirectoryEnd|Zip64CentralDirectoryEndLocator)$"):
            for nm, op in flds.items():
                e = norm(ex.operand(op, (bi, si)))
                check_expr(f, ex, e, bi, s["span"], "end-record field %s" % nm)
    rep.count("narrowing_casts_into_records", n)
    rep.floor(rule, 8, "narrowing casts feeding record fields after the F9/F10 repairs")
    return ok


def limit_rules(facts, rep):
    """the length guards refuse exactly what the 16-bit length fields cannot hold: reject iff len >= 65536, whatever the spelling
    (`> 0xFFFF`, `>= 0x10000`, `!(len <= 0xFFFF)`); a guard that is off by one refuses the longest valid name/comment/extra field
    (or lets the shortest invalid one through to a wrapped length)"""
    from engine.paths import paths as _paths, outcome as _outcome
    rule = "C02-LIMIT"
    ok = True
    A = re.compile(r"^(Gt|Ge|Lt|Le)\(((?:String|Vec(?:::<[^>]*>)?|slice|str|<\[T\]>)::len\(([\w.]+)\)), (\d+)\)$")
    for pat, what in ((ZW + "start_entry$", "name"), (ZW + "finalize$", "comment"), (r"^write::validate_extra_data$", "extra_field")):
        f = facts.one(pat)
        found = {}
        for p in _paths(f, max_paths=20000):
            for i, (a_, v_) in enumerate(p["decisions"]):
                m = A.match(a_) if a_ != "#iter" else None
                if not m or what not in m.group(3) or v_ not in (0, 1):
                    continue
                op, c = m.group(1), int(m.group(4))
                thr = {"Gt": c + 1, "Ge": c, "Lt": c, "Le": c + 1}[op]
                too_long = (v_ == 1) == (op in ("Gt", "Ge"))
                o = _outcome(p)
                rec = found.setdefault((m.group(2), thr), [True, 0, 0])
                if too_long:
                    rec[1] += 1
                    # nothing but the error return may follow the refusing decision
                    rec[0] &= o[0] in ("Err", "ErrProp") and i == len(p["decisions"]) - 1
                else:
                    rec[2] += 1
        good = bool(found) and all(k[1] == 65536 and v[0] and v[1] >= 1 and v[2] >= 1 for k, v in found.items())
        ok &= rep.check(good, rule, "exact-capacity:%s" % what, where(f, f.span), "%s length refused iff >= 65536 (the 16-bit field's capacity), accepted otherwise" % what,
                        "the %s length guard is %s: it must refuse exactly the lengths >= 65536" % (what, {k: tuple(v) for k, v in found.items()} or "missing"))
    rep.floor(rule, 3)
    return ok


def seekabs_rules(facts, rep, rule="C02-SEEKABS"):
    """the writer positions its sink by absolute offsets it computed itself (SeekFrom::Start): a seek relative to the end or to the
    current position lands elsewhere as soon as the sink holds bytes the writer did not put there -- after new_append() the old
    central directory still lies behind the entry being written -- and the data is written where the headers do not say it is.
    In end_extra_data the last seek goes back to the offset recorded as the entry's data start."""
    ok = True
    roots = [f.path for f in facts.fns if is_write_root(f)]
    reach, _ = facts.reachable_from(roots)
    n = 0
    rel = []
    for f in facts.fns:
        if f.path not in reach or not f.path.startswith(("write::", "<write::")):
            continue
        ex = Ex(f)
        for bi, t in f.calls():
            if not callee_matches(t, r"io::Seek::seek$") or len(t["args"]) < 2:
                continue
            n += 1
            a = norm(ex.operand(t["args"][1], (bi, None)))
            if not all(x[0] == "agg" and x[1] == "adt:Start" for x in alts(a)):
                rel.append((where(f, t["span"]), show(a)[:60]))
    ok &= rep.check(not rel and n >= 5, rule, "absolute-seeks", rel[0][0] if rel else "", "all %d seeks of the writer are SeekFrom::Start(offset)" % n,
                    "the writer seeks relative to the end/current position: %s" % rel[:2])
    ee = facts.one(ZW + "end_extra_data$")
    exe = Ex(ee)
    sks = [(bi, t) for bi, t in ee.calls() if callee_matches(t, r"io::Seek::seek$")]
    sw = calls_matching(ee, r"switch_to$")
    good = bool(sks) and bool(sw)
    if good:
        last = [x for x in sks if ee.dominates(x[0], sw[0][0])]
        good = bool(last)
        if good:
            tgt = norm(exe.operand(last[-1][1]["args"][1], (last[-1][0], None)))
            # the value stored as the entry's data start / the accounting start
            stores = [norm(exe.rvalue(s["rv"], (bi, si))) for bi, si, s in ee.stmts()
                      if s["k"] == "assign" and ([q.get("n") for q in s["place"]["p"] if q["k"] == "field"][-1:] == ["start"] or
                                                 (s["place"]["p"] and s["place"]["p"][-1]["k"] == "deref" and "data_start" in (ee.local_name(s["place"]["l"]) or "")))]
            inner = tgt[3][0][1] if tgt[0] == "agg" and tgt[1] == "adt:Start" and tgt[3] else None
            good = inner is not None and any(canon(inner) == canon(st_) for st_ in stores)
    if not good:
        # the same obligation on paths (the patch may sit in a helper whose `?` exits merge before the caller's `?`: no seek then
        # *dominates* the compressor switch, but on every path that reaches it the last seek is the one back to the data start)
        from engine.paths import paths as _paths, PathExplosion
        try:
            pz = _paths(ee, max_paths=20000)
        except PathExplosion:
            pz = []
        stores = [canon(norm(exe.rvalue(s["rv"], (bi, si)))) for bi, si, s in ee.stmts()
                  if s["k"] == "assign" and [q.get("n") for q in s["place"]["p"] if q["k"] == "field"][-1:] == ["start"]]
        through = 0
        allgood = bool(stores)
        for p_ in pz:
            names = [e_[1] for e_ in p_["effects"]]
            idx = [i_ for i_, n_ in enumerate(names) if n_.endswith("switch_to")]
            if not idx:
                continue
            sk_ = [e_ for e_ in p_["effects"][:idx[0]] if e_[1].endswith("Seek::seek")]
            if not sk_:
                continue        # the central-only path does not move the sink
            through += 1
            tgt = norm(sk_[-1][2][-1]) if sk_[-1][2] else None
            inner = tgt[3][0][1] if tgt is not None and tgt[0] == "agg" and tgt[1] == "adt:Start" and tgt[3] else None
            allgood = allgood and inner is not None and any(canon(inner) == st_ for st_ in stores)
        good = through >= 1 and allgood
    ok &= rep.check(good, rule, "end_extra_data:back-to-data-start", where(ee, ee.span), "after patching the extra length the sink is put back at the recorded data start",
                    "end_extra_data does not return the sink to the offset it recorded as the entry's data start")
    return ok


def offs_rules(ctx, facts, rep):
    rule = "C02-OFFS"
    ok = True
    se = facts.one(ZW + "start_entry$")
    ex = Ex(se)
    ag = list(aggregates(se, r"types::ZipFileData$"))
    if not ag:
        raise AnchorLost("ZipFileData in start_entry")
    bi, si, s, flds = ag[0]
    hs = norm(ex.operand(flds["header_start"], (bi, si)))
    hdr = calls_matching(se, r"^write::write_local_file_header$")
    pos_sites = [x[4] for x in walk(hs) if x[0] == "call" and x[1].endswith("stream_position")]
    good = hs[0] == "ok" and len(pos_sites) == 1 and bool(hdr) and se.dominates(pos_sites[0], hdr[0][0]) and pos_sites[0] != hdr[0][0]
    ok &= rep.check(good, rule, "header_start", where(se, s["span"]), "header_start = stream position taken before the local header is written",
                    "header_start is %s, not the position immediately before the local header" % show(hs))
    # data_start = position after the header:  *file.data_start.get_mut() = <position after write_local_file_header>
    ds = None
    gm = calls_matching(se, r"^types::AtomicU64::get_mut$")
    for gb, gt_ in gm:
        arg = gt_["args"][0]
        if arg["k"] == "const":
            continue
        # the borrowed place must be `<file>.data_start`
        src_defs = [st for b3, si3, st in se.stmts() if st["k"] == "assign" and st["place"]["l"] == arg["place"]["l"] and st["rv"]["k"] == "ref"]
        if not any([p for p in st["rv"]["place"]["p"] if p["k"] == "field"][-1:] and [p for p in st["rv"]["place"]["p"] if p["k"] == "field"][-1]["n"] == "data_start" for st in src_defs):
            continue
        dl = gt_["dest"]["l"]
        for b2, si2, s2 in se.stmts():
            if s2["k"] == "assign" and s2["place"]["l"] == dl and [p["k"] for p in s2["place"]["p"]] == ["deref"]:
                ds = (norm(ex.rvalue(s2["rv"], (b2, si2))), b2, s2)
    good = ds is not None and ds[0][0] == "ok" and any(x[0] == "call" and x[1].endswith("stream_position") and hdr and se.dominates(hdr[0][0], x[4]) for x in walk(ds[0]))
    ok &= rep.check(bool(good), rule, "data_start", where(se, ds[2]["span"]) if ds else where(se, se.span),
                    "data_start = stream position taken after the local header", "data_start is not recorded from the position after the local header")
    # finalize: central_start after closing the last entry and before the first central record
    fz = facts.one(ZW + "finalize$")
    exf = Ex(fz)
    ag = list(aggregates(fz, r"^spec::CentralDirectoryEnd$"))
    bi, si, s, flds = ag[0]
    off = norm(exf.operand(flds["central_directory_offset"], (bi, si)))
    size = norm(exf.operand(flds["central_directory_size"], (bi, si)))
    cnt = norm(exf.operand(flds["number_of_files"], (bi, si)))
    com = norm(exf.operand(flds["zip_file_comment"], (bi, si)))
    ffb = calls_matching(fz, ZW + "finish_file$")
    cdh = calls_matching(fz, r"^write::write_central_directory_header$")
    if not cdh:
        # the per-entry loop may be an iterator adaptor taking a closure that writes the record
        for c_ in facts.closures_of(fz):
            if calls_matching(c_, r"^write::write_central_directory_header$"):
                cdh = [(b_, t_) for b_, t_ in fz.calls() if callee_matches(t_, r"Iterator::(try_for_each|for_each|try_fold|fold|map)$")]
    ps = [x[4] for x in walk(off) if x[0] == "call" and x[1].endswith("stream_position")]
    good = len(ps) == 1 and bool(ffb) and bool(cdh) and fz.dominates(ffb[0][0], ps[0]) and fz.dominates(ps[0], cdh[0][0])
    ok &= rep.check(good, rule, "central_start", where(fz, s["span"]), "directory offset = position after closing the last entry, before the first central record",
                    "EOCD directory offset derives from %s" % show(off))
    subs = [x for x in walk(size) if x[0] == "bin" and x[1] == "Sub"]
    good = bool(subs) and ps and any(y[0] == "call" and y[1].endswith("stream_position") and y[4] != ps[0] and cdh and cdh[0][0] in fz.reach_from(ps[0]) for y in walk(subs[0][2]))
    ok &= rep.check(bool(good), rule, "central_size", where(fz, s["span"]), "directory size = position after the records - directory offset",
                    "EOCD directory size derives from %s" % show(size))
    good = ".files" in tokens(cnt) and "len()" in tokens(cnt)
    ok &= rep.check(good, rule, "count", where(fz, s["span"]), "entry count = files.len()", "EOCD entry count derives from %s" % show(cnt))
    good = ".comment" in tokens(com)
    ok &= rep.check(good, rule, "comment", where(fz, s["span"]), "EOCD comment = the writer's comment", "EOCD comment derives from %s" % show(com))
    # every central record is written from self.files, in order
    it = calls_matching(fz, r"slice::<impl \[T\]>::iter$|IntoIterator::into_iter$")
    good = bool(it) and ".files" in tokens(norm(exf.operand(it[0][1]["args"][0], (it[0][0], None))))
    ok &= rep.check(good, rule, "central-loop", where(fz, fz.span), "one central record per entry of self.files, in order", "central records are not produced by iterating self.files")
    # the oversize guards of F9 (fail before writing)
    g1 = any(x[0] == "Gt" and "len()" in tokens(x[1]) and x[2][0] in ("named", "const") and x[2][2] == 65535
             for b, t in calls_matching(se, r"ZipError::InvalidArchive|InvalidArchive") for x in [])
    return ok


def vers_rules(ctx, facts, rep):
    rule = "C02-VERS"
    ok = True
    vn = facts.one(r"^types::ZipFileData::version_needed$")
    ex = Ex(vn)
    CM = enum_variants(facts, "compression::CompressionMethod")
    inv = {v: k for k, v in CM.items()}
    vals = {}
    for bi, si, s in vn.stmts():
        if s["k"] == "assign" and s["place"]["l"] == 0 and s["rv"]["k"] == "use" and s["rv"]["op"]["k"] == "const":
            vals[int(s["rv"]["op"]["v"])] = bi
    good = set(vals) == ({20, 45, 46} if "Bzip2" in inv else {20, 45})
    ok &= rep.check(good, rule, "values", where(vn, vn.span), "version needed in {20, 45, 46}", "version_needed can return %s" % sorted(vals))
    if 45 in vals:
        fs = dominating_facts(vn, ex, vals[45])
        good = any((x[0] == "truth" and x[2] is True and any(y[0] == "call" and y[1].endswith("zip64_extension") for y in walk(x[1]))) or
                   (x[0] == "Ne" and x[2][0] == "const" and x[2][2] == 0 and any(y[0] == "call" and y[1].endswith("zip64_extension") for y in walk(x[1])))
                   for x in fs) or any(x[0] in ("Eq",) and any(y[0] == "call" and y[1].endswith("zip64_extension") for y in walk(x[1])) and x[2][2] == 1 for x in fs)
        ok &= rep.check(good, rule, "45-iff-zip64", where(vn, vn.span), "45 only when a ZIP64 field is needed", "version 45 is not tied to zip64_extension()")
    ze = facts.find(r"^types::ZipFileData::zip64_extension$")
    if ze:
        from rules.C03 import any_field_table
        T = 0xFFFFFFFF
        good = any_field_table(ze[0], {"uncompressed_size": T, "compressed_size": T, "header_start": T}, ("Gt",)) or \
            any_field_table(ze[0], {"uncompressed_size": T - 1, "compressed_size": T - 1, "header_start": T - 1}, ("Gt",))
        ok &= rep.check(good, rule, "zip64_extension=any-field-needs-64-bits", where(ze[0], ze[0].span), "zip64_extension() <=> one of the two sizes or the header offset exceeds 32 bits",
                        "zip64_extension() is not `uncompressed size, compressed size or header offset does not fit 32 bits`: entries that carry a ZIP64 record declare version 2.0")
    if 46 in vals and "Bzip2" in inv:
        fs = dominating_facts(vn, ex, vals[46])
        good = any(x[0] == "Eq" and x[1][0] == "discr" and x[2][2] == inv["Bzip2"] for x in fs) or \
            any(x[0] == "truth" and x[2] is True and x[1][0] == "call" and x[1][1].endswith("PartialEq::eq") and len(x[1][2]) == 2 and
                any(a[0] == "agg" and a[1] == "adt:Bzip2" for a in x[1][2]) and any(".compression_method" in tokens(a) for a in x[1][2]) for x in fs)
        ok &= rep.check(good, rule, "46-iff-bzip2", where(vn, vn.span), "46 only for bzip2 (APPNOTE 4.4.3.2)", "version 46 is not tied to the bzip2 method")
    return ok


def run(ctx, rep):
    facts = ctx.facts
    rep.configs.append("default")
    rep.explanation = (
        "Structural validity of what the writer emits: record layouts against APPNOTE tables written from the specification (catches "
        "symmetric reader/writer mistakes), sibling agreement between local and central header expressions, every narrowing integer cast "
        "reachable from the writer API discharged by a clamp/guard/checked conversion (lengths >= 65536 must be rejected, not wrapped), "
        "offsets/counts provenance from stream positions, flag-bit decision table, version-needed table, ZIP64 thresholds/sentinel "
        "consistency/end-record condition. The verdict of third-party parsers and the CRC of decoded data are not decided.")
    codec_rules(ctx, facts, rep, rule="C02-CODEC", readers=False)
    sib_rules(ctx, facts, rep)
    patch_rules(facts, rep, rule="C02-PATCH")
    patchoff_rules(ctx, facts, rep, rule="C02-PATCHOFF")
    flag_rules(ctx, facts, rep)
    narrow_rules(ctx, facts, rep)
    limit_rules(facts, rep)
    offs_rules(ctx, facts, rep)
    seekabs_rules(facts, rep)
    from rules.shared_lenfield import lenfield_rules
    lenfield_rules(ctx, facts, rep)    # C02-LENFIELD: the 16-bit length fields of the central header announce exactly the bytes that follow
    from rules.shared_count import count_rule
    count_rule(facts, rep, rule="C02-COUNT", only=r"ZipWriter<W>>::write$")       # the stored CRC/size describe exactly the bytes the sink accepted
    vers_rules(ctx, facts, rep)
    thr_rules(ctx, facts, rep, rule="C02-Z64")
    pair_rules(ctx, facts, rep, rule="C02-Z64", side="write")
    eocd_rules(ctx, facts, rep, rule="C02-Z64")
    from rules.C12 import ts_rules
    ts_rules(facts, rep)               # reported as C02/C12-TS: extra data rejected by validation can never reach a finished archive
    rep.floor("C02-CODEC", 55)
    rep.floor("C02-SIB", 7)
    rep.floor("C02-FLAGS", 2)
    rep.floor("C02-OFFS", 7)
    rep.floor("C02-Z64", 20)
    rep.assume("strict third-party parsers follow APPNOTE 6.3.9 as transcribed in /verif/spec/appnote.json")
