"""C01 -- write then read returns exactly what was written (DESIGN.md §3 C01).

Decides the *structure* of the round trip (necessary conditions), not byte equality of contents:
  C01-CODEC    writer and reader tables of every record agree with APPNOTE (hence with each other)
  C01-PATCH    CRC / sizes back-patched from the hasher, the byte counter and the stream position; counters reset per entry
  C01-PATCHOFF the literal offsets used by the back-patch equal the offsets computed from the APPNOTE table
  C01-CLOSE    every entry is closed before the next is opened and before the directory is written
  C01-FIN      finish() and Drop run the same finaliser
  C01-METHOD   method codes and codec constructors are paired identically on the write and the read side
  C01-MODE     Unix mode: `<< 16` with system Unix on write, `>> 16` under system Unix on read
"""
import re

from engine.codec import Codec
from engine.expr import Ex, norm, show, walk, alts
from engine.intervals import dominating_facts
from engine.mir import AnchorLost, callee_matches
from engine.query import (aggregates, field_assignments, calls_matching, where, switch_arms, aggs_in, calls_in,
                          enum_variants, const_assigned_in, find_switch_on)
from rules.shared_codec import writer_table, reader_table, tokens

ZW = r"^write::<impl write::zip_writer::ZipWriter<W>>::"


def codec_rules(ctx, facts, rep, rule="C01-CODEC", readers=True, writers=True):
    spec = ctx.spec("appnote.json")
    c = Codec(facts)
    ok = True
    # the five signatures are the format's
    for name, val in spec["signatures"].items():
        cs = [k for k in facts.consts if k.endswith("::" + name)]
        good = bool(cs) and int(facts.consts[cs[0]].get("v", -1)) == val
        ok &= good
        rep.check(good, rule, "signature:%s" % name, facts.consts[cs[0]]["span"] if cs else "",
                  "%s == 0x%08x" % (name, val), "%s is not 0x%08x (APPNOTE)" % (name, val))
    if writers:
        ok &= writer_table(facts, rep, rule, facts.one(r"^write::write_local_file_header$"), "LFH", spec, c, tail_optional=("extra",))
        ok &= writer_table(facts, rep, rule, facts.one(r"^write::write_central_directory_header$"), "CDH", spec, c)
        ok &= writer_table(facts, rep, rule, facts.one(r"^spec::CentralDirectoryEnd::write$"), "EOCD", spec, c)
        ok &= writer_table(facts, rep, rule, facts.one(r"^spec::Zip64CentralDirectoryEnd::write$"), "Z64EOCD", spec, c)
        ok &= writer_table(facts, rep, rule, facts.one(r"^spec::Zip64CentralDirectoryEndLocator::write$"), "Z64LOC", spec, c)
    if readers:
        ok &= reader_table(facts, rep, rule, facts.one(r"^read::central_header_to_zip_file$"), "CDH", spec, c, adt_re=r"ZipFileData")
        ok &= reader_table(facts, rep, rule, facts.one(r"^read::read_zipfile_from_stream$"), "LFH", spec, c, adt_re=r"ZipFileData")
        ok &= reader_table(facts, rep, rule, facts.one(r"^spec::CentralDirectoryEnd::parse$"), "EOCD", spec, c)
        ok &= reader_table(facts, rep, rule, facts.one(r"^spec::Zip64CentralDirectoryEnd::find_and_parse$"), "Z64EOCD", spec, c)
        ok &= reader_table(facts, rep, rule, facts.one(r"^spec::Zip64CentralDirectoryEndLocator::parse$"), "Z64LOC", spec, c)
        ok &= msdos_arg_order(facts, rep, rule)
    return ok


def msdos_arg_order(facts, rep, rule):
    """from_msdos(date, time): the first argument must be the *second* of the two consecutive u16 reads (date follows time)"""
    ok = True
    for f in (facts.one(r"^read::central_header_to_zip_file_inner$"), facts.one(r"^read::read_zipfile_from_stream$")):
        ex = Ex(f)
        for bi, t in calls_matching(f, r"^types::DateTime::from_msdos$"):
            a0 = norm(ex.operand(t["args"][0], (bi, None)))
            a1 = norm(ex.operand(t["args"][1], (bi, None)))
            s0 = [x[4] for x in walk(a0) if x[0] == "call" and x[1].endswith("read_u16")]
            s1 = [x[4] for x in walk(a1) if x[0] == "call" and x[1].endswith("read_u16")]
            good = bool(s0 and s1) and f.dominates(s1[0], s0[0]) and s0[0] != s1[0]
            ok &= good
            rep.check(good, rule, "from_msdos-arg-order[%s]" % f.path.split("::")[-1], where(f, t["span"]),
                      "from_msdos(date, time): date is the later of the two consecutive reads",
                      "from_msdos receives (time, date): the DOS time word is read before the date word in the record")
        # ... and what the entry reports is that value itself: a parser that "repairs" out-of-range words (month 0, hour 25) makes
        # every re-writer of the entry (append, raw copy) change the recorded timestamp
        from engine.query import aggregates as _aggs
        for bi, si, s, flds in _aggs(f, r"types::ZipFileData$"):
            if "last_modified_time" not in flds:
                continue
            v = norm(ex.operand(flds["last_modified_time"], (bi, si)))
            good = v[0] == "call" and v[1].endswith("DateTime::from_msdos")
            ok &= good
            rep.check(good, rule, "timestamp-verbatim[%s]" % f.path.split("::")[-1], where(f, s["span"]), "last_modified_time = from_msdos(date, time), nothing else",
                      "the parsed timestamp is post-processed (%s): out-of-range DOS words are no longer reported / re-written unchanged" % show(v)[:100])
    return ok


def canon_eq(a, b):
    from engine.expr import canon
    return canon(a) == canon(b)


def patch_rules(facts, rep, rule="C01-PATCH"):
    ok = True
    ff = facts.one(ZW + "finish_file$")
    ex = Ex(ff)
    want = {
        "crc32": lambda e: any(x[0] == "call" and x[1].endswith("Hasher::finalize") and ".hasher" in tokens(x) for x in walk(e)),
        "uncompressed_size": lambda e: e[0] == "field" and e[2] == "bytes_written",
        "compressed_size": lambda e: any(x[0] == "call" and x[1].endswith("stream_position") for x in walk(e)) and ".start" in tokens(e)
        and any((x[0] == "call" and x[1].endswith("checked_sub")) or (x[0] == "bin" and x[1] == "Sub") for x in walk(e)),
    }
    found = {}
    for fld in want:
        for (f, bi, si, s) in field_assignments(facts, fld, r"ZipFileData$"):
            if f.path != ff.path:
                continue
            e = norm(ex.rvalue(s["rv"], (bi, si)))
            # every value the field can receive has the required provenance: a value chosen per method / per path (a φ) whose
            # alternatives include some other quantity -- the plaintext count for a stored entry, say, which an encrypting layer
            # makes 12 bytes short -- is not "the bytes between the entry's start and the sink's position"
            def value_alts(x):
                # the values the assignment can store: φ alternatives, looked at through value-preserving wrappers only
                # (a φ inside a call argument -- which writer the position is asked of -- is not a choice of value)
                while x[0] in ("ok", "cast"):
                    x = x[1]
                return [z for y in x[1] for z in value_alts(y)] if x[0] == "phi" else [x]
            good = want[fld](e) and all(want[fld](a_) for a_ in value_alts(e))
            fs = dominating_facts(ff, ex, bi)
            raw_guard = any(x[0] == "truth" and x[2] is False and x[1][0] == "field" and x[1][2] == "writing_raw" for x in fs)
            found[fld] = True
            ok &= good and raw_guard
            rep.check(good and raw_guard, rule, "finish_file:%s" % fld, where(ff, s["span"]),
                      "%s <- %s, only when the entry is not raw" % (fld, show(e)[:90]),
                      "%s is back-patched from %s%s" % (fld, show(e)[:140], "" if raw_guard else " and is not guarded by !writing_raw"))
    for fld in want:
        if fld not in found:
            ok = False
            rep.violation(rule, "finish_file:%s" % fld, where(ff, ff.span), "the entry-closing function no longer assigns %s" % fld)
    # the patched header is written after the assignments and the sink returns to the end of the data
    ups = calls_matching(ff, r"^write::update_local_file_header$")
    seeks = calls_matching(ff, r"io::Seek::seek$")
    good = bool(ups) and any(ff.dominates(ups[0][0], sb) for sb, _ in seeks)
    if good:
        sb, st = [x for x in seeks if ff.dominates(ups[0][0], x[0])][0]
        e = norm(ex.operand(st["args"][1], (sb, None)))
        good = any(x[0] == "call" and x[1].endswith("stream_position") for x in walk(e))
    ok &= good
    rep.check(good, rule, "finish_file:patch-then-return-to-end", where(ff, ff.span),
              "update_local_file_header(..)? then seek(Start(file_end)) with file_end the position taken before the patch",
              "after back-patching the header the sink is not repositioned to the recorded end of the entry data")
    # every successful close of a non-raw current entry runs the back-patch (path enumeration)
    from engine.paths import paths as _paths, decided as _decided, called as _called, outcome as _outcome, PathExplosion
    try:
        pss = _paths(ff, max_paths=20000)
    except PathExplosion:
        pss = None
    if pss is None:
        rep.note("finish_file: path enumeration exceeded its cap; patch-unconditional evaluated by dominance only")
        good = bool(ups)
    else:
        offenders = []
        for p_ in pss:
            if _outcome(p_)[0] != "Ok":
                continue
            raw_ = _decided(p_, r"writing_raw$")
            last_ = [v for a_, v in p_["decisions"] if re.search(r"^discr\(.*last_mut\(", a_)]
            if raw_ == 0 and (not last_ or last_[-1] == 1) and not _called(p_, r"^write::update_local_file_header$"):
                offenders.append([(a_[:50], v) for a_, v in p_["decisions"] if not a_.startswith("discr(Try::branch")][-4:])
        good = not offenders
        rep.count("finish_file_paths", len(pss))
    ok &= good
    rep.check(good, rule, "finish_file:patch-unconditional", where(ff, ups[0][1]["span"]) if ups else where(ff, ff.span),
              "every successful close of a non-raw entry back-patches its local header",
              "a successful close of a non-raw entry can skip the header back-patch (decisions: %s) -- such entries keep the placeholder "
              "CRC/sizes in their local header" % (offenders[:2] if pss is not None else "?"))
    # per-entry reset in start_entry
    se = facts.one(ZW + "start_entry$")
    exs = Ex(se)
    resets = {"start": None, "bytes_written": None, "hasher": None}
    hdr = calls_matching(se, r"^write::write_local_file_header$")
    if not hdr:
        raise AnchorLost("start_entry no longer calls write_local_file_header")
    # references to (parts of) the record held in locals: `_x = &mut (*self).stats` (what an inlined `stats.restart(..)` works through)
    alias = {}
    for _ in range(3):
        for bi, si, s in se.stmts():
            if s["k"] == "assign" and not s["place"]["p"] and s["rv"]["k"] == "ref":
                pl_ = s["rv"]["place"]
                pre = alias.get(pl_["l"], [])
                alias[s["place"]["l"]] = pre + [q.get("n") for q in pl_["p"] if q["k"] == "field"]
            elif s["k"] == "assign" and not s["place"]["p"] and s["rv"]["k"] == "use" and s["rv"]["op"]["k"] in ("move", "copy") and not s["rv"]["op"]["place"]["p"] \
                    and s["rv"]["op"]["place"]["l"] in alias:
                alias[s["place"]["l"]] = alias[s["rv"]["op"]["place"]["l"]]
    for bi, si, s in se.stmts():
        if s["k"] != "assign":
            continue
        fp = alias.get(s["place"]["l"], []) + [p.get("n") for p in s["place"]["p"] if p["k"] == "field"]
        fields = []
        if len(fp) >= 2 and fp[-2] == "stats" and fp[-1] in resets:
            fields = [(fp[-1], norm(exs.rvalue(s["rv"], (bi, si))))]
        elif fp and fp[-1] == "stats":
            # the whole record replaced at once: `self.stats = ZipWriterStats { .. }`
            whole = norm(exs.rvalue(s["rv"], (bi, si)))
            if whole[0] == "agg":
                fields = [(k_, v_) for k_, v_ in whole[3] if k_ in resets]
        for fname, e in fields:
            after_hdr = se.call_dominates_stmt(hdr[0][0], bi)
            if fname == "start":
                good = after_hdr and any(x[0] == "call" and x[1].endswith("stream_position") for x in walk(e))
            elif fname == "bytes_written":
                good = e == ("const", "u64", 0)
            else:
                good = e[0] == "call" and e[1].endswith("Hasher::new")
            resets[fname] = (good, s, e)
    from rules.shared_typestate import holds as _tsx
    for k, v in resets.items():
        good = bool(v and v[0])
        if not good and k in ("bytes_written", "hasher") and _tsx(facts, "unsupported", "P5:"):
            # not recognised structurally; the obligation itself (every successfully opened entry starts with fresh accounting, over
            # all call sequences) is decided by the typestate engine
            rep.ok(rule, "start_entry:stats.%s" % k, where(se, se.span), "reset not recognised structurally; C12-TSX P5 (fresh per-entry accounting in every reachable state) holds")
            continue
        ok &= good
        rep.check(good, rule, "start_entry:stats.%s" % k, where(se, v[1]["span"]) if v else where(se, se.span),
                  "stats.%s reset when an entry is opened" % k,
                  "stats.%s is not (re)initialised in the entry-opening function%s" % (k, (": " + show(v[2])[:80]) if v else ""))
    rep.floor(rule, 7)
    # closing an entry READS the accounting (hasher.clone().finalize(), bytes_written) and never consumes or resets it: the close
    # runs again when the next start is rejected (long name) or at finish(), and must then patch the same values
    ffn = facts.one(ZW + "finish_file$")
    muts = []
    for b_, si_, s_ in ffn.stmts():
        if s_["k"] == "assign":
            fp_ = [q.get("n") for q in s_["place"]["p"] if q["k"] == "field"]
            if fp_[:1] == ["stats"]:
                muts.append("assigns self.%s" % ".".join(fp_))
            rv_ = s_["rv"]
            if rv_["k"] in ("ref", "rawptr") and rv_.get("mut") and [q.get("n") for q in rv_["place"]["p"] if q["k"] == "field"][:1] == ["stats"]:
                muts.append("borrows self.%s mutably" % ".".join(q.get("n") for q in rv_["place"]["p"] if q["k"] == "field"))
    # the accounting step itself: every accepted chunk is hashed and ADDED to the byte count (an entry written with several write()
    # calls declares the sum, not the last chunk)
    upd = facts.find(r"^write::ZipWriterStats::update$")
    if upd:
        u = upd[0]
        exu = Ex(u)
        asg = [(bi_, si_, s_) for bi_, si_, s_ in u.stmts() if s_["k"] == "assign" and [q.get("n") for q in s_["place"]["p"] if q["k"] == "field"][-1:] == ["bytes_written"]]
        good = len(asg) == 1
        if good:
            e_ = norm(exu.rvalue(asg[0][2]["rv"], (asg[0][0], asg[0][1])))
            good = e_[0] == "bin" and e_[1] == "Add" and any(x_[0] == "field" and x_[2] == "bytes_written" for x_ in (e_[2], e_[3])) and \
                any(any(y_[0] == "call" and re.search(r"::len$", y_[1]) and y_[2] and y_[2][0][0] == "arg" for y_ in walk(x_)) or x_[0] == "len" for x_ in (e_[2], e_[3]))
        hs = calls_matching(u, r"Hasher::update$")
        good = good and len(hs) == 1 and norm(exu.operand(hs[0][1]["args"][1], (hs[0][0], None)))[0] == "arg"
        ok &= rep.check(good, rule, "stats.update:accumulates", where(u, u.span), "bytes_written += buf.len(); hasher.update(buf)",
                        "the per-entry accounting step does not add the chunk's length to bytes_written and hash exactly the chunk")
    # the extra-data path moves the data start: the accounting start moves with it (the compressed size is measured from there)
    ee = facts.find(ZW + "end_extra_data$")
    if ee:
        e0 = ee[0]
        exe = Ex(e0)
        st_ = [(bi_, si_, s_) for bi_, si_, s_ in e0.stmts() if s_["k"] == "assign" and ([q.get("n") for q in s_["place"]["p"] if q["k"] == "field"][-2:] == ["stats", "start"] or
                ([q.get("n") for q in s_["place"]["p"] if q["k"] == "field"][-1:] == ["start"] and any("ZipWriterStats" in str(q.get("adt") or "") for q in s_["place"]["p"])))]
        ds_ = [(bi_, si_, s_) for bi_, si_, s_ in e0.stmts() if s_["k"] == "assign" and s_["place"]["p"] and s_["place"]["p"][-1]["k"] == "deref" and
               "data_start" in (e0.local_name(s_["place"]["l"]) or "")]
        wr_ = [b_ for b_, t_ in e0.calls() if (t_.get("callee") or "").endswith("Write::write_all")]
        good = bool(st_) and bool(wr_)
        if good:
            v_ = norm(exe.rvalue(st_[0][2]["rv"], (st_[0][0], st_[0][1])))
            good = v_[0] == "bin" and v_[1] == "Add" and any(y_[0] == "call" and re.search(r"::len$", y_[1]) and ".extra_field" in tokens(y_) for y_ in walk(v_))
            if ds_:
                good = good and canon_eq(v_, norm(exe.rvalue(ds_[0][2]["rv"], (ds_[0][0], ds_[0][1]))))
        ok &= rep.check(good, rule, "end_extra_data:accounting-start-follows-data-start", where(e0, e0.span),
                        "after the local extra data is emitted: stats.start = data_start = old data_start + extra_field.len()",
                        "the local extra data is emitted but the accounting start is not advanced with the data start: the entry's compressed size then includes its extra data")
    ok &= rep.check(not muts, rule, "finish_file:accounting-read-only", where(ffn, ffn.span), "finish_file only reads stats.hasher / stats.bytes_written / stats.start",
                    "finish_file %s: a second close of the same entry (after a rejected start, or at finish) patches different values" % sorted(set(muts))[:2])
    return ok


def patchoff_rules(ctx, facts, rep, rule="C01-PATCHOFF"):
    spec = ctx.spec("appnote.json")
    lfh = spec["records"]["LFH"]["fields"]
    off = {}
    o = 0
    for f in lfh:
        off[f["name"]] = o
        o += f["w"]
    fixed = o
    ok = True
    c = Codec(facts)
    up = facts.one(r"^write::update_local_file_header$")
    seqs = c.sequences(up)
    seen_plain = seen_z64 = False
    for s in seqs:
        kinds = [(e["kind"], e["width"]) for e in s]
        sk = [e for e in s if e["kind"] == "seek"]
        # first seek: header_start + offset(crc32)
        e0 = sk[0]["expr"]
        consts = [x[2] for x in walk(e0) if x[0] in ("const", "named") and isinstance(x[2], int)]
        good = ".header_start" in tokens(e0) and consts == [off["crc32"]] and "Start" in show(e0)
        ok &= good
        rep.check(good, rule, "crc-patch-offset", where(up, sk[0]["span"]),
                  "seek(Start(header_start + %d)): %d = offset of crc-32 in the local header per APPNOTE 4.3.7" % (off["crc32"], off["crc32"]),
                  "CRC back-patch seeks to %s; APPNOTE puts crc-32 at offset %d of the local header" % (show(e0), off["crc32"]))
        ws = [e for e in s if e["kind"] == "w"]
        if len(sk) == 1:
            seen_plain = True
            good = [e["width"] for e in ws] == [4, 4, 4] and ".crc32" in tokens(ws[0]["expr"]) and \
                ".compressed_size" in tokens(ws[1]["expr"]) and ".uncompressed_size" in tokens(ws[2]["expr"])
            ok &= good
            rep.check(good, rule, "patch-fields-32", where(up, up.span), "patch writes crc32, compressed size, uncompressed size (4 bytes each) in record order",
                      "32-bit back-patch writes %s" % [show(e["expr"]) for e in ws])
        else:
            seen_z64 = True
            e1 = sk[1]["expr"]
            consts = sorted(x[2] for x in walk(e1) if x[0] in ("const", "named") and isinstance(x[2], int))
            # the name term is the name's length in BYTES (what the header's name field occupies): a len() of the string / its bytes,
            # not a count of characters or of anything else derived from the name
            name_calls = [x for x in walk(e1) if x[0] == "call" and ".file_name" in tokens(x)]
            bytelen = bool(name_calls) and all(re.search(r"(::|^)len$", x[1]) for x in name_calls) or \
                (not name_calls and any(x[0] == "len" and ".file_name" in tokens(x) for x in walk(e1)))
            good = consts == sorted([fixed, spec["patch_offsets"]["extra_header"]]) and ".header_start" in tokens(e1) and ".file_name" in tokens(e1) and bytelen
            if good:
                # as a linear form (signs and coefficients, not just which constants occur): header_start + len(name) + fixed + 4
                from rules.shared_lenfield import lin as _lin, NotLinear as _NL
                try:
                    tgt_ = e1[3][0][1] if e1[0] == "agg" and e1[3] else e1
                    lf_ = {k_: c_ for k_, c_ in _lin(tgt_).items() if c_ != 0}
                    good = lf_ == {1: fixed + spec["patch_offsets"]["extra_header"], ("fld", "header_start"): 1, ("len", "field", "file_name"): 1}
                except (_NL, IndexError, TypeError):
                    pass        # a spelling the linear reader does not know: the constant/term test above stands
            ok &= good
            rep.check(good, rule, "zip64-patch-offset", where(up, sk[1]["span"]),
                      "seek(Start(header_start + %d + name length + 4)): fixed local header size + extra header" % fixed,
                      "ZIP64 local extra back-patch seeks to %s; expected header_start + %d + name length + 4" % (show(e1), fixed))
            w8 = [e for e in ws if e["width"] == 8]
            good = len(w8) == 2 and ".uncompressed_size" in tokens(w8[0]["expr"]) and ".compressed_size" in tokens(w8[1]["expr"])
            ok &= good
            rep.check(good, rule, "zip64-patch-order", where(up, up.span), "ZIP64 patch writes original size then compressed size (APPNOTE 4.5.3)",
                      "ZIP64 local extra is patched with %s" % [show(e["expr"]) for e in w8])
    good = seen_plain and seen_z64
    ok &= good
    rep.check(good, rule, "both-patch-paths", where(up, up.span), "32-bit and ZIP64 back-patch paths both present", "a back-patch path disappeared")
    # the ZIP64 local extra written up-front has the same order
    wls = facts.find(r"^write::write_local_zip64_extra_field$")
    wl = wls[0] if wls else facts.one(r"^write::write_local_file_header$")      # (the helper may have been dissolved into the header writer)
    for s in c.sequences(wl):
        ws = [e for e in s if e["kind"] == "w"]
        if not wls:
            # inside the header writer: the ZIP64 record is the 2,2,8,8 run that starts with the record's id (absent on the non-large path)
            idx = [i for i in range(len(ws) - 3) if [e["width"] for e in ws[i:i + 4]] == [2, 2, 8, 8] and ws[i]["expr"][0] == "const" and ws[i]["expr"][2] == spec["zip64_extra"]["header_id"]]
            if not idx:
                continue
            ws = ws[idx[0]:idx[0] + 4]
        good = [e["width"] for e in ws] == [2, 2, 8, 8] and ws[0]["expr"][2] == spec["zip64_extra"]["header_id"] and \
            ws[1]["expr"][2] == spec["zip64_extra"]["local_data_size"] and ".uncompressed_size" in tokens(ws[2]["expr"]) and ".compressed_size" in tokens(ws[3]["expr"])
        ok &= good
        rep.check(good, rule, "zip64-local-extra-layout", where(wl, wl.span), "id 0x0001, size 16, original size, compressed size",
                  "local ZIP64 extra field is written as %s" % [(e["width"], show(e["expr"])) for e in ws])
    return ok


OPENERS = ["start_file", "start_file_aligned", "start_file_with_extra_data", "add_directory", "add_symlink",
           "raw_copy_file", "raw_copy_file_rename", "start_file_from_path", "add_directory_from_path"]


def close_rules(facts, rep):
    rule = "C01-CLOSE"
    ok = True
    se = facts.one(ZW + "start_entry$")
    cg = facts.callgraph()
    for nm in OPENERS:
        fs = facts.find(ZW + nm + "$")
        if not fs:
            ok = False
            rep.violation(rule, "opener:%s" % nm, "", "public entry-opening method %s not found (anchor lost)" % nm)
            continue
        reach, _ = facts.reachable_from([fs[0].path])
        good = se.path in reach
        ok &= good
        rep.check(good, rule, "opener:%s" % nm, where(fs[0], fs[0].span), "reaches the entry-opening function",
                  "%s no longer goes through start_entry (the previous entry is not closed)" % nm)
    for f, label, later in ((se, "start_entry", r"stream_position$|^write::write_local_file_header$"),
                            (facts.one(ZW + "finalize$"), "finalize", r"stream_position$|^write::write_central_directory_header$|::write$")):
        ex = Ex(f)
        ffc = calls_matching(f, ZW + "finish_file$")
        if not ffc:
            ok = False
            rep.violation(rule, "%s:closes-first" % label, where(f, f.span), "%s does not call the entry-closing function" % label)
            continue
        fb = ffc[0][0]
        others = [b for b, t in calls_matching(f, later) if b != fb]
        good = bool(others) and all(f.dominates(fb, b) for b in others)
        # and its error is propagated
        dest = ffc[0][1]["dest"]["l"]
        prop = any(callee_matches(t, r"ops::Try::branch$") and t["args"][0]["k"] != "const" and t["args"][0]["place"]["l"] == dest
                   for b, t in f.calls())
        ok &= good and prop
        rep.check(good and prop, rule, "%s:closes-first" % label, where(f, ffc[0][1]["span"]),
                  "finish_file()? dominates every write/position query of %s" % label,
                  "%s %s" % (label, "performs I/O that is not dominated by closing the previous entry" if not good else "ignores the result of finish_file()"))
    rep.floor(rule, 11)
    return ok


def fin_rules(facts, rep):
    rule = "C01-FIN"
    ok = True
    fin = facts.one(ZW + "finish$")
    drp = facts.one(r"^write::<impl std::ops::Drop for write::zip_writer::ZipWriter<W>>::drop$")
    fz = ZW + "finalize$"
    for f, label in ((fin, "finish"), (drp, "drop")):
        cs = calls_matching(f, fz)
        good = len(cs) == 1
        ok &= good
        rep.check(good, rule, "%s-calls-finalize" % label, where(f, f.span), "%s runs the shared finaliser exactly once" % label,
                  "%s does not call finalize() exactly once (%d calls)" % (label, len(cs)))
    # finish performs no write after finalize
    ex = Ex(fin)
    cs = calls_matching(fin, fz)
    if cs:
        after = fin.reach_from(cs[0][0])
        writes = [t for b, t in fin.calls() if b in after and callee_matches(t, r"io::Write::|byteorder::WriteBytesExt|io::Seek::seek$")]
        good = not writes
        ok &= good
        rep.check(good, rule, "finish-no-io-after-finalize", where(fin, fin.span), "finish() only takes the sink out after finalize()",
                  "finish() performs I/O after finalize(): %s" % [t["callee"] for t in writes])
    # drop's only guard is `inner.is_closed()`
    cs = calls_matching(drp, fz)
    if cs:
        fs = dominating_facts(drp, Ex(drp), cs[0][0])
        guards = [x for x in fs]
        good = len(guards) == 1 and guards[0][0] == "truth" and guards[0][2] is False and \
            any(y[0] == "call" and y[1].endswith("is_closed") for y in walk(guards[0][1]))
        ok &= good
        rep.check(good, rule, "drop-guard", where(drp, drp.span), "Drop finalises unless the writer is closed -- no other condition",
                  "Drop skips or conditions finalisation on %s" % [(g[0], show(g[1])[:60], g[2]) for g in guards])
    return ok


def method_rules(ctx, facts, rep):
    rule = "C01-METHOD"
    spec = ctx.spec("appnote.json")
    ok = True
    CM = "compression::CompressionMethod"
    names = enum_variants(facts, CM)
    to_u16 = facts.one(r"^compression::CompressionMethod::to_u16$")
    from_u16 = facts.one(r"^compression::CompressionMethod::from_u16$")
    # to_u16: variant -> code
    t = to_u16.term(0)
    arms = switch_arms(to_u16, 0)
    tomap = {}
    for v, blocks in arms.items():
        if v == "otherwise":
            continue
        cs = const_assigned_in(to_u16, blocks)
        if len(cs) == 1:
            tomap[names.get(v, v)] = cs[0]
    # from_u16: code -> variant
    arms = switch_arms(from_u16, 0)
    frommap = {}
    for v, blocks in arms.items():
        if v == "otherwise":
            continue
        ag = aggs_in(from_u16, blocks, CM)
        if len(ag) == 1:
            frommap[v] = ag[0][2]["rv"]["variant"]
        else:
            # the arm yields a value built elsewhere (an associated constant such as CompressionMethod::DEFLATE): its value decides
            exf = Ex(from_u16)
            vals = set()
            for bi_, si_, s_ in from_u16.stmts():
                if bi_ in blocks and s_["k"] == "assign" and s_["place"]["l"] == 0 and not s_["place"]["p"]:
                    for a_ in alts(norm(exf.rvalue(s_["rv"], (bi_, si_)))):
                        vals.add(a_[1][4:] if a_[0] == "agg" and str(a_[1]).startswith("adt:") and a_[2] == CM else "?")
            if len(vals) == 1 and "?" not in vals:
                frommap[v] = vals.pop()
    for name, code in spec["methods"].items():
        if name not in names.values():
            continue  # variant not compiled in this configuration
        good = tomap.get(name) == code and frommap.get(code) == name
        ok &= good
        rep.check(good, rule, "code:%s" % name, where(to_u16, to_u16.span), "%s <-> %d in both directions (APPNOTE 4.4.5)" % (name, code),
                  "method %s: to_u16 gives %s, from_u16(%d) gives %s; APPNOTE code is %d" % (name, tomap.get(name), code, frommap.get(code), code))
    extra = {k: v for k, v in tomap.items() if k not in spec["methods"] and k != "Unsupported"}
    rep.check(not extra, rule, "no-unknown-codes", where(to_u16, to_u16.span), "no method code outside the table", "unexpected codes %s" % extra)
    # encoder / decoder pairing
    sw = facts.one(r"^write::GenericZipWriter::<W>::switch_to$")
    ENC = {"Stored": ("Storer", None), "Deflated": ("Deflater", r"DeflateEncoder"), "Bzip2": ("Bzip2", r"BzEncoder"), "Zstd": ("Zstd", r"zstd.*Encoder")}
    sws = find_switch_on(sw, lambda d: d[0] == "discr" and d[1][0] == "arg" and d[1][1] == 2)
    if not sws:
        raise AnchorLost("switch on the requested method in switch_to")
    bi, t, d = sws[-1]
    arms = switch_arms(sw, bi)
    for v, blocks in arms.items():
        nm = names.get(v)
        if nm not in ENC:
            continue
        variants = {s["rv"]["variant"] for _, _, s in aggs_in(sw, blocks, r"GenericZipWriter$")}
        wantv, ctor = ENC[nm]
        good = variants == {wantv}
        if ctor:
            good = good and bool(calls_in(sw, blocks, ctor + r".*::new$"))
        ok &= good
        rep.check(good, rule, "encoder:%s" % nm, where(sw, t["span"]), "%s -> GenericZipWriter::%s%s" % (nm, wantv, " via " + ctor if ctor else ""),
                  "writer arm for %s constructs %s (expected %s%s)" % (nm, sorted(variants), wantv, " via " + ctor if ctor else ""))
    mr = facts.one(r"^read::make_reader$")
    DEC = {"Stored": ("Stored", None), "Deflated": ("Deflated", r"DeflateDecoder"), "Bzip2": ("Bzip2", r"BzDecoder"), "Zstd": ("Zstd", r"zstd.*Decoder")}
    sws = find_switch_on(mr, lambda d: d[0] == "discr" and d[1][0] == "arg" and d[1][1] == 1)
    if not sws:
        raise AnchorLost("switch on the method in make_reader")
    bi, t, d = sws[0]
    arms = switch_arms(mr, bi)
    for v, blocks in arms.items():
        nm = names.get(v)
        if nm not in DEC:
            continue
        variants = {s["rv"]["variant"] for _, _, s in aggs_in(mr, blocks, r"ZipFileReader$")}
        wantv, ctor = DEC[nm]
        good = variants == {wantv}
        if ctor:
            good = good and bool(calls_in(mr, blocks, ctor + r".*::new$"))
        ok &= good
        rep.check(good, rule, "decoder:%s" % nm, where(mr, t["span"]), "%s -> ZipFileReader::%s%s" % (nm, wantv, " via " + ctor if ctor else ""),
                  "reader arm for %s constructs %s (expected %s%s)" % (nm, sorted(variants), wantv, " via " + ctor if ctor else ""))
    # current_compression is the inverse of the encoder map (switch_to's early return relies on it)
    cc = facts.one(r"^write::GenericZipWriter::<W>::current_compression$")
    gz = enum_variants(facts, "write::GenericZipWriter")
    arms = switch_arms(cc, 0) if cc.term(0)["k"] == "switch" else {}
    inv = {"Storer": "Stored", "Deflater": "Deflated", "Bzip2": "Bzip2", "Zstd": "Zstd"}
    for v, blocks in arms.items():
        gname = gz.get(v)
        if gname not in inv:
            continue
        ms = {s["rv"]["variant"] for _, _, s in aggs_in(cc, blocks, CM)}
        good = ms == {inv[gname]}
        ok &= good
        rep.check(good, rule, "current:%s" % gname, where(cc, cc.span), "current_compression(%s) = %s" % (gname, inv[gname]),
                  "current_compression reports %s for an active %s" % (sorted(ms), gname))
    rep.floor(rule, 12)
    return ok


def mode_rules(ctx, facts, rep):
    rule = "C01-MODE"
    spec = ctx.spec("appnote.json")
    ok = True
    se = facts.one(ZW + "start_entry$")
    ex = Ex(se)
    ags = list(aggregates(se, r"types::ZipFileData$"))
    if not ags:
        raise AnchorLost("ZipFileData construction in start_entry")
    bi, si, s, flds = ags[0]
    ea = norm(ex.operand(flds["external_attributes"], (bi, si)))
    good = ea[0] == "bin" and ea[1] == "Shl" and ea[3] == ("const", "i32", 16) or (ea[0] == "bin" and ea[1] == "Shl" and ea[3][0] == "const" and ea[3][2] == 16)
    good = good and ".permissions" in tokens(ea)
    ok &= bool(good)
    rep.check(bool(good), rule, "write:attrs=perm<<16", where(se, s["span"]), "external_attributes = permissions << 16",
              "external_attributes written as %s" % show(ea))
    sysx = norm(ex.operand(flds["system"], (bi, si)))
    good = sysx[0] == "agg" and sysx[1] == "adt:Unix"
    ok &= good
    rep.check(good, rule, "write:system=Unix", where(se, s["span"]), "entries are marked made-by Unix", "system written as %s" % show(sysx))
    # System discriminants and from_u8
    sv = enum_variants(facts, "types::System")
    inv = {v: k for k, v in sv.items()}
    for nm, code in spec["systems"].items():
        good = inv.get(nm) == code
        ok &= good
        rep.check(good, rule, "system-code:%s" % nm, "", "System::%s = %d" % (nm, code), "System::%s has discriminant %s, APPNOTE 4.4.2 says %d" % (nm, inv.get(nm), code))
    fu = facts.one(r"^types::System::from_u8$")
    arms = switch_arms(fu, 0)
    for nm, code in spec["systems"].items():
        vs = {s2["rv"]["variant"] for _, _, s2 in aggs_in(fu, arms.get(code, set()), r"types::System$")}
        good = vs == {nm}
        ok &= good
        rep.check(good, rule, "from_u8:%d" % code, where(fu, fu.span), "from_u8(%d) = %s" % (code, nm), "from_u8(%d) gives %s" % (code, sorted(vs)))
    # reader: unix_mode under System::Unix returns external_attributes >> 16
    um = facts.one(r"^types::ZipFileData::unix_mode$")
    exu = Ex(um)
    sws = find_switch_on(um, lambda d: d[0] == "discr" and ".system" in tokens(d))
    if not sws:
        raise AnchorLost("switch on system in unix_mode")
    bi, t, d = sws[0]
    arms = switch_arms(um, bi)
    ublocks = arms.get(inv.get("Unix"), set())
    exprs = []
    for b in sorted(ublocks):
        for si2, s2 in enumerate(um.blocks[b]["stmts"]):
            if s2["k"] == "assign" and s2["rv"]["k"] == "agg" and s2["rv"].get("variant") == "Some":
                exprs.append(norm(exu.operand(s2["rv"]["ops"][0], (b, si2))))
    good = len(exprs) == 1 and exprs[0][0] == "bin" and exprs[0][1] == "Shr" and exprs[0][3][2] == 16 and ".external_attributes" in tokens(exprs[0])
    ok &= good
    rep.check(good, rule, "read:mode=attrs>>16", where(um, t["span"]), "unix_mode() = external_attributes >> 16 for made-by Unix",
              "unix_mode() under System::Unix returns %s" % [show(e) for e in exprs])
    # S_IF* type bits OR-ed by the public openers
    for nm, bits in (("start_file", 0o100000), ("start_file_with_extra_data", 0o100000), ("add_directory", 0o40000), ("add_symlink", 0o120000)):
        f = facts.one(ZW + nm + "$")
        found = False
        exo = Ex(f)
        for b, si2, s2 in f.stmts():
            if s2["k"] == "assign" and s2["rv"]["k"] == "binop" and s2["rv"]["op"] == "BitOr":
                for o in (s2["rv"]["a"], s2["rv"]["b"]):
                    v = norm(exo.operand(o, (b, si2)))
                    if v[0] in ("const", "named") and v[2] == bits:
                        found = True
        ok &= found
        rep.check(found, rule, "type-bits:%s" % nm, where(f, f.span), "permissions |= 0o%o" % bits, "%s no longer ORs the file-type bits 0o%o into the mode" % (nm, bits))
    # add_directory: a name that already ends in a separator -- '/' or the DOS '\\' the reader's is_dir() also honours -- is stored
    # as given; only other names get a '/' appended.  Both separators are tested (however: match arms, ends_with(closure), matches!)
    ad = facts.one(ZW + "add_directory$")
    seps = set()
    for g in [ad] + facts.closures_of(ad):
        exg = Ex(g)
        for b, si2, s2 in g.stmts():
            if s2["k"] == "assign" and s2["rv"]["k"] == "binop" and s2["rv"]["op"] in ("Eq", "Ne"):
                for o in (s2["rv"]["a"], s2["rv"]["b"]):
                    if o["k"] == "const" and o.get("ty") == "char" and o.get("v") is not None:
                        seps.add(int(o["v"]))
        for b, t2 in g.calls():
            for a in t2["args"]:
                if a["k"] == "const" and a.get("ty") == "char" and a.get("v") is not None:
                    seps.add(int(a["v"]))
        for b in range(len(g.blocks)):
            t2 = g.term(b)
            if t2 and t2["k"] == "switch" and t2.get("dty") == "char":
                seps |= {int(v) for v, _ in t2["targets"]}
    good = {47, 92} <= seps
    ok &= good
    rep.check(good, rule, "dir-name-separators", where(ad, ad.span), "add_directory leaves names ending in '/' or '\\' alone",
              "add_directory tests the name's last character against %s only: a name ending in the other separator gets a second one appended and no longer reads back under its own name" % sorted(chr(c) for c in seps))
    # FileOptions::unix_permissions masks with 0o777
    up = facts.one(r"^write::FileOptions::unix_permissions$")
    masks = [int(o["v"]) for b, si2, s2 in up.stmts() if s2["k"] == "assign" and s2["rv"]["k"] == "binop" and s2["rv"]["op"] == "BitAnd"
             for o in (s2["rv"]["a"], s2["rv"]["b"]) if o["k"] == "const" and o.get("v") is not None]
    good = masks == [0o777]
    ok &= good
    rep.check(good, rule, "perm-mask", where(up, up.span), "unix_permissions keeps mode & 0o777", "unix_permissions masks with %s" % [oct(m) for m in masks])
    return ok


def run(ctx, rep):
    facts = ctx.facts
    rep.configs.append("default")
    rep.explanation = (
        "Round-trip structure: (1) the ordered fixed-width writes of every record writer and reads of every record parser are "
        "extracted from MIR success paths and compared field by field (width, endianness, order, provenance/destination) with the "
        "APPNOTE tables in /verif/spec, so writer and reader agree with the specification and hence with each other; (2) CRC and "
        "sizes are back-patched from the hasher, byte counter and stream position at offsets recomputed from the table; (3) entries "
        "are closed before the next one / the directory; (4) finish() and Drop share one finaliser; (5) method codes and "
        "encoder/decoder constructors are paired; (6) Unix mode shift/system pairing. Equality of decoded content through "
        "flate2/bzip2/zstd is not decided.")
    codec_rules(ctx, facts, rep)
    patch_rules(facts, rep)
    patchoff_rules(ctx, facts, rep)
    close_rules(facts, rep)
    fin_rules(facts, rep)
    method_rules(ctx, facts, rep)
    mode_rules(ctx, facts, rep)
    from rules.shared_options import opener_rules, entry_fields_rules
    opener_rules(facts, rep)           # C01-OPENERS: type bits on every path, caller's options untouched
    entry_fields_rules(facts, rep)     # C01-ENTRYFIELDS: the pushed record holds the options, unconditionally
    from rules.shared_count import count_rule
    from rules.C03 import search_rules
    count_rule(facts, rep, rule="C01-COUNT", only=r"ZipWriter<W>>::write$|MaybeEncrypted|Crc32Reader")
    search_rules(ctx, facts, rep)
    from rules.C03 import offset_rules
    offset_rules(facts, rep)           # reported as C01/C03-OFFSET: the reader locates the directory (ZIP64 locator probe, archive offset) of what the writer wrote, comment included
    from rules.shared_count import exact_rule
    exact_rule(facts, rep)             # reported as C01/C09-EXACT: content is handed to the sink with exact-length primitives (a bare write() drops the tail on a short write)
    # archives with more than 65535 entries / beyond 4 GiB are in C01's quantifier: the end records that make them readable
    from rules.shared_zip64 import eocd_rules
    eocd_rules(ctx, facts, rep, rule="C08-EOCD")
    rep.floor("C01-CODEC", 100, "5 records x writer+reader, one instance per field")
    rep.assume("compression libraries reproduce their input (flate2, bzip2, zstd)")
    rep.assume("the sink honours Seek")
