"""C18 -- timestamps convert to and from DOS format without loss or panic (DESIGN.md §3 C18).

Decides: pack and unpack are mutually inverse bit-field tables covering all 32 bits (C18-BITS); the checked constructor's
ranges are the documented ones and the calendar conversion guards the year on the very value it stores (C18-RANGE); every
construction of DateTime establishes year in [1980, 2107], which discharges the only arithmetic that could panic (C18-INV-YEAR,
C18-PANIC); fields are private (C18-PRIV); to_time propagates every constructor error (C18-CAL)."""
import re

from engine.expr import Ex, norm, show, walk, alts
from engine.intervals import Intervals, dominating_facts
from engine.mir import AnchorLost, callee_matches
from engine.paths import paths, decided, called, outcome
from engine.query import aggregates, calls_matching, where, ret_alts
from rules.shared_codec import tokens
from rules.shared_panic import panic_rule, is_time_root

# MS-DOS date/time layout: field -> (word, low bit, width, scale shift, offset)
LAYOUT = {
    "second": ("time", 0, 5, 1, 0),    # seconds / 2
    "minute": ("time", 5, 6, 0, 0),
    "hour": ("time", 11, 5, 0, 0),
    "day": ("date", 0, 5, 0, 0),
    "month": ("date", 5, 4, 0, 0),
    "year": ("date", 9, 7, 0, 1980),
}


def _strip(e):
    while e[0] == "cast":
        e = e[1]
    return e


def bits_rules(facts, rep):
    rule = "C18-BITS"
    ok = True
    fm = facts.one(r"^types::DateTime::from_msdos$")
    ex = Ex(fm)
    ag = list(aggregates(fm, r"types::DateTime$"))
    if len(ag) != 1:
        raise AnchorLost("DateTime construction in from_msdos")
    bi, si, s, flds = ag[0]
    masks = {"time": 0, "date": 0}
    for name, (word, low, width, scale, offset) in LAYOUT.items():
        e = _strip(norm(ex.operand(flds[name], (bi, si))))
        want_mask = ((1 << width) - 1) << low
        # decompose: [Add(.., offset)] [Shl(.., scale)] [Shr(.., low)] BitAnd(arg, mask)
        off = 0
        if e[0] == "bin" and e[1] == "Add" and e[3][0] == "const":
            off, e = e[3][2], _strip(e[2])
        shl = 0
        if e[0] == "bin" and e[1] == "Shl" and e[3][0] == "const":
            shl, e = e[3][2], _strip(e[2])
        shr = 0
        if e[0] == "bin" and e[1] == "Shr" and e[3][0] == "const":
            shr, e = e[3][2], _strip(e[2])
        good = e[0] == "bin" and e[1] == "BitAnd" and e[3][0] == "const" and e[2][0] == "arg" and e[2][2] == word + "part"
        mask = e[3][2] if good else None
        good = good and mask == want_mask and shr == low and shl == scale and off == offset
        if mask is not None and good:
            if masks[word] & mask:
                good = False
            masks[word] |= mask
        if not good:
            # however the extraction is spelled (mask then shift, shift then mask, no mask on the top field): it is a function of one
            # 16-bit word -- evaluate the reconstructed expression on all 65536 values against the layout's definition
            from engine.expr import eval_int
            full = norm(ex.operand(flds[name], (bi, si)))
            argn = word + "part"
            okv = True
            for w_ in range(1 << 16):
                got = eval_int(full, {argn: w_, "datepart": w_ if argn == "datepart" else 0, "timepart": w_ if argn == "timepart" else 0})
                want = ((((w_ >> low) & ((1 << width) - 1)) << scale) + offset)
                if name != "year":
                    want &= 0xFF
                if got is None or got != want:
                    okv = False
                    break
            # ... and it must not depend on the other word
            if okv:
                other = "datepart" if argn == "timepart" else "timepart"
                okv = all(eval_int(full, {argn: 0x5a5a, other: o_}) == eval_int(full, {argn: 0x5a5a, other: 0}) for o_ in (0, 1, 0xFFFF, 0x1234))
            good = okv
            if good:
                masks[word] |= want_mask
        ok &= rep.check(good, rule, "unpack:%s" % name, where(fm, s["span"]),
                        "%s = ((%spart & %#06x) >> %d)%s%s" % (name, word, want_mask, low, " << %d" % scale if scale else "", " + %d" % offset if offset else ""),
                        "from_msdos computes %s as %s; MS-DOS layout: bits %d..%d of the %s word%s" % (
                            name, show(norm(ex.operand(flds[name], (bi, si)))), low, low + width - 1, word, ", stored /2" if scale else ""))
    for w in ("time", "date"):
        ok &= rep.check(masks[w] == 0xFFFF, rule, "unpack:%s-word-covered" % w, where(fm, s["span"]), "the three masks of the %s word are disjoint and cover all 16 bits" % w,
                        "masks of the %s word cover %#06x" % (w, masks[w]))
    # pack
    for fn_name, word in (("timepart", "time"), ("datepart", "date")):
        f = facts.one(r"^types::DateTime::%s$" % fn_name)
        ra = ret_alts(f)
        good = len(ra) == 1
        parts = {}
        if good:
            def flatten(e):
                if e[0] == "bin" and e[1] == "BitOr":
                    return flatten(e[2]) + flatten(e[3])
                return [e]
            for t in flatten(ra[0]):
                t = _strip(t)
                shl = shr = off = 0
                if t[0] == "bin" and t[1] == "Shl" and t[3][0] == "const":
                    shl, t = t[3][2], _strip(t[2])
                if t[0] == "bin" and t[1] == "Shr" and t[3][0] == "const":
                    shr, t = t[3][2], _strip(t[2])
                if t[0] == "bin" and t[1] == "Sub" and t[3][0] == "const":
                    off, t = t[3][2], _strip(t[2])
                if t[0] == "field" and t[1] == ("arg", 1, "self"):
                    parts[t[2]] = (shl, shr, off)
                else:
                    parts["?" + show(t)[:40]] = (shl, shr, off)
        want = {n: (l[1], l[3], l[4]) for n, l in LAYOUT.items() if l[0] == word}
        good = good and parts == want
        ok &= rep.check(good, rule, "pack:%s" % fn_name, where(f, f.span), "%s() = OR of %s" % (fn_name, {n: "(<<%d, >>%d, -%d)" % v for n, v in want.items()}),
                        "%s() packs %s; the inverse of from_msdos is %s (field: shift left, scale shift right, offset)" % (fn_name, parts, want))
    return ok


def bound_atom(a):
    """parse a decision atom that bounds a value by constants: returns (var, lo, hi) -- the set described when the atom is TRUE"""
    m = re.match(r"^RangeInclusive::contains\(RangeInclusive::new\((\d+), (\d+)\), (.+)\)$", a)
    if m:
        return (m.group(3), int(m.group(1)), int(m.group(2)))
    m = re.match(r"^(Le|Lt|Ge|Gt)\((.+), (\d+)\)$", a)
    if m:
        op, var, c = m.group(1), m.group(2), int(m.group(3))
    else:
        m = re.match(r"^(Le|Lt|Ge|Gt)\((\d+), (.+)\)$", a)
        if not m:
            return None
        op, var, c = {"Le": "Ge", "Lt": "Gt", "Ge": "Le", "Gt": "Lt"}[m.group(1)], m.group(3), int(m.group(2))
    return {"Le": (var, None, c), "Lt": (var, None, c - 1), "Ge": (var, c, None), "Gt": (var, c + 1, None)}[op]


def path_bounds(p):
    """(accepted, rejected, other): per variable the intersection of the bounds that held on this path, the bound atoms that failed,
    and decisions that are not constant bounds"""
    acc, rej, other = {}, [], []
    for a, v in p["decisions"]:
        if a == "#iter":
            continue
        ba = bound_atom(a)
        if ba is None or v not in (0, 1):
            other.append((a, v))
            continue
        var, lo, hi = ba
        if v == 1:
            l0, h0 = acc.get(var, (None, None))
            acc[var] = (lo if l0 is None else l0 if lo is None else max(lo, l0), hi if h0 is None else h0 if hi is None else min(hi, h0))
        else:
            rej.append(ba)
    return acc, rej, other


def range_rules(facts, rep):
    rule = "C18-RANGE"
    ok = True
    f = facts.one(r"^types::DateTime::from_date_and_time$")
    ps = paths(f)
    rep.count("ctor_paths", len(ps))
    DOC = {"year": (1980, 2107), "month": (1, 12), "day": (1, 31), "hour": (None, 23), "minute": (None, 59), "second": (None, 60)}
    oks = [p for p in ps if outcome(p)[0] == "Ok"]
    good = bool(oks)
    seen = {}
    for p in oks:
        seen, rej, other = path_bounds(p)
        seen = {k_: (None if lo_ == 0 else lo_, hi_) for k_, (lo_, hi_) in seen.items()}     # `0..=23` on an unsigned field is `<= 23`
        o = outcome(p)
        flds = dict(o[1][3]) if o[1] and o[1][0] == "agg" else {}
        good = good and seen == DOC and not rej and not other and all(flds.get(k) is not None and flds[k][0] == "arg" and flds[k][2] == k for k in DOC)
        if not good:
            break
    ok &= rep.check(good, rule, "constructor-ranges", where(f, f.span), "Ok iff year 1980..=2107, month 1..=12, day 1..=31, hour <= 23, minute <= 59, second <= 60; fields stored unchanged",
                    "from_date_and_time accepts %s; documented ranges are %s" % (seen, DOC))
    # every rejection is caused by a field outside its DOCUMENTED bound; every field can reject; nothing else is consulted
    # (an error built by an inlined range helper and handed on with `?` is the same rejection: the effect test below admits only the
    # `?` plumbing next to the range tests, so an error coming out of any other call is still "something else rejects")
    errs = [p for p in ps if outcome(p)[0] in ("Err", "ErrProp")]
    rejecting = set()
    good = len(errs) >= 6 and len(errs) + len(oks) == len(ps)
    # (a path on which an unsigned field "fails" `>= 0` does not exist)
    infeasible = [p for p in errs if any(lo == 0 and hi is None for _, lo, hi in path_bounds(p)[1])]
    errs = [p for p in errs if p not in infeasible]
    good = len(errs) >= 6 and len(errs) + len(oks) + len(infeasible) == len(ps)
    for p in errs:
        acc, rej, other = path_bounds(p)
        real = [(v, lo, hi) for v, lo, hi in rej if v in DOC and lo in (None, DOC[v][0]) and hi in (None, DOC[v][1])]
        good = good and bool(real) and len(real) == len(rej) and not other and all(re.search(r"contains$|RangeInclusive::<Idx>::new$|ops::Try::branch$|FromResidual::from_residual$", e[1]) for e in p["effects"])
        rejecting |= {v for v, _, _ in real}
    good = good and rejecting == set(DOC)
    ok &= rep.check(good, rule, "one-rejection-per-field", where(f, f.span), "each field out of its documented range => Err(()), and nothing else rejects",
                    "the constructor's %d rejecting paths are not exactly 'some field is outside its documented range' (fields that can reject: %s)" % (len(errs), sorted(rejecting)))
    # TryFrom<OffsetDateTime>: the year guard is on the value that is stored
    tf = facts.find(r"^<types::DateTime as std::convert::TryFrom<time::OffsetDateTime>>::try_from$")
    if tf:
        t = tf[0]
        pst = paths(t)
        okp = [p for p in pst if outcome(p)[0] == "Ok"]
        good = bool(okp)
        for p in okp:
            acc, rej, other = path_bounds(p)
            o = outcome(p)
            flds = dict(o[1][3])
            ysrc = show(_strip(flds["year"]))
            # (the narrowing may be a checked conversion whose failure is one more way to be out of range)
            conv = re.match(r"^ok\(TryFrom::try_from\((.+)\)\)$", ysrc)
            other = [(a_, v_) for a_, v_ in other if not (conv and a_ == "discr(TryFrom::try_from(%s))" % conv.group(1) and v_ == 0)]
            good = good and acc == {ysrc: (1980, 2107)} and not rej and not other and (ysrc == "OffsetDateTime::year(dt)" or (conv and conv.group(1) == "OffsetDateTime::year(dt)"))
            for k, acc_ in (("month", "month"), ("day", "day"), ("hour", "hour"), ("minute", "minute"), ("second", "second")):
                # ... verbatim: the accessor's value (behind a widening/narrowing cast of an enum or integer at most), nothing computed from it
                good = good and show(_strip(flds[k])) in ("OffsetDateTime::%s(dt)" % acc_, "discr(OffsetDateTime::%s(dt))" % acc_)   # (Month is an enum: `as u8` reads its discriminant)
        for p in pst:
            if outcome(p)[0] != "Ok":
                acc, rej, other = path_bounds(p)
                convfail = [(a_, v_) for a_, v_ in other if a_ == "discr(TryFrom::try_from(OffsetDateTime::year(dt)))" and v_ == 1]
                other = [x_ for x_ in other if x_ not in convfail and not (x_[0] == "discr(TryFrom::try_from(OffsetDateTime::year(dt)))" and x_[1] == 0)]
                good = good and outcome(p)[0] in ("Err", "ErrProp") and (bool(rej) or bool(convfail)) and not other and \
                    all(re.search(r"OffsetDateTime::|ops::Try::branch$|FromResidual::from_residual$|TryFrom|contains$|RangeInclusive", e[1]) for e in p["effects"]) and \
                    all(v in ("OffsetDateTime::year(dt)", "ok(TryFrom::try_from(OffsetDateTime::year(dt)))") and lo in (None, 1980) and hi in (None, 2107) for v, lo, hi in rej)
        ok &= rep.check(good, rule, "try_from-year-guard", where(t, t.span), "Ok iff 1980 <= dt.year() <= 2107, tested on the very value stored; other fields from the same dt",
                        "TryFrom<OffsetDateTime> guards %s but stores year = %s -- the guard must be on the stored calendar year (offset-local), or impossible years get in" % (
                            [a for a, v in okp[0]["decisions"]] if okp else "?", show(dict(outcome(okp[0])[1][3])["year"]) if okp else "?"))
    return ok


def inv_year_rules(facts, rep):
    rule = "C18-INV-YEAR"
    ok = True
    n = 0
    for f in facts.fns:
        ex = Ex(f)
        for bi, si, s, flds in aggregates(f, r"^types::DateTime$"):
            n += 1
            y = norm(ex.operand(flds["year"], (bi, si)))
            fs = [x for x in dominating_facts(f, ex, bi) if x[0] != "truth"]
            r = Intervals({}, fs).range_of(y, "u16")
            good = 1980 <= r[0] and r[1] <= 2107
            if not good:
                # guarded through a RangeInclusive::contains(&year) test
                for x in dominating_facts(f, ex, bi):
                    if x[0] == "truth" and x[2] is True and x[1][0] == "call" and x[1][1].endswith("contains"):
                        rg, val = x[1][2]
                        if val == y and rg[0] == "call" and rg[1].endswith("RangeInclusive::<Idx>::new") and rg[2][0][2] >= 1980 and rg[2][1][2] <= 2107:
                            good = True
                # guarded on the un-cast source value
                src = _strip(y)
                r2 = Intervals({}, fs).range_of(src, "i32")
                if 1980 <= r2[0] and r2[1] <= 2107:
                    good = True
            if not good:
                # path-sensitive: on every path that reaches this construction the year was bounded by constant tests
                try:
                    through = [p for p in paths(f) if bi in p["blocks"]]
                except Exception:
                    through = []
                names = {show(y), show(_strip(y))}
                good = bool(through) and all(any(v in names and lo is not None and hi is not None and 1980 <= lo and hi <= 2107
                                                 for v, (lo, hi) in path_bounds(p)[0].items()) for p in through)
            ok &= rep.check(good, rule, "year-in-range@%s" % f.path.split("::")[-1], where(f, s["span"]), "constructed with year in [1980, 2107] (%s)" % show(y)[:50],
                            "DateTime constructed with year = %s, not provably within 1980..=2107: datepart()'s `year - 1980` can then overflow (panic) "
                            "and the value does not fit the 7-bit DOS year" % show(y))
    # the default timestamp is a real calendar date within the checked constructor's own ranges (it is what entries get when the
    # caller sets none -- and what unwrap_or_default() falls back to): constant fields, month 1..=12, day 1..=31, h/m/s in range
    dfl = [f for f in facts.fns if re.search(r"<types::DateTime as std::default::Default>::default$", f.path)]
    if not dfl:
        raise AnchorLost("Default for DateTime")
    exd = Ex(dfl[0])
    ag = list(aggregates(dfl[0], r"^types::DateTime$"))
    lim = {"year": (1980, 2107), "month": (1, 12), "day": (1, 31), "hour": (0, 23), "minute": (0, 59), "second": (0, 60)}
    good = len(ag) == 1
    vals = {}
    if good:
        for k_, (lo, hi) in lim.items():
            v = norm(exd.operand(ag[0][3][k_], (ag[0][0], ag[0][1])))
            vals[k_] = v[2] if v[0] == "const" else None
            good = good and vals[k_] is not None and lo <= vals[k_] <= hi
    ok &= rep.check(good, rule, "default-is-a-valid-date", where(dfl[0], dfl[0].span), "DateTime::default() is a constant, valid calendar timestamp",
                    "DateTime::default() = %s: outside the ranges the checked constructor accepts (written into every entry that sets no time)" % vals)
    rep.floor(rule, 5, "default, from_msdos, from_date_and_time, try_from + default validity")
    adt = facts.adts.get("types::DateTime")
    if adt:
        pub = [fl["name"] for fl in adt["variants"][0]["fields"] if "Public" in fl["vis"]]
        ok &= rep.check(not pub, "C18-PRIV", "fields-private", adt["span"], "DateTime fields cannot be set from outside the crate", "public DateTime fields %s break the year invariant" % pub)
    return ok


def cal_rules(facts, rep):
    rule = "C18-CAL"
    tt = facts.find(r"^types::DateTime::to_time$")
    if not tt:
        return True
    f = tt[0]
    bad = [t["callee"] for _, t in f.calls() if callee_matches(t, r"::(unwrap|expect|unwrap_or|unwrap_or_else|unwrap_or_default|ok)$|^core::panicking")]
    CTORS = r"(TryFrom::try_from\(|Date::from_calendar_date\(|Time::from_hms\()"
    have = {m for m in ("try_from", "from_calendar_date", "from_hms") if calls_matching(f, m + "$")}
    ps = paths(f)
    failed = [p for p in ps if any(v == 1 and re.search(r"^discr\(.*" + CTORS, a) for a, v in p["decisions"])]
    good = not bad and len(have) == 3 and len(failed) >= 3 and all(outcome(p)[0] in ("Err", "ErrProp") for p in failed) \
        and all(outcome(p)[0] in ("Ok", "Err", "ErrProp") for p in ps)
    ok = rep.check(good, rule, "to_time-propagates", where(f, f.span), "Month::try_from / Date::from_calendar_date / Time::from_hms errors are all returned to the caller",
                   "to_time() can panic or drops a constructor error: %s (failing-constructor paths: %s)" % (bad, [outcome(p)[0] for p in failed]))
    # the calendar constructors are the only range checks to_time has: each must be handed the stored field itself (a lossless
    # widening or the Month conversion apart).  A clamp, a rollover or any other arithmetic on the way in turns an out-of-range
    # stored value into a *different valid* one instead of the constructor's error, so to_time/try_from stop being mutual inverses.
    ex = Ex(f)
    WANT = {"from_calendar_date": ("year", "month", "day"), "from_hms": ("hour", "minute", "second")}
    for cname, fields in WANT.items():
        for bi, t in calls_matching(f, r"::%s$" % cname):
            for i, fld in enumerate(fields):
                e = norm(ex.operand(t["args"][i], (bi, None))) if i < len(t["args"]) else ("?",)
                leaves = [n for n in walk(e) if n[0] == "field" and n[1] == ("arg", 1, "self")]
                arith = [n for n in walk(e) if n[0] in ("bin", "un", "phi")]
                calls_in = [n for n in walk(e) if n[0] == "call" and not re.search(r"try_from$|::from$|::into$", str(n[1]))]
                verbatim = [l[2] for l in leaves] == [fld] and not arith and not calls_in
                ok &= rep.check(verbatim, rule, "to_time-passes-%s-verbatim" % fld, where(f, t["span"]),
                                "%s(..) receives self.%s unmodified (%s)" % (cname, fld, show(e)[:60]),
                                "to_time() hands %s(..) `%s` where the stored field self.%s is expected: the constructor's range check is the only "
                                "validation of the stored value, so a modified argument is answered with a different timestamp instead of Err "
                                "(to_time and try_from are no longer mutually inverse)" % (cname, show(e)[:120], fld))
    rep.floor(rule, 7, "to_time: error propagation + six constructor arguments")
    return ok


def run(ctx, rep):
    facts = ctx.facts
    rep.configs.append("default")
    rep.explanation = (
        "DOS date/time, structurally: from_msdos' per-field (mask, shift, scale, offset) extracted from MIR equals the MS-DOS layout, masks "
        "are disjoint and cover each 16-bit word; timepart/datepart are the exact inverse table -- hence bijective on all 2^32 values without "
        "enumerating them; the checked constructor's accepting path carries exactly the six documented range atoms; TryFrom guards the year "
        "on the very value it stores; every DateTime construction has year in [1980, 2107] by constant, interval or guard, which discharges "
        "`year - 1980` in datepart(); fields are private; to_time propagates errors. Calendar correctness of the `time` crate is not decided.")
    bits_rules(facts, rep)
    range_rules(facts, rep)
    void = set()
    if not inv_year_rules(facts, rep):
        void.add("C18-INV-YEAR")
    cal_rules(facts, rep)
    # "a timestamp read from any archive is reported unchanged": both parsers hand (date, time) to from_msdos in that order
    from rules.C01 import msdos_arg_order
    msdos_arg_order(facts, rep, "C18-ARGS")
    from rules.C14 import meta_rules
    from rules.C03 import fieldwriters_rules
    fieldwriters_rules(facts, rep)     # reported as C18/C03-FIELDWRITERS: nothing replaces the parsed DOS timestamp afterwards
    meta_rules(facts, rep)             # reported as C18/C14-META: a raw copy re-writes the source's DOS words whatever they are (no validity filter)
    panic_rule(ctx, rep, "C18-PANIC", facts, is_time_root, void_rules=void)
    # conversion code that E0 inlined into the header writers (a private `DateTime::to_msdos()` helper is no function of its own any
    # more): the panic-capable sites of the two header writers that lie in types.rs are conversion sites too
    panic_rule(ctx, rep, "C18-PANIC", facts, lambda f_: re.search(r"^write::write_(local_file|central_directory)_header$", f_.path) is not None, void_rules=void,
               only=lambda s_: str(s_.where).startswith("src/types.rs"))
    rep.floor("C18-PANIC", 10)
    rep.floor("C18-BITS", 10)
    if ctx.tier == "thorough":
        from rules.shared_panic import thorough_configs
        thorough_configs(ctx, rep, "C18-PANIC", is_time_root, void)
