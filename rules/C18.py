"""C18 (stub while building)"""
from rules.shared_panic import panic_rule, is_time_root


def run(ctx, rep):
    facts = ctx.facts
    panic_rule(ctx, rep, "C18-PANIC", facts, is_time_root)
