"""C03 -- well-formed archives from other producers are read faithfully (DESIGN.md §3 C03).

Decides: the reader's tables equal APPNOTE (C03-CODEC, incl. ZIP64 and AE-x extra fields); every public accessor returns the
field its name promises (C03-ACC); the central directory -- not the local header -- supplies sizes/CRC/method and bounds the entry
reader, while the data start uses the local header's own lengths (C03-CENTRAL); the archive offset is computed once, with
checked arithmetic, and applied to the directory start and every header offset (C03-OFFSET); the end-record search window covers
the maximum comment (C03-SEARCH); duplicate names: last wins, absent name / index -> not found (C03-NAMES); an unsupported method
fails per entry, never at open (C03-PERENTRY)."""
import re

from engine.codec import Codec, read_roles
from engine.expr import Ex, norm, show, walk, alts
from engine.intervals import dominating_facts, Intervals
from engine.mir import AnchorLost, callee_matches
from engine.query import aggregates, calls_matching, where, find_switch_on, ret_alts, enum_variants
from rules.C01 import codec_rules
from rules.shared_codec import tokens
from rules.shared_zip64 import pair_rules, thr_rules

ZA = r"^read::<impl read::zip_archive::ZipArchive<R>>::"

ACCESSORS = {
    # ZipFile accessor -> ZipFileData field it must return
    "size": "uncompressed_size", "compressed_size": "compressed_size", "crc32": "crc32", "compression": "compression_method",
    "last_modified": "last_modified_time", "name": "file_name", "name_raw": "file_name_raw", "comment": "file_comment",
    "extra_data": "extra_field", "header_start": "header_start", "central_header_start": "central_header_start",
    "data_start": "data_start",
}


def acc_rules(facts, rep):
    rule = "C03-ACC"
    ok = True
    for nm, fld in ACCESSORS.items():
        f = facts.one(r"^read::ZipFile::<'a>::%s$" % nm)
        ras = ret_alts(f)
        toks = set()
        for a in ras:
            toks |= tokens(a)
        others = {"." + x for x in ACCESSORS.values() if x != fld}
        good = ("." + fld) in toks and ".data" in toks and not (toks & others)
        ok &= rep.check(good, rule, "ZipFile::%s" % nm, where(f, f.span), "%s() returns data.%s" % (nm, fld),
                        "%s() returns %s, not the entry's %s" % (nm, [show(a) for a in ras], fld))
    f = facts.one(r"^read::ZipFile::<'a>::unix_mode$")
    good = any(x[0] == "call" and x[1].endswith("ZipFileData::unix_mode") for a in ret_alts(f) for x in walk(a))
    ok &= rep.check(good, rule, "ZipFile::unix_mode", where(f, f.span), "delegates to ZipFileData::unix_mode", "unix_mode() no longer delegates to the entry data")
    for nm, want in (("len", (".files", "len()")), ("offset", (".offset",)), ("comment", (".comment",))):
        f = facts.one(ZA + nm + "$")
        toks = set()
        for a in ret_alts(f):
            toks |= tokens(a)
        good = all(w in toks for w in want) and ".shared" in toks
        ok &= rep.check(good, rule, "ZipArchive::%s" % nm, where(f, f.span), "%s() returns shared%s" % (nm, "".join(want)),
                        "%s() returns %s" % (nm, [show(a) for a in ret_alts(f)]))
    # stream metadata accessors
    for nm, fld in (("name", "file_name"), ("name_raw", "file_name_raw"), ("comment", "file_comment"), ("data_start", "data_start")):
        f = facts.one(r"^read::stream::ZipStreamFileMetadata::%s$" % nm)
        toks = set()
        for a in ret_alts(f):
            toks |= tokens(a)
        ok &= rep.check(("." + fld) in toks, rule, "ZipStreamFileMetadata::%s" % nm, where(f, f.span), "%s() returns .%s" % (nm, fld),
                        "%s() returns %s" % (nm, [show(a) for a in ret_alts(f)]))
    # derived accessors
    f = facts.one(r"^read::ZipFile::<'a>::version_made_by$")
    ras = ret_alts(f)
    good = len(ras) == 1 and ras[0][0] == "agg" and len(ras[0][3]) == 2
    if good:
        hi, lo = ras[0][3][0][1], ras[0][3][1][1]
        good = hi[0] == "bin" and hi[1] == "Div" and lo[0] == "bin" and lo[1] == "Rem" and hi[3] == lo[3] and hi[3][0] == "const" and hi[3][2] == 10 and \
            ".version_made_by" in tokens(hi[2]) and hi[2] == lo[2]
    ok &= rep.check(good, rule, "ZipFile::version_made_by", where(f, f.span), "(v / 10, v % 10) of the recorded version byte (APPNOTE 4.4.2: major.minor in decimal)",
                    "version_made_by() returns %s" % [show(a)[:100] for a in ras])
    f = facts.one(ZA + "is_empty$")
    ras = ret_alts(f)
    good = len(ras) == 1 and ras[0][0] == "bin" and ras[0][1] == "Eq" and ras[0][3][0] == "const" and ras[0][3][2] == 0 and \
        any(x[0] == "call" and re.search(r"::len$", x[1]) for x in walk(ras[0][2]))
    ok &= rep.check(good, rule, "ZipArchive::is_empty", where(f, f.span), "is_empty() <=> len() == 0", "is_empty() returns %s" % [show(a)[:80] for a in ras])
    # the named method constants carry the codes of APPNOTE 4.4.5 (`file.compression() == CompressionMethod::LZMA` asks for method 14)
    CODES = {"STORE": 0, "SHRINK": 1, "REDUCE_1": 2, "REDUCE_2": 3, "REDUCE_3": 4, "REDUCE_4": 5, "IMPLODE": 6, "DEFLATE": 8, "DEFLATE64": 9, "PKWARE_IMPLODE": 10,
             "BZIP2": 12, "LZMA": 14, "IBM_ZOS_CMPSC": 16, "IBM_TERSE": 18, "ZSTD_DEPRECATED": 20, "ZSTD": 93, "MP3": 94, "XZ": 95, "JPEG": 96, "WAVPACK": 97, "PPMD": 98, "AES": 99}
    VAR = {"Stored": 0, "Deflated": 8, "Bzip2": 12, "Zstd": 93, "Aes": 99}
    consts = getattr(getattr(facts, "orig", facts), "consts", {}) or {}
    n_c, wrong = 0, []
    for path_, c_ in consts.items():
        if not path_.startswith("compression::CompressionMethod::") or "body" not in c_:
            continue
        nm_ = path_.split("::")[-1]
        if nm_ not in CODES:
            continue
        code = None
        for b_ in c_["body"]["blocks"]:
            for s_ in b_["stmts"]:
                if s_["k"] == "assign" and s_["place"]["l"] == 0 and s_["rv"]["k"] == "agg":
                    v_ = s_["rv"].get("variant")
                    if v_ == "Unsupported" and s_["rv"]["ops"] and s_["rv"]["ops"][0]["k"] == "const":
                        code = int(s_["rv"]["ops"][0]["v"])
                    elif v_ in VAR:
                        code = VAR[v_]
        n_c += 1
        if code != CODES[nm_]:
            wrong.append("%s=%s (APPNOTE: %d)" % (nm_, code, CODES[nm_]))
    ok &= rep.check(n_c >= 18 and not wrong, rule, "method-constants", where(f, f.span) if False else "", "%d named CompressionMethod constants carry their APPNOTE 4.4.5 codes" % n_c,
                    "named method constants disagree with APPNOTE 4.4.5: %s (or fewer than 18 were found: %d)" % (wrong[:3], n_c))
    rep.floor(rule, 23)
    return ok


def central_rules(ctx, facts, rep):
    rule = "C03-CENTRAL"
    spec = ctx.spec("appnote.json")
    ok = True
    fc = facts.one(r"^read::find_content$")
    ex = Ex(fc)
    tk = calls_matching(fc, r"io::Read::take$")
    if not tk:
        raise AnchorLost("Take construction in find_content")
    lim = norm(ex.operand(tk[0][1]["args"][1], (tk[0][0], None)))
    good = lim[0] == "field" and lim[2] == "compressed_size" and lim[1][0] == "arg"
    ok &= rep.check(good, rule, "take-limit", where(fc, tk[0][1]["span"]), "entry reader is limited to the central record's compressed size",
                    "the entry reader is limited to %s, not the compressed size recorded in the central directory" % show(lim))
    # the local header's own reads flow only into the data start
    roles = read_roles(fc)
    reads = [(bi, t) for bi, t in fc.calls() if callee_matches(t, r"ReadBytesExt::read_u16$")]
    good = len(reads) == 2
    for bi, t in reads:
        for r in roles.get(bi, []):
            if r[0] == "arg" and not re.search(r"Try::branch|from_residual|checked_add|ok_or|AtomicU64::store|Seek::seek|SeekFrom|convert::(From|Into)::", str(r[1])):
                good = False
            if r[0] == "arg" and re.search(r"Read::take", str(r[1])):
                good = False
    ok &= rep.check(good, rule, "local-lengths-only-for-data-start", where(fc, fc.span),
                    "the two lengths read from the local header are used only to compute the data start",
                    "values read from the local header flow beyond the data-start computation (the central directory must stay authoritative)")
    # data_start = header_start + 30 + name + extra ; 30/22 from the table
    st = calls_matching(fc, r"^types::AtomicU64::store$")
    if not st:
        raise AnchorLost("data_start store in find_content")
    v = norm(ex.operand(st[0][1]["args"][1], (st[0][0], None)))
    consts = sorted(x[2] for x in walk(v) if x[0] in ("const", "named") and isinstance(x[2], int))
    fixed = spec["records"]["LFH"]["fixed_size"]
    rs = [x[4] for x in walk(v) if x[0] == "call" and x[1].endswith("read_u16")]
    good = ".header_start" in tokens(v) and sum(consts) == fixed and len(set(rs)) == 2
    ok &= rep.check(good, rule, "data-start-formula", where(fc, st[0][1]["span"]),
                    "data_start = header_start + %d + local name length + local extra length" % fixed,
                    "data_start is computed as %s; the fixed local header is %d bytes and both local lengths must be added" % (show(v), fixed))
    # ... added in 64 bits: the two 16-bit lengths may sum to more than 65535 (a 65534-byte alignment pad plus any name)
    narrow = []
    for bi, si, s in fc.stmts():
        if s["k"] == "assign" and s["rv"]["k"] == "binop" and s["rv"]["op"] in ("Add", "AddWithOverflow", "AddUnchecked"):
            tys = [(fc.locals[o["place"]["l"]].get("ty") if o["k"] != "const" and not o["place"]["p"] else o.get("ty")) for o in (s["rv"]["a"], s["rv"]["b"])]
            if any(t_ in ("u16", "u8", "u32") for t_ in tys):
                narrow.append(tys)
    ok &= rep.check(not narrow, rule, "lengths-widened-before-add", where(fc, st[0][1]["span"]), "no 16/32-bit addition on the way to data_start",
                    "find_content adds local-header lengths in %s arithmetic: name + extra >= 65536 wraps (release) or panics (debug)" % narrow[:1])
    # the skip between signature and name length
    sk = [(bi, t) for bi, t in fc.calls() if callee_matches(t, r"io::Seek::seek$")]
    cur = [norm(ex.operand(t["args"][1], (bi, None))) for bi, t in sk]
    curs = [c for c in cur if c[0] == "agg" and c[1] == "adt:Current"]
    want = spec["patch_offsets"]["lfh_skip_after_signature_to_name_len"]
    good = len(curs) == 1 and curs[0][3][0][1][0] in ("const", "named") and curs[0][3][0][1][2] == want
    ok &= rep.check(good, rule, "skip-to-lengths", where(fc, fc.span), "skips %d bytes from the signature to the name length (APPNOTE 4.3.7)" % want,
                    "find_content skips %s bytes after the signature; the name length field is %d bytes after it" % ([show(c) for c in curs], want))
    # signature compared
    sg = find_switch_on(fc, lambda d: d[0] == "bin" and d[1] in ("Ne", "Eq") and any(x[0] == "const" and x[2] == 0x04034b50 for x in (d[2], d[3])))
    ok &= rep.check(bool(sg), rule, "local-signature-checked", where(fc, fc.span), "local header signature verified before use",
                    "find_content no longer verifies the local file header signature")
    # first seek goes to header_start
    starts = [c for c in cur if c[0] == "agg" and c[1] == "adt:Start"]
    good = bool(starts) and starts[0][3][0][1][0] == "field" and starts[0][3][0][1][2] == "header_start"
    ok &= rep.check(good, rule, "seek-header-start", where(fc, fc.span), "seeks to the entry's header_start first", "first seek target is %s" % ([show(c) for c in starts][:1]))
    # every entry opened for decoding reads through find_content's window, unconditionally: that call is also what records the entry's
    # data start (shared between clones) -- an "empty entries need no seek" shortcut leaves data_start() unrecorded for them
    op = facts.one(ZA + "by_index_with_optional_password$")
    exo = Ex(op)
    mk = calls_matching(op, r"^read::make_crypto_reader$")
    if not mk:
        raise AnchorLost("make_crypto_reader call in by_index_with_optional_password")
    srcs = []
    for bb_, t_ in mk:
        for a_ in t_["args"]:
            v_ = norm(exo.operand(a_, (bb_, None)))
            if any(x[0] == "call" and re.search(r"Read::take$|find_content$", x[1]) for x in walk(v_)) or (v_[0] == "phi"and any("take" in show(y) or "find_content" in show(y) for y in v_[1])):
                srcs.append(v_)
    good = bool(srcs) and all(v_[0] == "ok" and v_[1][0] == "call" and v_[1][1].endswith("read::find_content") for v_ in srcs)
    ok &= rep.check(good, rule, "opened-through-find_content", where(op, mk[0][1]["span"]), "the entry's bounded reader is find_content(..)? on every path",
                    "by_index opens an entry over %s: not (only) the window find_content locates and records" % [show(v_)[:90] for v_ in srcs])
    return ok


def flagbits_rules(facts, rep, rule="C03-FLAGBITS"):
    """general-purpose bit flag word (APPNOTE 4.4.4): bit 0 = encrypted, bit 3 = sizes/CRC follow in a data descriptor (for ZipCrypto:
    the check byte is the time's high byte), bit 11 = UTF-8 (C19-FLAG).  Both parsers take `encrypted` and `using_data_descriptor`
    from exactly those bits of the flags word they read: the field's expression is evaluated on all 65536 words (however the test is
    spelled: mask/compare, shift/mask, `!= 0`, `== 1`)."""
    from engine.expr import eval_int
    ok = True
    CMP = {"Eq": lambda a, b: a == b, "Ne": lambda a, b: a != b, "Gt": lambda a, b: a > b, "Ge": lambda a, b: a >= b, "Lt": lambda a, b: a < b, "Le": lambda a, b: a <= b}

    def subst(e, seen):
        if e[0] == "ok" and e[1][0] == "call" and e[1][1].endswith("read_u16"):
            seen.add(e[1][4] if len(e[1]) > 4 else e[1][1])
            return ("arg", 0, "w")
        if e[0] == "bin":
            return ("bin", e[1], subst(e[2], seen), subst(e[3], seen))
        if e[0] == "cast":
            return ("cast", subst(e[1], seen), e[2], e[3])
        if e[0] == "un":
            return ("un", e[1], subst(e[2], seen))
        return e

    def ev(e, w):
        if e[0] == "bin" and e[1] in CMP:
            a, b = ev(e[2], w), ev(e[3], w)
            return None if a is None or b is None else int(CMP[e[1]](a, b))
        if e[0] == "un" and e[1] == "Not":
            a = ev(e[2], w)
            return None if a is None else int(not a)
        if e[0] == "bin" and e[1] in ("BitAnd", "BitOr", "BitXor", "Shl", "Shr") :
            a, b = ev(e[2], w), ev(e[3], w)
            if a is None or b is None:
                return None
            return eval_int(("bin", e[1], ("const", "u32", a), ("const", "u32", b)), {})
        return eval_int(e, {"w": w})

    n = 0
    for pat in (r"^read::central_header_to_zip_file_inner$", r"^read::read_zipfile_from_stream$"):
        f = facts.one(pat)
        ex = Ex(f)
        ag = list(aggregates(f, r"types::ZipFileData$"))
        if not ag:
            raise AnchorLost("ZipFileData construction in %s" % f.path)
        bi, si, s, flds = ag[0]
        words = set()
        for fld, bit in (("encrypted", 0), ("using_data_descriptor", 3)):
            n += 1
            v = norm(ex.operand(flds[fld], (bi, si)))
            seen = set()
            e = subst(v, seen)
            words |= seen
            good = len(seen) == 1
            if good:
                for w in range(1 << 16):
                    r = ev(e, w)
                    if r is None or bool(r) != bool((w >> bit) & 1):
                        good = False
                        break
            ok &= rep.check(good, rule, "%s@%s" % (fld, f.path.split("::")[-1]), where(f, s["span"]), "%s = bit %d of the flags word, for all 65536 words" % (fld, bit),
                            "%s is computed as %s: not bit %d of the general-purpose flags (APPNOTE 4.4.4)" % (fld, show(v)[:90], bit))
        ok &= rep.check(len(words) == 1, rule, "one-flags-word@%s" % f.path.split("::")[-1], where(f, s["span"]), "both flags come from the same 16-bit read", "the flags are taken from %d different reads" % len(words))
    rep.floor(rule, 6)
    return ok


def offset_rules(facts, rep):
    rule = "C03-OFFSET"
    ok = True
    gd = facts.one(ZA + "get_directory_counts$")
    ex = Ex(gd)
    rets = []
    for bi, si, s in gd.stmts():
        if s["k"] == "assign" and s["rv"]["k"] == "agg" and s["rv"].get("ak") == "tuple" and len(s["rv"]["ops"]) == 3:
            rets.append((bi, si, s, [norm(ex.operand(o, (bi, si))) for o in s["rv"]["ops"]]))
    if len(rets) != 2:
        raise AnchorLost("the two (archive_offset, directory_start, count) results of get_directory_counts")
    for bi, si, s, (ao, ds, cnt) in rets:
        if any(x[0] == "call" and x[1].endswith("Zip64CentralDirectoryEnd::find_and_parse") for x in walk(ao)):
            # ZIP64 path
            good = ao[0] == "field" and ao[2] == "1" and any(x[0] == "call" and x[1].endswith("checked_add") for x in walk(ds)) and \
                ".central_directory_offset" in tokens(ds) and ".number_of_files" in tokens(cnt)
            ok &= rep.check(good, rule, "zip64-path", where(gd, s["span"]),
                            "archive_offset from the forward search; directory_start = zip64.offset.checked_add(archive_offset); count = zip64.number_of_files",
                            "ZIP64 path returns (%s, %s, %s)" % (show(ao)[:80], show(ds)[:80], show(cnt)[:60]))
        else:
            subs = [x for x in walk(ao) if x[0] == "call" and x[1].endswith("checked_sub")]
            toks = tokens(ao)
            good = len(subs) >= 1 and ".central_directory_size" in toks and "cde_start_pos" in show(ao) and \
                any(".central_directory_offset" in tokens(norm(ex.rvalue(st["rv"], (b2, s2)))) for b2, s2, st in gd.closure_stmts(facts)) if False else \
                (len(subs) >= 1 and ".central_directory_size" in toks and "cde_start_pos" in show(ao))
            # the second checked_sub lives in a closure: check it there
            clo = facts.closures_of(gd)
            clo_ok = any(any(callee_matches(t, r"checked_sub$") for _, t in c.calls()) for c in clo)
            good = good and (clo_ok or len(subs) >= 2)
            if not good and len(subs) == 1 and ao[0] == "bin" and ao[1] == "Sub" and ".central_directory_offset" in tokens(ao[3]) and \
                    ".central_directory_size" in tokens(ao[2]) and "cde_start_pos" in show(ao[2]):
                # the second subtraction written plainly under its own guard:  Some(s) if s >= offset => s - offset
                fs_ = dominating_facts(gd, ex, bi)
                good = any((x[0] == "Ge" and x[1] == ao[2] and x[2] == ao[3]) or (x[0] == "Le" and x[1] == ao[3] and x[2] == ao[2]) for x in fs_)
            # ... on every path: no alternative (a constant picked by some heuristic about what lies at the unshifted offset) stands in for it
            good = good and all(".central_directory_size" in tokens(a_) and "cde_start_pos" in show(a_) for a_ in alts(ao))
            good = good and ds[0] == "bin" and ds[1] == "Add" and ".central_directory_offset" in tokens(ds) and any(x == ao for x in walk(ds))
            good = good and ".number_of_files_on_this_disk" in tokens(cnt) or (good and ".number_of_files" in tokens(cnt))
            ok &= rep.check(bool(good), rule, "plain-path", where(gd, s["span"]),
                            "archive_offset = cde_pos - size - offset (checked); directory_start = offset + archive_offset",
                            "non-ZIP64 path returns (%s, %s, %s)" % (show(ao)[:100], show(ds)[:100], show(cnt)[:60]))
    # locator probe position: End(-(20 + 22 + comment length))
    sk = [(bi, t) for bi, t in gd.calls() if callee_matches(t, r"io::Seek::seek$")]
    probe = [norm(ex.operand(t["args"][1], (bi, None))) for bi, t in sk]
    probe = [p for p in probe if p[0] == "agg" and p[1] == "adt:End"]
    good = len(probe) == 1
    if good:
        v = probe[0][3][0][1]
        consts = sorted(x[2] for x in walk(v) if x[0] == "const" and isinstance(x[2], int))
        good = v[0] == "un" and v[1] == "Neg" and sum(consts) == 42 and ".zip_file_comment" in tokens(v)
        if good:
            # as a linear form: 42 + len(comment), each with coefficient +1 (20 - 22 + len has the same constants)
            from rules.shared_lenfield import lin as _lin, NotLinear as _NL
            try:
                lf = {k_: c_ for k_, c_ in _lin(v[2]).items() if c_ != 0}
                good = lf.get(1) == 42 and len(lf) == 2 and all(c_ == 1 for k_, c_ in lf.items() if k_ != 1) and any(k_ != 1 and k_[-1] == "zip_file_comment" for k_ in lf)
            except (_NL, IndexError, TypeError):
                good = False
    ok &= rep.check(good, rule, "locator-probe", where(gd, gd.span), "ZIP64 locator probed at End(-(20 + 22 + comment length))",
                    "locator probe position is %s; the locator (20 bytes) precedes the end record (22 bytes + comment)" % [show(p) for p in probe])
    # every header offset is shifted by the archive offset, checked
    ci = facts.one(r"^read::central_header_to_zip_file_inner$")
    exc = Ex(ci)
    found = False
    for bi, si, s in ci.stmts():
        if s["k"] == "assign":
            fp = [p for p in s["place"]["p"] if p["k"] == "field"]
            if fp and fp[-1].get("n") == "header_start" and s["rv"]["k"] != "agg":
                v = norm(exc.rvalue(s["rv"], (bi, si)))
                if any(x[0] == "call" and x[1].endswith("checked_add") for x in walk(v)):
                    ca = [x for x in walk(v) if x[0] == "call" and x[1].endswith("checked_add")][0]
                    found = ca[2][1][0] == "arg" and ca[2][1][2] == "archive_offset" and v[0] == "ok"
    ok &= rep.check(found, rule, "header-offset-shift", where(ci, ci.span), "header_start = header_start.checked_add(archive_offset)",
                    "the entry's header offset is not shifted by the archive offset with checked arithmetic")
    # ZipArchive::new passes the computed archive offset to the parser and stores it for offset()
    nw = facts.one(ZA + "new$")
    exn = Ex(nw)
    cs = calls_matching(nw, r"^read::central_header_to_zip_file$")
    good = bool(cs)
    if good:
        a = norm(exn.operand(cs[0][1]["args"][1], (cs[0][0], None)))
        good = a[0] == "field" and a[2] == "0" and any(x[0] == "call" and x[1].endswith("get_directory_counts") for x in walk(a))
    ok &= rep.check(good, rule, "new:offset-passed", where(nw, nw.span), "central records parsed with the computed archive offset",
                    "ZipArchive::new parses central records with offset %s" % (show(a) if cs else "?"))
    ag = list(aggregates(nw, r"read::zip_archive::Shared$"))
    good = bool(ag)
    if good:
        bi, si, s, flds = ag[0]
        o = norm(exn.operand(flds["offset"], (bi, si)))
        c = norm(exn.operand(flds["comment"], (bi, si)))
        good = o[0] == "field" and o[2] == "0" and any(x[0] == "call" and x[1].endswith("get_directory_counts") for x in walk(o)) and ".zip_file_comment" in tokens(c)
    ok &= rep.check(good, rule, "new:shared", where(nw, nw.span), "Shared{offset: archive_offset, comment: footer comment}", "Shared is built with offset/comment from elsewhere")
    sk = calls_matching(nw, r"io::Seek::seek$")
    good = bool(sk)
    if good:
        a = norm(exn.operand(sk[0][1]["args"][1], (sk[0][0], None)))
        good = a[0] == "agg" and a[1] == "adt:Start" and a[3][0][1][0] == "field" and a[3][0][1][2] == "1"
    ok &= rep.check(good, rule, "new:seek-directory", where(nw, nw.span), "seeks to directory_start before parsing", "ZipArchive::new does not seek to the computed directory start")
    return ok


def search_rules(ctx, facts, rep):
    """the backward end-record search must cover a maximal comment: lower bound = len - (22 + 65535)"""
    rule = "C03-SEARCH"
    ok = True
    f = facts.one(r"^spec::CentralDirectoryEnd::find_and_parse$")
    ex = Ex(f)
    sat = calls_matching(f, r"saturating_sub$")
    good = False
    detail = "no saturating_sub lower bound"
    if sat:
        v = norm(ex.operand(sat[0][1]["args"][1], (sat[0][0], None)))
        r = Intervals().range_of(v, "u64")
        good = r == (22 + 65535, 22 + 65535)
        detail = "search window = %s bytes" % (show(v))
    ok &= rep.check(good, rule, "window", where(f, f.span), "backward search covers 22 + 65535 bytes (fixed end record + maximal comment)",
                    "end-of-central-directory search window is %s; it must span 22 + 65535 bytes or archives with long comments / trailing data are rejected" % detail)
    # starts at len - 22
    good = False
    for bi, si, s in f.stmts():
        if s["k"] == "assign" and f.local_name(s["place"]["l"]) == "pos" and not s["place"]["p"]:
            v = norm(ex.rvalue(s["rv"], (bi, si)))
            if v[0] == "bin" and v[1] == "Sub" and v[3][0] in ("named", "const") and v[3][2] == 22 and any(x[0] == "call" and x[1].endswith("Seek::seek") for x in walk(v[2])):
                good = True
    # iterator form: `for pos in (lower..=file_length - 22).rev()` -- start, inclusive bound and step are those of the reversed
    # inclusive range by construction; its endpoints carry the obligations
    rng = calls_matching(f, r"RangeInclusive::<Idx>::new$")
    revd = calls_matching(f, r"Iterator::rev$")
    it_form = False
    if rng and revd and len(rng) == 1:
        lo = norm(ex.operand(rng[0][1]["args"][0], (rng[0][0], None)))
        hi = norm(ex.operand(rng[0][1]["args"][1], (rng[0][0], None)))
        rv_ = norm(ex.operand(revd[0][1]["args"][0], (revd[0][0], None)))
        nx = calls_matching(f, r"Iterator::next$")
        it_form = hi[0] == "bin" and hi[1] == "Sub" and hi[3][0] in ("named", "const") and hi[3][2] == 22 and \
            any(x[0] == "call" and x[1].endswith("Seek::seek") for x in walk(hi[2])) and \
            any(x[0] == "call" and x[1].endswith("saturating_sub") for x in walk(lo)) and \
            any(x[0] == "call" and x[1].endswith("RangeInclusive::<Idx>::new") for x in walk(rv_)) and \
            len(nx) == 1 and any(x[0] == "call" and x[1].endswith("Iterator::rev") for x in walk(norm(ex.operand(nx[0][1]["args"][0], (nx[0][0], None)))))
    good = good or it_form
    ok &= rep.check(good, rule, "start", where(f, f.span), "search starts at file_length - 22", "search does not start at file_length - 22")
    # loop condition pos >= bound, step -1
    sw = find_switch_on(f, lambda d: d[0] == "bin" and d[1] in ("Ge", "Le", "Lt", "Gt") and any(x[0] == "call" and x[1].endswith("saturating_sub") for x in walk(d)))
    good = bool(sw) and sw[0][2][1] == "Ge" and any(x[0] == "call" and x[1].endswith("saturating_sub") for x in walk(sw[0][2][3]))
    good = good or it_form
    ok &= rep.check(good, rule, "inclusive-bound", where(f, f.span), "loop runs while pos >= lower bound (inclusive)", "loop bound comparison changed: %s" % ([show(s[2]) for s in sw]))
    cs = calls_matching(f, r"checked_sub$")
    good = bool(cs) and norm(ex.operand(cs[0][1]["args"][1], (cs[0][0], None))) == ("const", "u64", 1)
    if not cs:
        # `if pos == 0 { break } pos -= 1`
        loops = f.loops()
        for bi, si, s in f.stmts():
            if s["k"] == "assign" and f.local_name(s["place"]["l"]) == "pos" and not s["place"]["p"] and loops and bi in loops[0][1]:
                v = norm(ex.rvalue(s["rv"], (bi, si)))
                if v[0] == "bin" and v[1] == "Sub" and v[3] == ("const", "u64", 1):
                    good = True
    good = good or it_form
    ok &= rep.check(good, rule, "step", where(f, f.span), "pos decreases by exactly 1", "search step is not 1")
    # nothing but the window, the signature and I/O results decides: a candidate position is accepted iff the four bytes there are the
    # end-record signature (position 0 included: an empty archive IS its end record)
    from engine.paths import paths as _paths, PathExplosion
    try:
        ps_ = _paths(f, max_loop=1, max_paths=20000)
    except PathExplosion:
        ps_ = []
    KNOWN = (r"saturating_sub|^Lt\(ok\(Seek::seek\(reader, End\{0: 0\}\)\), 22\)$|^discr\(|^ok\(ReadBytesExt::read_u32\(reader\)\)$")
    extra = set()
    for p_ in ps_:
        sig_seen = False
        for a_, v_ in p_["decisions"]:
            if a_ == "#iter":
                sig_seen = False
                continue
            if re.search(r"^ok\(ReadBytesExt::read_u32\(reader\)\)$", a_):
                sig_seen = True
            if re.search(KNOWN, a_):
                continue
            # `if pos == 0 { break } pos -= 1` is `checked_sub(1)` spelled out: a test of the position against zero AFTER this position's
            # four bytes were compared with the signature ends the search, it does not skip a candidate
            if re.match(r"^var:\w+$", a_) and sig_seen and (v_ == 0 or v_ == ("not-in", (0,))):
                continue
            extra.add(a_[:80])
    extra = sorted(extra)
    ok &= rep.check(bool(ps_) and not extra, rule, "atoms", where(f, f.span), "only the search window, the signature comparison and I/O results decide",
                    "the end-record search additionally branches on %s: some positions carrying a valid end record are skipped" % extra[:3])
    return ok


def search_step_rules(facts, rep, rule="C03-SEARCH"):
    """both record searches look at EVERY position of their window: the loop-carried position moves by exactly one per iteration (a step of
    two finds only records at even distances -- archives with an odd amount of prepended data lose their ZIP64 record)"""
    ok = True
    for pat in (r"^spec::CentralDirectoryEnd::find_and_parse$", r"^spec::Zip64CentralDirectoryEnd::find_and_parse$"):
        g = facts.one(pat)
        ex = Ex(g)
        loops = g.loops()
        body = set().union(*[b_ for _, b_ in loops]) if loops else set()
        steps = []
        for bi, si, s_ in g.stmts():
            if s_["k"] == "assign" and not s_["place"]["p"] and bi in body and g.locals[s_["place"]["l"]].get("name"):
                v = norm(ex.rvalue(s_["rv"], (bi, si)))
                inner = v[1] if v[0] == "ok" else v
                if inner[0] == "bin" and inner[1] in ("Add", "Sub") and inner[3][0] == "const":
                    steps.append(inner[3][2])
                elif inner[0] == "call" and re.search(r"::(checked_sub|checked_add|wrapping_sub|saturating_sub)$", inner[1]) and len(inner[2]) == 2 and inner[2][1][0] == "const":
                    steps.append(inner[2][1][2])
        its = [t_ for b_ in body for t_ in [g.term(b_)] if t_ and t_["k"] == "call" and (t_.get("callee") or "").endswith("Iterator::next")]
        good = (bool(steps) and all(c_ == 1 for c_ in steps)) or (not steps and bool(its) and not calls_matching(g, r"Iterator::step_by$"))
        ok &= rep.check(good, rule, "step=1@%s" % g.path.split("::")[1], where(g, g.span), "the search position moves by one per iteration",
                        "the search position moves by %s per iteration: positions in between are never examined" % sorted(set(steps)))
    return ok


def names_rules(facts, rep):
    rule = "C03-NAMES"
    ok = True
    nw = facts.one(ZA + "new$")
    ex = Ex(nw)
    ins = calls_matching(nw, r"HashMap::<K, V, S, A>::insert$")
    push = calls_matching(nw, r"Vec::<T, A>::push$")
    good = bool(ins and push)
    if good:
        k = norm(ex.operand(ins[0][1]["args"][1], (ins[0][0], None)))
        v = norm(ex.operand(ins[0][1]["args"][2], (ins[0][0], None)))
        pv = norm(ex.operand(push[0][1]["args"][1], (push[0][0], None)))
        good = nw.dominates(ins[0][0], push[0][0]) and ".file_name" in tokens(k) and v[0] == "call" and v[1].endswith("::len") and \
            any(x[0] == "call" and x[1].endswith("central_header_to_zip_file") for x in walk(pv))
        # the index is files.len() evaluated before the push of this entry
        lens = [x[4] for x in walk(v) if x[0] == "call" and x[1].endswith("::len")]
        good = good and lens and nw.dominates(lens[0], push[0][0])
    ok &= rep.check(bool(good), rule, "index-before-push", where(nw, nw.span), "names_map.insert(name, files.len()) before files.push(file): later duplicates win",
                    "name index is not recorded as the position the entry is about to occupy")
    # every record the directory parser returns is kept, whatever it contains (an empty name, a duplicate, a directory): the only
    # things ZipArchive::new decides on are the end-record fields, the counted loop and I/O results
    from engine.paths import paths as _paths, PathExplosion
    try:
        pn = _paths(nw, max_loop=1, max_paths=30000)
    except PathExplosion:
        pn = []
    KN = (r"record_too_small\(|disk_number|^(Gt|Le|Lt|Ge)\(ok\(read::get_directory_counts\(.*\)\)\.2, \(ok\(CentralDirectoryEnd::find_and_parse\(reader\)\)\.1 as usize\)\)$|^Gt\(ok\(read::get_directory_counts|^(Gt|Le|Lt|Ge)\(.*get_directory_counts.*cde|^Result::is_err\(Seek::seek|^discr\(Iterator::next\(|^discr\(Try::branch\(|"
          r"^discr\(Seek::seek|^discr\(ok\(|^discr\(Result::map_err")
    extra = sorted({a_[:80] for p_ in pn for a_, v_ in p_["decisions"] if a_ != "#iter" and not re.search(KN, a_)})
    kept = True
    for p_ in pn:
        names_ = [e_[1] for e_ in p_["effects"]]
        nparsed = sum(1 for (a_, v_) in p_["decisions"] if a_.startswith("discr(Try::branch(read::central_header_to_zip_file") and v_ == 0)
        npush = sum(1 for n_ in names_ if re.search(r"Vec::<T(, A)?>::push$", n_))
        nins = sum(1 for n_ in names_ if re.search(r"HashMap::<K, V, S(, A)?>::insert$", n_))
        if nparsed != npush or nparsed != nins:
            kept = False
    ok &= rep.check(bool(pn) and kept and not extra, rule, "every-record-kept", where(nw, nw.span), "each successfully parsed central record is pushed and indexed; nothing else decides",
                    "ZipArchive::new %s" % ("also branches on %s" % extra[:3] if extra else "has a path on which a parsed record is not pushed/indexed"))
    bn = facts.one(ZA + "by_name_with_optional_password$")
    ras = ret_alts(bn)
    good = any(((a[0] == "agg" and a[1] == "adt:Err") or a[0] == "errprop") and any(x[0] == "agg" and x[1] == "adt:FileNotFound" for x in walk(a)) and
               (a[0] != "errprop" or any(x[0] == "call" and re.search(r"HashMap.*::get$", x[1]) and ".names_map" in tokens(x) for x in walk(a))) for a in ras) and \
        any(x[0] == "call" and x[1].endswith("by_index_with_optional_password") for a in ras for x in walk(a))
    ok &= rep.check(good, rule, "by_name-not-found", where(bn, bn.span), "absent name -> FileNotFound; present -> by index", "by_name lookup no longer yields FileNotFound for an absent name")
    exb = Ex(bn)
    g = calls_matching(bn, r"HashMap::<K, V, S>::get$|HashMap::<K, V, S, A>::get$")
    ok &= rep.check(bool(g) and ".names_map" in tokens(norm(exb.operand(g[0][1]["args"][0], (g[0][0], None)))), rule, "by_name-map", where(bn, bn.span),
                    "looked up in names_map", "by_name does not consult names_map")
    for nm in ("by_index_with_optional_password", "by_index_raw"):
        f = facts.one(ZA + nm + "$")
        exf = Ex(f)
        okor = calls_matching(f, r"Option::<T>::ok_or$")
        good = False
        for bi, t in okor:
            a0 = norm(exf.operand(t["args"][0], (bi, None)))
            a1 = norm(exf.operand(t["args"][1], (bi, None)))
            if any(x[0] == "call" and x[1].endswith("::get") for x in walk(a0)) and ".files" in tokens(a0) and any(x[0] == "agg" and x[1] == "adt:FileNotFound" for x in walk(a1)):
                good = True
        ok &= rep.check(good, rule, "%s-not-found" % nm, where(f, f.span), "files.get(i).ok_or(FileNotFound)", "%s does not map an out-of-range index to FileNotFound" % nm)
    return ok


def perentry_rules(facts, rep):
    rule = "C03-PERENTRY"
    nw = facts.one(ZA + "new$")
    reach, parent = facts.reachable_from([nw.path])
    bad = [p for p in reach if re.search(r"make_crypto_reader$|make_reader$|find_content$", p)]
    return rep.check(not bad, rule, "open-does-not-touch-entries", where(nw, nw.span),
                     "ZipArchive::new reaches neither the decoder construction nor the per-entry open path (%d functions reachable)" % len(reach),
                     "ZipArchive::new reaches %s: an unsupported or damaged entry would fail the whole archive" % bad)


FIELD_WRITERS = {
    # field of ZipFileData -> the functions that may assign it after the record was constructed (everything else reports what the
    # header said): ZIP64 / AE-x extra fields replace sizes, offset and method; the writer's entry-closing function patches crc/sizes;
    # the archive offset is added to the header offset by the central parser
    "last_modified_time": set(), "file_name": set(), "file_name_raw": set(), "file_comment": set(), "external_attributes": set(), "extra_field": set(),
    "system": set(), "version_made_by": set(), "encrypted": set(), "using_data_descriptor": set(), "central_header_start": set(), "large_file": {"parse_extra_field"},
    "crc32": {"finish_file"}, "compressed_size": {"parse_extra_field", "finish_file"}, "uncompressed_size": {"parse_extra_field", "finish_file"},
    "compression_method": {"parse_extra_field"}, "aes_mode": {"parse_extra_field"}, "header_start": {"central_header_to_zip_file_inner", "parse_extra_field"},
}


def fieldwriters_rules(facts, rep, rule="C03-FIELDWRITERS"):
    """who may assign an entry's metadata after it was parsed: a second source for a value (a timestamp taken from an Info-ZIP extra
    field when the DOS words look wrong, a name 'repaired' after decoding) makes the entry report -- and every re-writer store --
    something else than the record holds"""
    from engine.query import field_assignments
    ok = True
    n = 0
    for fld, allowed in sorted(FIELD_WRITERS.items()):
        who = sorted({g.path.split("::")[-1] for g, bi, si, s in field_assignments(facts, fld, r"ZipFileData$")})
        extra = [w for w in who if w not in allowed]
        n += 1
        ok &= rep.check(not extra, rule, "writers:%s" % fld, "", "assigned after construction only in %s" % (sorted(allowed) or "no function"),
                        "ZipFileData.%s is also assigned in %s: the value an entry reports is no longer the one its record holds" % (fld, extra))
    rep.floor(rule, 15)
    return ok


def dosmode_rules(facts, rep, rule="C03-DOSMODE"):
    """unix_mode() for entries made by MS-DOS: a table over the two attribute bits the crate interprets.  Reference = what the pinned
    tree computes for all four combinations (directory bit 0x10 chooses S_IFDIR|0775 over S_IFREG|0664, read-only bit 0x01 then strips
    the write bits of whichever was chosen); decided on paths, so `let mut m = ..; if ro { m &= 0o555 }` and an if-expression agree"""
    from engine.paths import paths as _paths, outcome as _outcome
    f = facts.one(r"^types::ZipFileData::unix_mode$")
    sysv = {v: k for k, v in enum_variants(facts, "types::System").items()}
    dos = sysv.get("Dos")
    want = {(0, 0): 0o100664, (0, 1): 0o100664 & 0o555, (1, 0): 0o040775, (1, 1): 0o040775 & 0o555}
    got = {}
    for p in _paths(f):
        d = dict()
        sysd = None
        for a_, v_ in p["decisions"]:
            if a_ == "discr(self.system)":
                sysd = v_
            m = re.match(r"^BitAnd\(self\.external_attributes, (\d+)\)$", a_)
            if m:
                d[int(m.group(1))] = 0 if v_ == 0 else 1
        if sysd != dos:
            continue
        o = _outcome(p)
        val = o[1][2] if o[0] == "Some" and o[1] is not None and o[1][0] == "const" else None
        got.setdefault((d.get(16), d.get(1)), set()).add(val)
    # "no attributes recorded" (the whole word is zero) reports no mode at all, whatever the made-by system: every path that yields a
    # mode has seen a non-zero word, and the all-zero word yields None (extraction then leaves the creation mode alone instead of chmod 000)
    zero_none, some_nonzero, seen0 = True, True, False
    for p in _paths(f):
        z = None
        for a_, v_ in p["decisions"]:
            if a_ == "self.external_attributes":
                z = (v_ == 0)
        o = _outcome(p)
        if z is True:
            seen0 = True
            zero_none = zero_none and o[0] == "None"
        if o[0] == "Some":
            some_nonzero = some_nonzero and z is False
    rep.check(seen0 and zero_none and some_nonzero, rule, "zero-attributes=>None", where(f, f.span), "external_attributes == 0 => unix_mode() is None; Some(..) only for a non-zero word",
              "unix_mode() no longer answers None for an entry without recorded attributes (all-zero word): such entries get mode 0 / a DOS default on extraction")
    bad = {k: (sorted(x if x is not None else -1 for x in got.get(k, {None})), want[k]) for k in want if got.get(k) != {want[k]}}
    extra = [k for k in got if k not in want]
    return (seen0 and zero_none and some_nonzero) & rep.check(not bad and not extra, rule, "dos-attribute-table", where(f, f.span), "(directory, read-only) -> mode: %s" % {k: oct(v) for k, v in want.items()},
                     "unix_mode() of MS-DOS entries differs from the attribute table at %s (rows decided on other atoms: %s)" % (
                         {k: ([oct(x) for x in v[0]], oct(v[1])) for k, v in bad.items()}, extra))


def any_field_table(g, want, ops):
    """is the boolean function `g(self)` the disjunction `self.f1 OP c1 || self.f2 OP c2 || ..` over exactly the fields of `want` (field ->
    constant; OP one of `ops`, with `Ge c+1` read as `Gt c`)?  Decided on the value flow (E9): every return path is a chain of failed tests
    ending in the first test that holds (-> true) or, after all of them failed, false."""
    from engine import sym as _sym
    S = _sym.Sym(g, max_paths=5000)
    S._returns = []
    try:
        S.run(lambda bb, t: False)
        rets = S._returns
    except _sym.SymTooComplex:
        return False
    finally:
        S._returns = None
    if not rets:
        return False
    NEG = {"Eq": "Ne", "Ne": "Eq", "Gt": "Le", "Le": "Gt", "Ge": "Lt", "Lt": "Ge"}

    def test_of(d_):
        """(field, op, const) of a comparison `self.field OP const`, normalised so that OP is in `ops` when possible"""
        if not (d_[0] == "bin" and d_[2][0] == "field" and d_[3][0] == "const" and isinstance(d_[3][2], int)):
            return None
        op, c = d_[1], d_[3][2]
        if op == "Ge" and "Gt" in ops:
            op, c = "Gt", c - 1
        return d_[2][2], op, c
    good = True
    for r_ in rets:
        tests = []
        for d_, v_ in r_["conds"]:
            t_ = test_of(d_)
            if t_ is None:
                return False
            truth = (v_ is None) or v_ != 0
            if t_[1] in ops:
                tests.append((t_[0], t_[2], truth))
            elif NEG.get(t_[1]) in ops:
                tests.append((t_[0], t_[2], not truth))
            else:
                return False
        val = r_["ret"]
        if val[0] == "const":
            if val[2]:
                good = good and bool(tests) and tests[-1][2] is True and all(h_ is False for _, _, h_ in tests[:-1])
            else:
                good = good and {t_[0] for t_ in tests} == set(want) and all(h_ is False for _, _, h_ in tests)
        else:
            t_ = test_of(val)
            if t_ is None or t_[1] not in ops:
                return False
            tests.append((t_[0], t_[2], None))
            good = good and all(h_ is False for _, _, h_ in tests[:-1]) and {x_[0] for x_ in tests} == set(want)
        good = good and all(want.get(fld_) == c_ for fld_, c_, _ in tests)
    return good


def sentinel_rules(facts, rep):
    """a classic end-record field that ZIP64 producers may mask with the all-ones sentinel (APPNOTE 4.4.19-4.4.24: disk numbers
    0xFFFF) is compared with anything only after record_too_small() said that no field is masked -- otherwise a single-disk ZIP64
    archive that masks its disk numbers is refused as multi-disk"""
    from engine.paths import paths as _paths
    rule = "C03-SENTINEL"
    ok = True
    n = 0
    for pat in (r"^read::<impl read::zip_archive::ZipArchive<R>>::get_directory_counts$", r"^read::<impl read::zip_archive::ZipArchive<R>>::new$"):
        f = facts.one(pat)
        unguarded, seen = [], 0
        for p in _paths(f, max_paths=20000):
            small = None
            for a_, v_ in p["decisions"]:
                if a_ == "#iter":
                    continue
                if re.search(r"record_too_small\(", a_) and "disk_number" not in a_:
                    small = v_
                elif re.search(r"\.disk_number\b|\.disk_with_central_directory\b", a_) and "Zip64CentralDirectoryEnd" not in a_.split(",")[0]:
                    seen += 1
                    if small != 0:
                        unguarded.append(a_[:70])
        if seen:
            n += 1
        ok &= rep.check(seen >= 1 and not unguarded, rule, "disk-number-compared-only-unmasked@%s" % f.path.split("::")[-1], where(f, f.span),
                        "the classic record's disk numbers are compared only on paths where record_too_small() is false",
                        "classic disk-number field compared without the masked-record exemption (%s): ZIP64 archives that mask the classic disk "
                        "numbers with 0xFFFF are rejected as multi-disk" % (sorted(set(unguarded))[:2] or "comparison not found"))
    # what the comparison does: numbers that differ => refused as multi-disk; numbers that agree => the archive is read
    f = facts.one(r"^read::<impl read::zip_archive::ZipArchive<R>>::get_directory_counts$")
    from engine.paths import outcome as _outcome
    n_diff = n_same_ok = bad = 0
    for p in _paths(f, max_paths=20000):
        verdicts = []
        for a_, v_ in p["decisions"]:
            m_ = re.match(r"^(Ne|Eq)\(", a_) if a_ != "#iter" else None
            if m_ and re.search(r"\.disk_number\b|\.disk_with_central_directory\b", a_) and v_ in (0, 1):
                verdicts.append((m_.group(1) == "Ne") == (v_ == 1))
        if not verdicts:
            continue
        oo_ = _outcome(p)
        o_ = oo_[0]
        if o_ == "value" and len(oo_) > 1 and isinstance(oo_[1], tuple) and any(x_[0] == "call" and x_[1].endswith("unsupported_zip_error") for x_ in walk(oo_[1])):
            o_ = "Err"          # `return unsupported_zip_error(..)`: a helper whose every return is an error
        if any(verdicts):
            n_diff += 1
            bad += o_ not in ("Err", "ErrProp")
        elif o_ == "Ok":
            n_same_ok += 1
    ok &= rep.check(n_diff >= 1 and n_same_ok >= 1 and bad == 0, rule, "disk-numbers:differ=>refused,agree=>read", where(f, f.span),
                    "disk numbers that differ end in the multi-disk refusal; when they agree the directory is located",
                    "the disk-number comparison is not `differ => refuse, agree => go on` (%d differing paths, %d of them not refused, %d agreeing paths that succeed)" % (n_diff, bad, n_same_ok))
    # record_too_small(): true exactly when one of the six classic fields holds its all-ones sentinel
    rs = facts.find(r"^spec::CentralDirectoryEnd::record_too_small$")
    if rs:
        g = rs[0]
        WANT = {"disk_number": 0xFFFF, "disk_with_central_directory": 0xFFFF, "number_of_files_on_this_disk": 0xFFFF, "number_of_files": 0xFFFF,
                "central_directory_size": 0xFFFFFFFF, "central_directory_offset": 0xFFFFFFFF}
        good = any_field_table(g, WANT, ("Eq",))
        ok &= rep.check(good, rule, "record_too_small=any-field-is-its-sentinel", where(g, g.span),
                        "true iff disk_number / disk_with_central_directory / both counts == 0xFFFF or size / offset == 0xFFFFFFFF",
                        "record_too_small() is not `some classic field holds its all-ones sentinel` -- it decides whether the classic disk numbers are trusted")
    rep.floor(rule, 2)
    return ok


def aes_extra_rules(ctx, facts, rep):
    rule = "C03-AESX"
    spec = ctx.spec("appnote.json")["aes_extra"]
    ok = True
    pf = facts.one(r"^read::parse_extra_field$")
    ex = Ex(pf)
    c = Codec(facts)
    # kind switch contains the AES header id; length test == 7; vendor id test
    sw = find_switch_on(pf, lambda d: d[0] == "ok" and any(x[0] == "call" and x[1].endswith("read_u16") for x in walk(d)))
    ids = set()
    for bi, t, d in sw:
        ids |= {v for v, _ in t["targets"]}
    ok &= rep.check(spec["header_id"] in ids and 1 in ids, rule, "header-ids", where(pf, pf.span), "extra-field dispatch on ids 0x0001 and 0x9901",
                    "extra-field dispatch covers ids %s" % sorted(ids))
    lens = find_switch_on(pf, lambda d: d[0] == "bin" and d[1] in ("Ne", "Eq") and d[3][0] == "const" and d[3][2] == spec["data_size"])
    ok &= rep.check(bool(lens), rule, "length-7", where(pf, pf.span), "AE-x data size must be 7", "AE-x extra field length is no longer checked against 7")
    vend = find_switch_on(pf, lambda d: d[0] == "bin" and d[1] in ("Ne", "Eq") and d[3][0] == "const" and d[3][2] == spec["vendor_id"])
    ok &= rep.check(bool(vend), rule, "vendor-id", where(pf, pf.span), "vendor id 0x4541 ('AE') required", "AE-x vendor id is no longer checked")
    # layout: after kind/len: u16 version, u16 vendor, u8 strength, u16 method -- take the longest sequence of reads inside the AES arm
    seqs = c.sequences(pf)
    best = []
    for s in seqs:
        ws = [e["width"] for e in s if e["kind"] == "r"]
        if len(ws) > len(best) and 1 in ws:
            best = ws
    want = [2, 2] + [w for _, w in spec["layout"]]
    good = best[:len(want)] == want
    ok &= rep.check(good, rule, "layout", where(pf, pf.span), "id u16, size u16, version u16, vendor u16, strength u8, method u16",
                    "AE-x extra is read with widths %s, specification says %s" % (best, want))
    # version and strength tables
    from engine.query import switch_arms, aggs_in
    for bi, t, d in sw:
        vals = sorted(v for v, _ in t["targets"])
        if vals == [1, 2]:
            arms = switch_arms(pf, bi)
            for v in (1, 2):
                vs = {s2["rv"]["variant"] for _, _, s2 in aggs_in(pf, arms[v], r"types::AesVendorVersion$")}
                ok &= rep.check(vs == {spec["versions"][str(v)]}, rule, "version:%d" % v, where(pf, t["span"]), "version %d -> %s" % (v, spec["versions"][str(v)]),
                                "AE-x version %d is mapped to %s" % (v, sorted(vs)))
            errs = aggs_in(pf, arms["otherwise"], r"result::ZipError$")
            ok &= rep.check(bool(errs), rule, "version:other", where(pf, t["span"]), "any other version is an error", "unknown AE-x versions are accepted")
    sw8 = find_switch_on(pf, lambda d: d[0] == "ok" and any(x[0] == "call" and x[1].endswith("read_u8") for x in walk(d)))
    for bi, t, d in sw8:
        arms = switch_arms(pf, bi)
        for v in (1, 2, 3):
            vs = {s2["rv"]["variant"] for _, _, s2 in aggs_in(pf, arms.get(v, set()), r"types::AesMode$")}
            ok &= rep.check(vs == {spec["strengths"][str(v)]}, rule, "strength:%d" % v, where(pf, t["span"]), "strength %d -> %s" % (v, spec["strengths"][str(v)]),
                            "AE-x strength %d is mapped to %s" % (v, sorted(vs)))
    # the real method replaces the marker
    asg = [(f, bi, si, s) for (f, bi, si, s) in __import__("engine.query", fromlist=["field_assignments"]).field_assignments(facts, "compression_method", r"ZipFileData$") if f.path == pf.path]
    good = bool(asg) and any(x[0] == "call" and x[1].endswith("from_u16") for x in walk(norm(ex.rvalue(asg[0][3]["rv"], (asg[0][1], asg[0][2])))))
    ok &= rep.check(good, rule, "real-method", where(pf, pf.span), "compression_method := from_u16(method stored in the AE-x field)", "the AE-x inner method no longer replaces the marker method")
    # ... and both are applied INSIDE the 0x9901 arm, as soon as the field has been read: the walk may end early on a later, damaged
    # or short field (an error the caller tolerates), and what was already parsed must stick
    aes_arm = set()
    for bi_, t_, d_ in sw:
        if spec["header_id"] in {v for v, _ in t_["targets"]}:
            aes_arm |= switch_arms(pf, bi_).get(spec["header_id"], set())
    fa = __import__("engine.query", fromlist=["field_assignments"]).field_assignments
    late = []
    for fld in ("aes_mode", "compression_method"):
        for (f_, b_, si_, s_) in fa(facts, fld, r"ZipFileData$"):
            if f_.path == pf.path and b_ not in aes_arm:
                late.append("%s (%s)" % (fld, where(pf, s_["span"])))
    ok &= rep.check(bool(aes_arm) and not late, rule, "applied-in-arm", where(pf, pf.span), "aes_mode and the real method are stored inside the AE-x arm",
                    "AE-x parameters are stored outside the 0x9901 arm: %s -- they are lost when the extra-field walk ends early" % late[:2])
    rep.floor(rule, 11)
    return ok


def run(ctx, rep):
    facts = ctx.facts
    rep.configs.append("default")
    rep.explanation = (
        "Reader structure from MIR: parser tables of every record against APPNOTE (so any conforming producer's fields land in the right "
        "accessor), accessor -> field map, central directory authoritative for sizes/CRC/method with the data start computed from the "
        "local header's own lengths, archive-offset computation and its application, end-record search window, duplicate-name and "
        "not-found semantics, per-entry failure for unsupported methods, ZIP64 and AE-x extra-field layouts. Faithful content for all "
        "foreign compressed streams and tolerance of every legal layout are not decided.")
    codec_rules(ctx, facts, rep, rule="C03-CODEC", writers=False)
    thr_rules(ctx, facts, rep, rule="C03-Z64")
    pair_rules(ctx, facts, rep, rule="C03-Z64", side="read")
    aes_extra_rules(ctx, facts, rep)
    acc_rules(facts, rep)
    central_rules(ctx, facts, rep)
    offset_rules(facts, rep)
    search_rules(ctx, facts, rep)
    search_step_rules(facts, rep)
    names_rules(facts, rep)
    perentry_rules(facts, rep)
    sentinel_rules(facts, rep)
    fieldwriters_rules(facts, rep)
    dosmode_rules(facts, rep)
    from rules.shared_extrawalk import extrawalk_rules
    extrawalk_rules(facts, rep)        # C03-EXTRAWALK: every record of the extra field is found, whatever precedes it
    from rules.C19 import table_rules as cp437_table_rules
    cp437_table_rules(facts, rep)      # reported as C03/C19-TABLE
    from rules.C10 import extra_tolerance_rules
    extra_tolerance_rules(facts, rep, rule="C10-EXTRA")
    rep.floor("C03-CODEC", 55)
    rep.floor("C03-Z64", 8)
    rep.floor("C03-CENTRAL", 6)
    rep.floor("C03-OFFSET", 7)
    rep.floor("C03-SEARCH", 4)
    rep.floor("C03-NAMES", 5)
    rep.assume("HashMap::insert overwrites an existing key (std contract)")
    flagbits_rules(facts, rep)
    from rules.shared_refusals import read_refusals
    read_refusals(ctx, facts, rep)     # C03-REFUSALS: the reader turns away nothing it used to accept (and keeps every refusal it had)
    rep.floor("C03-REFUSALS", 25)
