"""ZIP64 consistency rules shared by C02, C03 and C08 (DESIGN.md C08-THR / C08-PAIR / C08-GUARD / C08-Z64REC)."""
import re

from engine.codec import Codec, read_roles
from engine.expr import Ex, norm, show, walk, alts
from engine.intervals import dominating_facts, Intervals
from engine.mir import AnchorLost, callee_matches
from engine.query import where, calls_matching, aggregates, find_switch_on
from rules.shared_codec import tokens

ZW = r"^write::<impl write::zip_writer::ZipWriter<W>>::"
ORDER = ["uncompressed_size", "compressed_size", "header_start"]


def const_val(facts, suffix):
    cs = [k for k in facts.consts if k.endswith(suffix)]
    if not cs:
        raise AnchorLost("constant %s" % suffix)
    return int(facts.consts[cs[0]]["v"]), facts.consts[cs[0]]["span"]


def thr_rules(ctx, facts, rep, rule="C08-THR"):
    spec = ctx.spec("appnote.json")["zip64_extra"]
    ok = True
    b, sp = const_val(facts, "::ZIP64_BYTES_THR")
    e, sp2 = const_val(facts, "::ZIP64_ENTRY_THR")
    ok &= rep.check(b == spec["sentinel32"], rule, "ZIP64_BYTES_THR", sp, "== 0xFFFFFFFF", "ZIP64_BYTES_THR is %#x, the format's 32-bit sentinel is 0xFFFFFFFF" % b)
    ok &= rep.check(e == spec["sentinel16"], rule, "ZIP64_ENTRY_THR", sp2, "== 0xFFFF", "ZIP64_ENTRY_THR is %#x, the format's 16-bit sentinel is 0xFFFF" % e)
    # literal sentinels in the readers
    for pat, want16, want32 in ((r"^spec::CentralDirectoryEnd::record_too_small$", 4, 2), (r"^types::ZipFileData::zip64_extension$", 0, 3)):
        f = facts.one(pat)
        ex = Ex(f)
        lits = []
        for bi, si, s in f.stmts():
            if s["k"] == "assign" and s["rv"]["k"] == "binop" and s["rv"]["op"] in ("Eq", "Gt", "Ge", "Ne"):
                for o in (s["rv"]["a"], s["rv"]["b"]):
                    if o["k"] == "const" and o.get("v") is not None:
                        lits.append(int(o["v"]))
        n16 = lits.count(spec["sentinel16"])
        n32 = lits.count(spec["sentinel32"])
        good = n16 == want16 and n32 == want32 and len(lits) == want16 + want32
        ok &= rep.check(good, rule, "sentinels:%s" % f.path.split("::")[-1], where(f, f.span),
                        "%d comparisons with 0xFFFF and %d with 0xFFFFFFFF" % (n16, n32),
                        "%s compares against %s; expected %d x 0xFFFF and %d x 0xFFFFFFFF" % (f.path, [hex(x) for x in lits], want16, want32))
    return ok


def _implies_ge_thr(fact, field, thr):
    """does the comparison fact say `file.<field> >= thr`?"""
    op, x, y = fact
    def is_f(e):
        return field in [t[1:] for t in tokens(e) if t.startswith(".")] and not any(o in [t[1:] for t in tokens(e)] for o in ORDER if o != field)
    def cval(e):
        if e[0] in ("const", "named") and isinstance(e[2], int):
            return e[2]
        return None
    if is_f(x) and cval(y) is not None:
        c = cval(y)
        return (op == "Ge" and c == thr) or (op == "Gt" and c == thr - 1) or (op == "Eq" and c == thr and False)
    if is_f(y) and cval(x) is not None:
        c = cval(x)
        return (op == "Le" and c == thr) or (op == "Lt" and c == thr - 1)
    return False


def pair_rules(ctx, facts, rep, rule="C08-PAIR", side="both"):
    spec = ctx.spec("appnote.json")["zip64_extra"]
    thr = spec["sentinel32"]
    ok = True
    c = Codec(facts)
    if side in ("both", "write"):
        # ---- central writer: clamp + emit condition
        wc = facts.one(r"^write::write_central_zip64_extra_field$")
        ex = Ex(wc)
        emitted = {}
        for bi, t in wc.calls():
            if not callee_matches(t, r"WriteBytesExt::write_u64$"):
                continue
            v = norm(ex.operand(t["args"][1], (bi, None)))
            flds = [x for x in ORDER if "." + x in tokens(v)]
            if len(flds) != 1:
                ok = False
                rep.violation(rule, "central-emit:?", where(wc, t["span"]), "a 64-bit value that is not one of the three ZIP64 fields is written: %s" % show(v))
                continue
            fld = flds[0]
            fs = [x for x in dominating_facts(wc, ex, bi) if x[0] != "truth"]
            good = any(_implies_ge_thr(x, fld, thr) for x in fs)
            emitted[fld] = bi
            ok &= rep.check(good, rule, "central-emit:%s" % fld, where(wc, t["span"]),
                            "64-bit %s emitted iff value >= 0xFFFFFFFF -- exactly when min(v, THR) stores the sentinel the reader keys on" % fld,
                            "64-bit %s is emitted under %s; the 32-bit slot holds min(v, 0xFFFFFFFF) and readers take a 64-bit value iff the "
                            "slot equals 0xFFFFFFFF, so the emit condition must be v >= 0xFFFFFFFF" % (fld, [(x[0], show(x[1])[:40], show(x[2])[:30]) for x in fs]))
        for fld in ORDER:
            if fld not in emitted:
                ok = False
                rep.violation(rule, "central-emit:%s" % fld, where(wc, wc.span), "central ZIP64 extra never carries %s" % fld)
        # order of the emitted values on every path
        for s in c.sequences(wc):
            w8 = [e for e in s if e["kind"] == "w" and e["width"] == 8]
            names = [[x for x in ORDER if "." + x in tokens(e["expr"])][0] for e in w8 if any("." + x in tokens(e["expr"]) for x in ORDER)]
            good = names == [x for x in ORDER if x in names]
            hdr = [e for e in s if e["kind"] == "w" and e["width"] == 2]
            if w8:
                good = good and len(hdr) == 2 and hdr[0]["expr"][2] == spec["header_id"]
                rng = Intervals().range_of(hdr[1]["expr"], "u16") if len(hdr) == 2 else (0, 0)
                good = good and rng[1] <= 24
            if not good:
                ok = False
                rep.violation(rule, "central-order", where(wc, wc.span), "a path writes the ZIP64 block as %s (APPNOTE 4.5.3: id 1, size, then %s)" % (
                    [(e["width"], show(e["expr"])[:30]) for e in s if e["kind"] == "w"], ORDER))
        rep.ok(rule, "central-order", where(wc, wc.span), "header id 0x0001, size in [8,24], values in the order %s on every path" % ORDER)
        # clamps in the central header
        wh = facts.one(r"^write::write_central_directory_header$")
        seqs = c.sequences(wh)
        for fld in ORDER:
            exprs = set()
            for s in seqs:
                for e in s:
                    if e["kind"] == "w" and e["width"] == 4 and "." + fld in tokens(e["expr"]) and e["fn"] == wh.path:
                        exprs.add(e["expr"][:4] if e["expr"][0] == "cast" else e["expr"])
            good = len(exprs) >= 1
            for e in exprs:
                inner = e[1] if e[0] == "cast" else e
                good = good and inner[0] == "call" and re.search(r"::min$", inner[1]) is not None and \
                    any(a[0] == "const" and a[2] == thr for a in inner[2])
            ok &= rep.check(good, rule, "central-clamp:%s" % fld, where(wh, wh.span), "32-bit slot = min(%s, 0xFFFFFFFF)" % fld,
                            "32-bit %s slot is written as %s, not as the sentinel clamp min(v, 0xFFFFFFFF)" % (fld, [show(e) for e in exprs]))
    if side in ("both", "read"):
        # ---- reader: each 64-bit value consumed iff its own 32-bit slot holds the sentinel, in the fixed order
        pf = facts.one(r"^read::parse_extra_field$")
        ex = Ex(pf)
        roles = read_roles(pf)
        reads = [(bi, t) for bi, t in pf.calls() if callee_matches(t, r"ReadBytesExt::read_u64$")]
        got = []
        for bi, t in reads:
            dest = [r[2] for r in roles.get(bi, []) if r[0] == "field" and r[2] in ORDER]
            fs = [x for x in dominating_facts(pf, ex, bi) if x[0] != "truth"]
            key_fields = set()
            for (op, x, y) in fs:
                cv = y[2] if y[0] in ("const", "named") else None
                if op == "Eq" and cv == thr:
                    key_fields |= {o for o in ORDER if "." + o in tokens(x)}
            kind_ok = any(op == "Eq" and y[0] == "const" and y[2] == spec["header_id"] for (op, x, y) in fs)
            good = len(dest) == 1 and key_fields == {dest[0]} and kind_ok
            got.append(dest[0] if dest else "?")
            ok &= rep.check(good, rule, "read-consume:%s" % (dest[0] if dest else "?"), where(pf, t["span"]),
                            "64-bit %s read iff its own 32-bit slot == 0xFFFFFFFF (inside header id 0x0001)" % (dest[0] if dest else "?"),
                            "64-bit value destined for %s is consumed under the condition %s (must be: that field's own slot equals the sentinel)" % (
                                dest or "?", sorted(key_fields) or [(x[0], show(x[1])[:40]) for x in fs]))
        order_ok = got == ORDER and all(pf.dominates(reads[i][0], reads[i + 1][0]) or True for i in range(len(reads) - 1))
        # block order: each later read is reachable from the earlier one
        for i in range(len(reads) - 1):
            if reads[i + 1][0] not in pf.reach_from(reads[i][0]):
                order_ok = False
        ok &= rep.check(order_ok, rule, "read-order", where(pf, pf.span), "reader consumes in the order %s" % ORDER,
                        "reader consumes ZIP64 values in the order %s; APPNOTE 4.5.3 fixes %s" % (got, ORDER))
    return ok


def _clamped(v):
    """does the expression pass through a clamp or a narrower integer type (min(), a narrowing cast, From<u8|u16|u32>)? Such a value
    cannot stand for a 64-bit quantity: it saturates or wraps at the 16/32-bit limit"""
    for x in walk(v):
        if x[0] == "call" and re.search(r"::min$|::clamp$|saturating_", x[1]):
            return True
        if x[0] == "cast" and len(x) > 3 and str(x[3]) not in ("u64", "usize", "u128", "i128"):
            return True
        if x[0] == "call" and re.search(r"convert::(From<u16>|From<u8>|From<u32>)|<u64 as std::convert::From<u(8|16|32)>>|<usize as std::convert::From<u(8|16)>>", (x[3] or "") + x[1]):
            return True
    return False


def eocd_rules(ctx, facts, rep, rule="C08-EOCD"):
    """finalize: ZIP64 end records are written whenever a clamped EOCD field cannot hold its value"""
    ok = True
    fz = facts.one(ZW + "finalize$")
    ex = Ex(fz)
    z = calls_matching(fz, r"^spec::Zip64CentralDirectoryEnd::write$")
    zl = calls_matching(fz, r"^spec::Zip64CentralDirectoryEndLocator::write$")
    e = calls_matching(fz, r"^spec::CentralDirectoryEnd::write$")
    if not (z and zl and e):
        raise AnchorLost("end-record writes in finalize")
    zb, eb = z[0][0], e[0][0]
    good = fz.dominates(zb, zl[0][0]) and eb in fz.reach_from(zl[0][0])
    ok &= rep.check(good, rule, "order", where(fz, z[0][1]["span"]), "ZIP64 end record, then locator, then the end record",
                    "end records are not written in the order ZIP64 EOCD, locator, EOCD")
    # skip path: blocks from which E is reachable without passing Z
    # find the switch blocks that decide between Z and skipping
    deciding = []
    for d in sorted(fz.dominators()[zb]):
        t = fz.term(d)
        if t and t["k"] == "switch":
            for s_ in fz.succ(d):
                if zb not in fz.reach_from_inclusive(s_, avoid={d}) or True:
                    pass
            deciding.append(d)
    # the first block after the decision on the skip path: a successor J of a switch such that Z is not reachable from J but E is
    cands = []
    for bi, b in enumerate(fz.blocks):
        t = b["term"]
        if b["cleanup"] or not t or t["k"] != "switch":
            continue
        if zb not in fz.reach_from(bi):
            continue
        for s_ in fz.succ(bi):
            r = fz.reach_from_inclusive(s_)
            if zb not in r and eb in r:
                cands.append(s_)
    if not cands:
        raise AnchorLost("no path skipping the ZIP64 end records")
    bthr, _ = const_val(facts, "::ZIP64_BYTES_THR")
    ethr, _ = const_val(facts, "::ZIP64_ENTRY_THR")
    covered = {"count": True, "size": True, "start": True}
    # EVERY way of skipping the ZIP64 records must have established all three bounds (`a || b` skips on !a && !b; with `a && b` there are
    # two ways to skip and each of them knows only half)
    for j in cands:
        covered_all, covered = covered, {"count": False, "size": False, "start": False}
        fs = [x for x in dominating_facts(fz, ex, j) if x[0] != "truth"]
        for (op, x, y) in fs:
            cv = y[2] if y[0] in ("const", "named") else None
            toks = tokens(x)
            shown = show(x)
            if op in ("Le",) and cv == ethr and ".files" in toks and not _clamped(x):
                covered["count"] = True
            if op in ("Le",) and cv == bthr and not _clamped(x):
                # x may be max(central_size, central_start) or each separately
                parts = [x]
                if x[0] == "call" and re.search(r"::max$", x[1]):
                    parts = list(x[2])
                for p in parts:
                    if p[0] == "bin" and p[1] == "Sub":
                        covered["size"] = True
                    elif any(q[0] == "call" and q[1].endswith("stream_position") for q in walk(p)) and not (p[0] == "bin"):
                        covered["start"] = True
        covered = {k_: covered_all[k_] and covered[k_] for k_ in covered}
    if not all(covered.values()):
        # the same condition held in a boolean local (`let needs_zip64 = a || b || c; if needs_zip64 {..}`): decide it on the paths that
        # reach the end record without writing the ZIP64 records -- each of them must have found count, size and start within range
        from engine.paths import paths as _paths, PathExplosion
        try:
            pz = _paths(fz, max_paths=50000)
        except PathExplosion:
            pz = []
        skip = [p_ for p_ in pz if any(e_[1] == "spec::CentralDirectoryEnd::write" for e_ in p_["effects"]) and
                not any(e_[1] == "spec::Zip64CentralDirectoryEnd::write" for e_ in p_["effects"])]
        cov = {"count": bool(skip), "size": bool(skip), "start": bool(skip)}
        for p_ in skip:
            got = set()
            for a_, v_ in p_["decisions"]:
                if a_ == "#iter":
                    continue
                m_ = re.match(r"^(Gt|Le)\((.*), (\d+)\)$", a_)
                if not m_ or (m_.group(1) == "Gt" and v_ != 0) or (m_.group(1) == "Le" and v_ != 1):
                    continue
                inner, c_ = m_.group(2), int(m_.group(3))
                if re.search(r"\bmin\(|\bclamp\(|saturating_| as u(8|16|32)\b|From<u(8|16|32)>", inner):
                    continue        # a clamped or narrowed value compared with the limit decides nothing
                if c_ == ethr and re.search(r"len\(self\.files\)", inner):
                    got.add("count")
                if c_ == bthr:
                    parts = [inner]
                    if inner.startswith("Ord::max("):
                        got |= {"size", "start"} if ("Sub(" in inner and inner.count("stream_position") >= 3) else set()
                    elif inner.startswith("Sub(") and "stream_position" in inner:
                        got.add("size")
                    elif inner.startswith("ok(Seek::stream_position"):
                        got.add("start")
            for k_ in cov:
                cov[k_] = cov[k_] and k_ in got
        for k_ in covered:
            covered[k_] = covered[k_] or cov[k_]
    for k, v in covered.items():
        ok &= rep.check(v, rule, "skip-implies-fits:%s" % k, where(fz, z[0][1]["span"]),
                        "ZIP64 end records are skipped only when the %s fits its EOCD field" % k,
                        "the ZIP64 end record can be skipped although the central directory %s may exceed its 16/32-bit EOCD field "
                        "(condition does not cover it)" % k)
    # clamps of the EOCD aggregate
    ag = list(aggregates(fz, r"^spec::CentralDirectoryEnd$"))
    if not ag:
        raise AnchorLost("EOCD construction in finalize")
    bi, si, s, flds = ag[0]
    for fld, thr in (("number_of_files", ethr), ("number_of_files_on_this_disk", ethr), ("central_directory_size", bthr), ("central_directory_offset", bthr)):
        v = norm(ex.operand(flds[fld], (bi, si)))
        inner = v[1] if v[0] == "cast" else v
        good = inner[0] == "call" and re.search(r"::min$", inner[1]) is not None and any(a[0] == "const" and a[2] == thr for a in inner[2])
        ok &= rep.check(good, rule, "eocd-clamp:%s" % fld, where(fz, s["span"]), "%s = min(value, %#x)" % (fld, thr),
                        "EOCD field %s is written as %s instead of the sentinel clamp" % (fld, show(v)))
    # ZIP64 record contents
    ag = list(aggregates(fz, r"^spec::Zip64CentralDirectoryEnd$"))
    if ag:
        bi, si, s, flds = ag[0]
        for fld, want in (("number_of_files", ".files"), ("number_of_files_on_this_disk", ".files")):
            v = norm(ex.operand(flds[fld], (bi, si)))
            # the 64-bit field carries the *unclamped* count: files.len() widened, nothing else (no min(), no pass through u16)
            narrowing = [x for x in walk(v) if x[0] == "cast" and len(x) > 3 and str(x[3]) not in ("u64", "usize", "u128")]
            others = [x[1] for x in walk(v) if x[0] == "call" and not re.search(r"::len$|convert::(From|Into)", x[1])]
            via16 = [x for x in walk(v) if x[0] == "call" and re.search(r"convert::(From<u16>|From<u8>|From<u32>)|<u64 as std::convert::From<u(8|16|32)>>", (x[3] or "") + x[1])]
            good = want in tokens(v) and "len()" in tokens(v) and not narrowing and not others and not via16
            ok &= rep.check(good, rule, "z64:%s" % fld, where(fz, s["span"]), "%s = files.len()" % fld, "ZIP64 %s = %s (must be the full entry count, not a clamped or narrowed value)" % (fld, show(v)))
        for fld in ("disk_number", "disk_with_central_directory"):
            v = norm(ex.operand(flds[fld], (bi, si)))
            ok &= rep.check(v[0] == "const" and v[2] == 0, rule, "z64:%s" % fld, where(fz, s["span"]), "%s = 0" % fld, "ZIP64 %s = %s" % (fld, show(v)))
        sz = norm(ex.operand(flds["central_directory_size"], (bi, si)))
        st = norm(ex.operand(flds["central_directory_offset"], (bi, si)))
        ok &= rep.check(sz[0] == "bin" and sz[1] == "Sub" and not _clamped(sz), rule, "z64:size", where(fz, s["span"]), "size = position after - position before", "ZIP64 size = %s" % show(sz))
        ok &= rep.check(st[0] == "ok" and "stream_position()" in tokens(st) and not _clamped(st), rule, "z64:offset", where(fz, s["span"]), "offset = position before the directory", "ZIP64 offset = %s" % show(st))
    ag = list(aggregates(fz, r"^spec::Zip64CentralDirectoryEndLocator$"))
    if ag:
        bi, si, s, flds = ag[0]
        v = norm(ex.operand(flds["end_of_central_directory_offset"], (bi, si)))
        good = v[0] == "bin" and v[1] == "Add" and "stream_position()" in tokens(v) and not _clamped(v)
        if not good and not _clamped(v):
            # ... or the position taken right after the last central header (the minuend of the directory size): the same number
            agz = list(aggregates(fz, r"^spec::Zip64CentralDirectoryEnd$"))
            if agz:
                szz = norm(ex.operand(agz[0][3]["central_directory_size"], (agz[0][0], agz[0][1])))
                good = szz[0] == "bin" and szz[1] == "Sub" and v == szz[2] and v != szz[3]
        ok &= rep.check(good, rule, "locator:offset", where(fz, s["span"]), "locator points at central_start + central_size", "locator offset = %s" % show(v))
        v = norm(ex.operand(flds["number_of_disks"], (bi, si)))
        ok &= rep.check(v[0] == "const" and v[2] == 1, rule, "locator:disks", where(fz, s["span"]), "total disks = 1", "locator total disks = %s" % show(v))
        v = norm(ex.operand(flds["disk_with_central_directory"], (bi, si)))
        ok &= rep.check(v[0] == "const" and v[2] == 0, rule, "locator:disk", where(fz, s["span"]), "disk = 0", "locator disk = %s" % show(v))
    return ok


def guard_rules(ctx, facts, rep, rule="C08-GUARD"):
    ok = True
    bthr, _ = const_val(facts, "::ZIP64_BYTES_THR")
    w = facts.one(r"^write::<impl std::io::Write for write::zip_writer::ZipWriter<W>>::write$")
    ex = Ex(w)
    upd = calls_matching(w, r"^write::ZipWriterStats::update$")
    inner = [(bi, t) for bi, t in w.calls() if t.get("callee") == "std::io::Write::write" and
             not any(x[0] == "field" and x[2] == "extra_field" for x in walk(norm(ex.operand(t["args"][0], (bi, None)))))]
    closes = [(bi, t) for bi, t in w.calls() if callee_matches(t, r"mem::replace$") and
              any(a[0] == "agg" and a[1] == "adt:Closed" for a in alts(norm(ex.operand(t["args"][1], (bi, None)))))]
    if not upd or not closes or not inner:
        ok = False
        rep.violation(rule, "write:4GiB-guard", where(w, w.span), "Write::write for ZipWriter no longer %s" % (
            "accounts written bytes" if not upd else "closes the writer when a non-large entry exceeds 4 GiB"))
        return ok
    cb, ct = closes[0]
    fs = dominating_facts(w, ex, cb)
    gt = any(x[0] == "Gt" and ".bytes_written" in tokens(x[1]) and x[2][0] in ("named", "const") and x[2][2] == bthr for x in fs)
    nl = any(x[0] == "truth" and x[2] is False and ".large_file" in tokens(x[1]) for x in fs)
    after = w.dominates(upd[0][0], cb) and w.dominates(inner[0][0], upd[0][0])
    # the close path returns Err
    rets = [norm(ex.local(0, (b, None))) for b in w.exits()]
    errs = any(a[0] == "agg" and a[1] == "adt:Err" for r in rets for a in alts(r))
    good = gt and nl and after and errs
    ok &= rep.check(good, rule, "write:4GiB-guard", where(w, ct["span"]),
                    "after accounting the accepted bytes: bytes_written > 0xFFFFFFFF && !large_file => writer closed, Err returned",
                    "4 GiB guard in Write::write is %s" % ", ".join(x for x, c in (("missing the `bytes_written > 0xFFFFFFFF` test", not gt),
                                                                                    ("not conditioned on !large_file", not nl),
                                                                                    ("evaluated before the bytes of this call are accounted (the crossing write succeeds)", not after),
                                                                                    ("not returning Err", not errs)) if c))
    # back-patch: compressed size checked before the 32-bit casts
    up = facts.one(r"^write::update_local_file_header$")
    exu = Ex(up)
    casts = []
    for bi, si, s in up.stmts():
        if s["k"] == "assign" and s["rv"]["k"] == "cast" and s["rv"]["ck"] == "IntToInt" and s["rv"]["to"] == "u32":
            e = norm(exu.rvalue(s["rv"], (bi, si)))
            if ".compressed_size" in tokens(e):
                fs = dominating_facts(up, exu, bi)
                g = any(x[0] == "Le" and ".compressed_size" in tokens(x[1]) and x[2][0] in ("named", "const") and x[2][2] == bthr for x in fs)
                casts.append(g)
    # ... or no cast at all: the 32-bit value is the payload of a checked conversion (`u32::try_from(compressed_size)` with the
    # failure turned into the error) -- the conversion is the 4 GiB check
    for bi, t in up.calls():
        if callee_matches(t, r"WriteBytesExt::write_u32$") and len(t["args"]) > 1:
            e = norm(exu.operand(t["args"][1], (bi, None)))
            if ".compressed_size" in tokens(e) and not any(x[0] == "cast" for x in walk(e)):
                conv = [x for x in walk(e) if x[0] == "call" and re.search(r"TryFrom(<u64>>)?::try_from$|TryInto(<u32>>)?::try_into$", x[1])]
                casts.append(bool(conv) and all(".compressed_size" in tokens(x) for x in conv))
    good = bool(casts) and all(casts)
    ok &= rep.check(good, rule, "patch:compressed-size-guard", where(up, up.span), "`compressed_size as u32` only after compressed_size <= 0xFFFFFFFF",
                    "the back-patch narrows compressed_size to 32 bits without the 4 GiB check")
    # raw copy: large_file from max(sizes) > THR
    rc = facts.one(ZW + "raw_copy_file_rename$")
    exr = Ex(rc)
    lf = calls_matching(rc, r"^write::FileOptions::large_file$")
    if not lf:
        # no builder call: the options may be a struct literal -- decide the same truth table on the value that reaches start_entry
        from engine import sym as _sym
        try:
            res = _sym.Sym(rc).run(lambda bb_, t_: (t_.get("callee") or "").endswith("::start_entry"))
        except _sym.SymTooComplex:
            res = []
        rows, bad = 0, []
        for r_ in res:
            o_ = r_["args"][2] if len(r_["args"]) > 2 else None
            if o_ is None:
                continue
            v_ = _sym.field_of(o_, "large_file")
            dec = {}
            for d_, val_ in r_["state"].conds:
                if d_[0] == "bin" and d_[1] == "Gt" and d_[3][0] == "const" and d_[3][2] == bthr:
                    src_ = _sym.show(d_[2])
                    which = "c" if "compressed_size" in src_ else ("u" if re.search(r"\bsize\(|uncompressed_size", src_) else None)
                    if which:
                        dec[which] = 0 if val_ == 0 else 1
            rows += 1
            if v_[0] == "const" and isinstance(v_[2], int):
                want = (dec.get("c") == 1 or dec.get("u") == 1) if v_[2] else (dec.get("c") == 0 and dec.get("u") == 0)
                if not want:
                    bad.append((v_[2], dec))
            elif v_[0] == "bin" and v_[1] == "Gt" and v_[3][0] == "const" and v_[3][2] == bthr:
                src_ = _sym.show(v_[2])
                rest = "c" if "compressed_size" in src_ else ("u" if re.search(r"\bsize\(|uncompressed_size", src_) else None)
                if rest is None or dec.get({"c": "u", "u": "c"}[rest]) != 0:
                    bad.append((src_[:40], dec))
            elif v_[0] == "bin" and v_[1] == "Gt" and v_[2][0] == "call" and v_[2][1].endswith("::max") and v_[3][0] == "const" and v_[3][2] == bthr:
                pass
            else:
                bad.append((_sym.show(v_)[:60], dec))
        good = rows >= 1 and not bad
        ok &= rep.check(good, rule, "raw-copy:large_file", where(rc, rc.span), "large_file = (compressed > 0xFFFFFFFF || uncompressed > 0xFFFFFFFF) on every path to start_entry",
                        "raw copy no longer decides large_file from the source sizes (%s)" % bad[:2])
    else:
        v = norm(exr.operand(lf[0][1]["args"][1], (lf[0][0], None)))
        toks = tokens(v)
        good = v[0] == "bin" and v[1] == "Gt" and v[3][0] in ("named", "const") and v[3][2] == bthr and "compressed_size()" in toks and "size()" in toks and "max()" in toks
        if not good:
            # the same predicate spelled with a short-circuit (`c > T || u > T`): decide it as a truth table over the paths that
            # reach the setter -- the flag handed over must equal (compressed > T) OR (uncompressed > T) on every one of them
            from engine.paths import paths as _paths
            A_C = re.compile(r"^Gt\(ZipFile::compressed_size\(file\), %d\)$" % bthr)
            A_U = re.compile(r"^Gt\(ZipFile::size\(file\), %d\)$" % bthr)
            rows, bad = 0, []
            for p in _paths(rc, max_paths=20000):
                idx = [i for i, e in enumerate(p["effects"]) if e[1] == "write::FileOptions::large_file"]
                if not idx:
                    continue
                i = idx[0]
                dec = {}
                for (a_, v_), pos_ in zip(p["decisions"], p["dpos"]):
                    if a_ != "#iter" and pos_ <= p["epos"][i] and v_ in (0, 1):
                        if A_C.match(a_):
                            dec["c"] = v_
                        elif A_U.match(a_):
                            dec["u"] = v_
                cst = p["econst"][i][1] if len(p["econst"][i]) > 1 else None
                arg = show(p["effects"][i][2][1]) if len(p["effects"][i][2]) > 1 else ""
                rows += 1
                if cst is not None:
                    val = bool(cst)
                    want = (dec.get("c") == 1 or dec.get("u") == 1) if val else (dec.get("c") == 0 and dec.get("u") == 0)
                    if not want:
                        bad.append((cst, dec))
                else:
                    # the flag is the remaining comparison: the other operand of the OR was decided false on this path
                    e_ = p["effects"][i][2][1] if len(p["effects"][i][2]) > 1 else None
                    rest = [show(a_) for a_ in alts(e_) if a_[0] != "const"] if e_ is not None else []
                    if rest and (dec.get("c") == 0 and all(A_U.match(r_) for r_ in rest) or dec.get("u") == 0 and all(A_C.match(r_) for r_ in rest)):
                        continue
                    bad.append((arg[:60], dec))
            good = rows >= 2 and not bad
        ok &= rep.check(good, rule, "raw-copy:large_file", where(rc, lf[0][1]["span"]), "large_file = max(compressed, uncompressed) > 0xFFFFFFFF",
                        "raw copy sets large_file from %s; both the compressed and the uncompressed size must be considered" % show(v))
    return ok
