"""C09-COUNT / C09-EXACT: stream adapters advance their state by exactly the transferred count; fixed-size structures
are moved only through exact-length primitives."""
import re

from engine.expr import Ex, norm, show, walk, alts
from engine.mir import callee_matches, AnchorLost
from engine.query import where

INNER = r"^std::io::(Read::read|Write::write)$"
PURE_QUERY = re.compile(r"::(len|is_empty)$")
INDEX = re.compile(r"ops::Index(Mut)?::index(_mut)?$")


def strip_casts(e):
    while e[0] == "cast":
        e = e[1]
    return e


def mentions_buf(e, buf_local):
    return any(x[0] == "arg" and x[1] == buf_local for x in walk(e))


def bounded_view(e, buf_local, n_exprs):
    """is `e` a view buf[..n] / buf[0..n] (possibly nested) with n one of n_exprs?"""
    if e[0] == "call" and INDEX.search(e[1]) and len(e[2]) == 2:
        base, rng = e[2]
        if rng[0] == "agg" and rng[1].startswith("adt:Range"):
            d = dict(rng[3])
            end = d.get("end")
            start = d.get("start")
            if end is not None and strip_casts(end) in n_exprs and (start is None or (start[0] == "const" and start[2] == 0)):
                return True
            # a view of an already bounded view
            if bounded_view(base, buf_local, n_exprs):
                return True
    if e[0] == "call" and re.search(r"iter::Iterator::take$|split_at(_mut)?$", e[1]) and len(e[2]) == 2:
        if strip_casts(e[2][1]) in n_exprs:
            return True
    return False


def adapters(facts):
    out = []
    for f in facts.fns:
        if f.kind != "AssocFn" or not f.impl_trait:
            continue
        if f.impl_trait == "std::io::Read" and f.name == "read":
            out.append((f, "read"))
        elif f.impl_trait == "std::io::Write" and f.name == "write":
            out.append((f, "write"))
    return out


def count_rule(facts, rep, rule="C09-COUNT", only=None):
    okall = True
    ads = adapters(facts)
    # the crate's adapters implement the REQUIRED methods only: read_to_end / read_exact / write_all / ... stay std's loops over
    # read()/write(), which is what makes the per-call count contract (and the end-of-data checks inside read()) cover them.  An
    # override such as a pre-sizing read_to_end built on read_exact never asks the wrapped reader for its end of data.
    extra = sorted("%s::%s" % (f.impl_self, f.name) for f in facts.fns
                   if f.impl_trait in ("std::io::Read", "std::io::Write", "std::io::BufRead") and f.kind == "AssocFn" and f.name not in ("read", "write", "flush"))
    okall &= bool(rep.check(not extra, rule, "io-impls-define-only-required-methods", "", "impl Read / impl Write define read / write+flush only",
                            "provided I/O methods are overridden: %s (their std definitions in terms of read()/write() are what the count and "
                            "end-of-data rules reason about)" % extra))
    for f, kind in ads:
        if only and not re.search(only, f.path):
            continue
        ex = Ex(f)
        buf = 2  # (&mut self, buf)
        short = re.sub(r"^<|>::(read|write)$", "", f.path).split(" as ")[0].split("::")[-1].split("<")[0]
        inner = [(bi, t) for bi, t in f.calls() if callee_matches(t, INNER)]
        key0 = "%s::%s" % (short, kind)
        w0 = where(f, f.span)
        rets = []
        for b in f.exits():
            e = norm(ex.local(0, (b, None)))
            rets.extend(alts(e))
        if not inner:
            # buffering adapter or dispatcher: every Ok must report len(buf) with buf consumed whole, or be a delegation
            deleg = [bi for bi, t in f.calls() if t.get("trait") in ("std::io::Read", "std::io::Write") and
                     (t["callee"].endswith("::read") or t["callee"].endswith("::write"))]
            oks = [a for a in rets if a[0] == "agg" and a[1] == "adt:Ok"]
            if deleg and not oks:
                rep.ok(rule, key0 + ":delegation", w0, "pure dispatch to the wrapped reader/writer (%d arms)" % len(deleg))
                continue
            good = bool(oks)
            for a in oks:
                v = strip_casts(a[3][0][1])
                if not ((v[0] == "call" and PURE_QUERY.search(v[1]) and mentions_buf(v, buf)) or (v[0] == "len" and mentions_buf(v, buf))):
                    good = False
            # (a query such as buf.len() / is_empty() consumes nothing: the whole slice must reach a call that takes the bytes)
            whole = any(mentions_buf(norm(ex.operand(a, (bi, None))), buf) and norm(ex.operand(a, (bi, None)))[0] == "arg"
                        for bi, t in f.calls() if not PURE_QUERY.search(t.get("callee") or "") and not re.search(r"Index(<[^>]*>)?::index$|::get$|::split_at$|::chunks$|::iter$|::first$|::last$", t.get("callee") or "") for a in t["args"])
            good = good and whole
            okall &= good
            rep.check(good, rule, key0 + ":buffering", w0,
                      "no inner transfer: the whole buffer is consumed and its length reported",
                      "adapter without an inner read/write must consume all of buf and report buf.len(); returns %s" % [show(a)[:60] for a in rets])
            continue
        # the adapter's own state moves only after the wrapped transfer has answered: a counter that is advanced before a fallible
        # read (and put right again on the success path only) is wrong after every failed or interrupted read -- a retried read then
        # sees "no data left" and the end-of-data check (MAC, CRC) is skipped
        if kind == "read":
            ib = [bi for bi, t in inner]
            early = []
            for b2, si2, s2 in f.stmts():
                if s2["k"] != "assign" or not s2["place"]["p"] or f.blocks[b2].get("cleanup"):
                    continue
                pp = s2["place"]["p"]
                scalar = re.match(r"^(u8|u16|u32|u64|u128|usize|i8|i16|i32|i64|isize|bool)$", str(s2["place"].get("ty") or pp[-1].get("ty") or "")) is not None
                if s2["place"]["l"] == 1 and pp[0]["k"] == "deref" and any(q["k"] == "field" for q in pp) and scalar:     # (counters and flags; a lazily built inner reader is not accounting)
                    if not any(f.dominates(b_, b2) for b_ in ib):
                        early.append(".".join(str(q.get("n")) for q in pp if q["k"] == "field"))
            okall &= bool(rep.check(not early, rule, key0 + ":state-moves-after-inner-read", w0, "no field of the adapter is assigned before the wrapped read returned",
                                    "self.%s is updated before the wrapped reader was asked: after a failed or interrupted read the adapter's accounting is off" % sorted(set(early))[:2]))
        # n = Ok payload of each inner call
        n_exprs = []
        inner_calls = []
        inner_blocks = set()
        for bi, t in inner:
            inner_blocks.add(bi)
            callx = norm(ex._call_value(t, (bi, None), 0))
            n_exprs.append(("ok", callx))
            inner_calls.append(callx)
        # (a) returned count
        for a in rets:
            if a[0] == "agg" and a[1] == "adt:Ok":
                v = strip_casts(a[3][0][1])
                good = v in n_exprs or (v[0] == "const" and v[2] == 0)
                okall &= good
                rep.check(good, rule, key0 + ":returns-n", w0, "Ok(%s) is the inner call's count" % show(v)[:80],
                          "returns Ok(%s), which is not the count returned by the inner %s" % (show(v)[:120], kind))
            elif a[0] == "call" and re.search(INNER, a[1]):
                rep.ok(rule, key0 + ":returns-result", w0, "returns the inner call's result unchanged")
            elif a[0] in ("errprop", "err") or (a[0] == "agg" and a[1] == "adt:Err"):
                pass
            elif a[0] == "call":
                # e.g. a Vec<u8> write used as the whole implementation of one branch
                pass
        # (b) every use of buf in a call after an inner call is a view bounded by n
        after = set()
        for bi in inner_blocks:
            after |= f.reach_from(bi)
        for bi, t in f.calls():
            if bi in inner_blocks or bi not in after:
                continue
            if callee_matches(t, INDEX.pattern) or PURE_QUERY.search(t["callee"] or ""):
                continue
            for ai, a in enumerate(t["args"]):
                e = norm(ex.operand(a, (bi, None)))
                if not mentions_buf(e, buf):
                    continue
                nm = (t["callee"] or "?").split("::")[-1]
                if nm in ("branch", "from_residual"):
                    continue
                good = not _buf_unbounded(e, buf, n_exprs, inner_calls)
                if good and not _has_view(e, buf, n_exprs):
                    continue  # buf occurs only inside n / the inner call: nothing to bound
                okall &= good
                rep.check(good, rule, "%s:%s-arg-bounded" % (key0, nm), where(f, t["span"]),
                          "%s receives a view of the buffer bounded by the transferred count" % nm,
                          "%s is applied to %s after the transfer: not bounded by the count actually transferred "
                          "(state advances over bytes that were not %s)" % (nm, show(e)[:160], "read" if kind == "read" else "written"))
        # (c) self-field arithmetic after the transfer must not use buf.len()
        for bi, si, s in f.stmts():
            if bi not in after and bi not in inner_blocks:
                continue
            if s["k"] != "assign" or s["place"]["l"] != 1 or not s["place"]["p"]:
                continue
            e = norm(ex.rvalue(s["rv"], (bi, si)))
            if _buf_unbounded(e, buf, n_exprs, inner_calls):
                okall = False
                fld = [p.get("n") for p in s["place"]["p"] if p["k"] == "field"]
                rep.violation(rule, "%s:self.%s-update" % (key0, ".".join(str(x) for x in fld)), where(f, s["span"]),
                              "state field updated with %s, derived from the buffer and not from the transferred count" % show(e)[:160])
            elif any(x in n_exprs for x in walk(e)):
                fld = [p.get("n") for p in s["place"]["p"] if p["k"] == "field"]
                rep.ok(rule, "%s:self.%s-update" % (key0, ".".join(str(x) for x in fld)), where(f, s["span"]),
                       "counter advanced by the transferred count")
    rep.count("io_adapters", len(ads))
    return okall


def _has_view(e, buf, n_exprs):
    return any(bounded_view(x, buf, n_exprs) for x in walk(e))


def _buf_unbounded(e, buf, n_exprs, inner_calls):
    """does `buf` occur in e on a path that passes neither through n, the inner call, nor a view bounded by n?"""
    if e in n_exprs or e in inner_calls:
        return False
    if bounded_view(e, buf, n_exprs):
        return False
    if e[0] == "arg":
        return e[1] == buf
    k = e[0]
    subs = []
    if k in ("field", "variant", "discr", "len", "cast", "ok", "err", "errprop", "residual", "subslice", "repeat"):
        subs = [e[1]]
    elif k == "un":
        subs = [e[2]]
    elif k == "index":
        subs = [e[1], e[2]]
    elif k == "bin":
        subs = [e[2], e[3]]
    elif k == "call":
        if PURE_QUERY.search(e[1]):
            return False
        subs = list(e[2])
    elif k == "agg":
        subs = [a for _, a in e[3]]
    elif k == "phi":
        subs = list(e[1])
    return any(_buf_unbounded(s, buf, n_exprs, inner_calls) for s in subs)


def _buf_outside_n(e, buf, n_exprs):
    """does `buf` occur in e other than inside one of the n expressions?"""
    if e in n_exprs:
        return False
    if e[0] == "arg":
        return e[1] == buf
    k = e[0]
    subs = []
    if k in ("field", "variant", "discr", "len", "cast", "ok", "err", "errprop", "residual", "subslice", "repeat"):
        subs = [e[1]]
    elif k == "un":
        subs = [e[2]]
    elif k == "index":
        subs = [e[1], e[2]]
    elif k == "bin":
        subs = [e[2], e[3]]
    elif k == "call":
        subs = list(e[2])
    elif k == "agg":
        subs = [a for _, a in e[3]]
    elif k == "phi":
        subs = list(e[1])
    return any(_buf_outside_n(s, buf, n_exprs) for s in subs)


def exact_rule(facts, rep, rule="C09-EXACT"):
    """bare Read::read / Write::write only inside adapters (and the drain loop of Drop for ZipFile)"""
    okall = True
    nr = nw = 0
    for f in facts.fns:
        is_adapter = f.impl_trait in ("std::io::Read", "std::io::Write") and f.name in ("read", "write")
        for bi, t in f.calls():
            if t.get("callee") == "std::io::Read::read":
                nr += 1
                good = is_adapter or (f.impl_trait == "std::ops::Drop" and "ZipFile" in (f.impl_self or ""))
                okall &= good
                rep.check(good, rule, "bare-read:%s" % f.path, where(f, t["span"]),
                          "bare read() inside a stream adapter / the drain loop (which loops until Ok(0))",
                          "parser code calls Read::read directly: a short read silently truncates the structure "
                          "(use read_exact / byteorder)")
            elif t.get("callee") in ("std::io::Write::write_vectored", "std::io::Read::read_vectored"):
                okall = False
                rep.violation(rule, "bare-vectored:%s" % f.path, where(f, t["span"]),
                              "%s may transfer only part of the slices (std's default forwards the FIRST non-empty one): a count that is not checked in a loop "
                              "drops the rest" % t["callee"].split("::")[-1])
            elif t.get("callee") == "std::io::Write::write":
                nw += 1
                good = is_adapter
                okall &= good
                rep.check(good, rule, "bare-write:%s" % f.path, where(f, t["span"]),
                          "bare write() inside a Write adapter that returns the accepted count",
                          "serialiser calls Write::write directly: a short write silently drops bytes (use write_all)")
    # no read-ahead wrapper of the crate's own around a reader it does not own: a BufReader/BufWriter created inside a parser or
    # serialiser reads (writes) more than the structure at hand and loses the surplus when it is dropped -- invisible on readers that
    # fill every request, fatal on ones that return short reads.  (zstd's decoder builds its own BufReader around the entry's bounded
    # reader inside make_reader; that one owns the rest of the entry.)
    wraps = sorted("%s in %s" % (t["callee"].split("::")[-3] if t["callee"].count("::") > 2 else t["callee"], f.path.split("::")[-1])
                   for f in facts.fns for bi, t in f.calls()
                   if re.search(r"io::(buffered::)?(bufreader::|bufwriter::|linewriter::)?(BufReader|BufWriter|LineWriter)::<[^>]*>::(new|with_capacity)$", t.get("callee") or ""))
    okall &= bool(rep.check(not wraps, rule, "no-internal-buffering-wrapper", "", "the crate wraps no caller-owned stream in a BufReader/BufWriter",
                            "a buffering wrapper is created around a stream the crate does not own: %s (read-ahead is lost when it is dropped)" % wraps[:3]))
    rep.count("bare_read_sites", nr)
    rep.count("bare_write_sites", nw)
    return okall
