"""C19 -- names and comments decode by the flagged encoding; raw bytes are kept (DESIGN.md §3 C19).

Decides: the CP437 table is the standard one for all 256 bytes (C19-TABLE, oracle: CPython's cp437 codec, the oracle the
property names); the decode choice is a function of bit 11 only, identically in both parsers and for name and comment (C19-FLAG);
raw bytes are stored untouched (C19-RAW); the writer stores the caller's UTF-8 bytes and flags them (C19-WRITE)."""
import re

from engine.codec import Codec
from engine.expr import Ex, norm, show, walk, alts
from engine.intervals import dominating_facts
from engine.mir import AnchorLost, callee_matches
from engine.paths import paths, decided, outcome
from engine.query import aggregates, calls_matching, where, ret_alts, switch_arms, const_assigned_in, single_bit
from rules.C02 import flag_rules, _phi_defs
from rules.shared_codec import tokens, writer_table


def table_rules(facts, rep):
    rule = "C19-TABLE"
    ok = True
    f = facts.one(r"^cp437::to_char$")
    ex = Ex(f)
    # The function is a lookup table spelled as a `match` (range pattern + 128 literal arms).  Fold it into a table: for each of the
    # 256 byte values follow the pattern tests (comparisons of the input with constants / switch on the input) to the arm.
    def fold(bval):
        b = 0
        seen = set()
        while b not in seen:
            seen.add(b)
            for si, s in enumerate(f.blocks[b]["stmts"]):
                if s["k"] == "assign" and not s["place"]["p"]:
                    if s["rv"]["k"] == "use" and s["rv"]["op"]["k"] == "const" and "v" in s["rv"]["op"] and s["rv"]["op"]["ty"] == "u32":
                        return int(s["rv"]["op"]["v"]), "const"
                    if s["rv"]["k"] == "cast" and norm(ex.rvalue(s["rv"], (b, si))) == ("cast", ("arg", 1, "input"), "u8", "u32"):
                        return bval, "identity"
            t = f.term(b)
            if not t:
                return None, "?"
            if t["k"] == "call" and callee_matches(t, r"convert::From::from$|convert::Into::into$") and len(t["args"]) == 1 and \
                    norm(ex.operand(t["args"][0], (b, None))) == ("arg", 1, "input") and f.locals[t["dest"]["l"]]["ty"] == "u32":
                return bval, "identity"     # u32::from(input): the lossless widening, same as `input as u32`
            if t["k"] == "goto":
                b = t["target"]
                continue
            if t["k"] != "switch":
                return None, "?"
            d = norm(ex.operand(t["discr"], (b, None)))
            if d == ("arg", 1, "input"):
                val = bval
            elif d[0] == "bin" and d[1] in ("Le", "Lt", "Ge", "Gt", "Eq", "Ne"):
                def ev(x):
                    return bval if x == ("arg", 1, "input") else (x[2] if x[0] == "const" and isinstance(x[2], int) else None)
                l, r = ev(d[2]), ev(d[3])
                if l is None or r is None:
                    return None, "?"
                val = int({"Le": l <= r, "Lt": l < r, "Ge": l >= r, "Gt": l > r, "Eq": l == r, "Ne": l != r}[d[1]])
            else:
                return None, "?"
            nb = t["otherwise"]
            for v, tgt in t["targets"]:
                if v == val:
                    nb = tgt
            b = nb
        return None, "?"
    table = {}
    kinds = {}
    for bval in range(256):
        table[bval], kinds[bval] = fold(bval)
    ident = all(kinds[b] == "identity" for b in range(128))
    d = ("arg", 1, "input")
    # possible range tests before the switch (0x00..=0x7f arm may be lowered as comparisons)
    bad = []
    n = 0
    for b in range(256):
        want = ord(bytes([b]).decode("cp437"))
        got = table.get(b)
        n += 1
        if got != want:
            bad.append((b, got, want))
    ok &= rep.check(not bad, rule, "table=cp437", where(f, f.span), "all 256 byte values map to the Unicode scalar CPython's cp437 codec gives (%d literal arms, identity below 0x80)" % sum(1 for k in kinds.values() if k == "const"),
                    "to_char differs from code page 437 at %s (byte, crate, CPython)" % [(hex(b), hex(g) if g is not None else None, hex(w)) for b, g, w in bad[:6]])
    low = [b for b in range(128) if table[b] != b]
    ok &= rep.check(d == ("arg", 1, "input") and not low, rule, "ascii-identity", where(f, f.span), "ASCII range maps to itself", "ASCII bytes are remapped: %s" % low)
    ok &= rep.check(all(v is not None and 0 <= v <= 0x10FFFF and not (0xD800 <= v <= 0xDFFF) for v in table.values()), rule, "scalar-values", where(f, f.span),
                    "every table value is a Unicode scalar value (char::from_u32(..).unwrap() cannot fail)", "a table value is not a Unicode scalar value")
    rep.count("table_bytes_compared", n)
    # the two FromCp437 impls: ASCII fast path only under the all-<0x80 test, otherwise map(to_char)
    for g in facts.trait_impl_fns(r"cp437::FromCp437", "from_cp437"):
        exg = Ex(g)
        fast = calls_matching(g, r"from_utf8$")
        slow = [(b, tt) for b, tt in g.calls() if callee_matches(tt, r"Iterator::map$")]
        alls = calls_matching(g, r"Iterator::all$")
        # std's own spelling of the same predicate: <[u8]>::is_ascii() is "every byte < 0x80" by definition
        asc = [(b, tt) for b, tt in g.calls() if callee_matches(tt, r"\[u8\]>::is_ascii$|slice::<impl \[u8\]>::is_ascii$|^core::slice::ascii::<impl \[u8\]>::is_ascii$")]
        PRED = r"Iterator::all$|::is_ascii$"
        good = len(fast) == 1 and len(slow) == 1 and len(alls) + len(asc) == 1
        if good:
            fs = dominating_facts(g, exg, fast[0][0])
            good = any(x[0] == "truth" and x[2] is True and x[1][0] == "call" and re.search(PRED, x[1][1]) for x in fs)
            fs2 = dominating_facts(g, exg, slow[0][0])
            good = good and any(x[0] == "truth" and x[2] is False and x[1][0] == "call" and re.search(PRED, x[1][1]) for x in fs2)
            m = norm(exg.operand(slow[0][1]["args"][1], (slow[0][0], None)))
            by_path = {c.path: c for c in facts.fns if c.kind == "Closure"}
            mc = by_path.get(m[2]) if m[0] == "agg" and m[1] == "closure" else None
            uses_to_char = (m[0] == "fn" and m[1].endswith("cp437::to_char")) or (mc is not None and any(callee_matches(t2, r"^cp437::to_char$") for _, t2 in mc.calls()))
            good = good and uses_to_char
            if alls:
                # the predicate handed to all(): the closure object itself (wherever it was written -- a helper may have been inlined)
                pa = norm(exg.operand(alls[0][1]["args"][1], (alls[0][0], None)))
                pc = by_path.get(pa[2]) if pa[0] == "agg" and pa[1] == "closure" else None
                good = good and pc is not None
                if good:
                    ra = ret_alts(pc)
                    good = len(ra) == 1 and ra[0][0] == "bin" and ((ra[0][1] == "Lt" and ra[0][3] == ("const", "u8", 128)) or (ra[0][1] == "Le" and ra[0][3] == ("const", "u8", 127)))
            # ... and it is asked about the very bytes that are converted
            if good:
                site = alls[0] if alls else asc[0]
                it = norm(exg.operand(site[1]["args"][0], (site[0], None)))
                good = any(x == ("arg", 1, "self") for x in walk(it))
        if not good and len(fast) == 1 and len(slow) == 1 and not alls and not asc:
            # the predicate written out as a loop (`for &b in bytes { if b >= 0x80 { return false } } true`, inlined here): decide it on
            # paths -- the fast path is reached only after the iterator over `self` was exhausted with every element found < 0x80, the
            # to_char path exactly when an element >= 0x80 was met; nothing else decides
            from engine.paths import paths as _paths, PathExplosion
            try:
                ps_ = _paths(g, max_loop=2)
            except PathExplosion:
                ps_ = []
            HI = re.compile(r"^(Ge|Lt|Gt|Le)\(ok\(Iterator::next\((.*)\)\), (127|128)\)$")
            NX = re.compile(r"^discr\(Iterator::next\((.*)\)\)$")
            good = bool(ps_)
            nf = ns = 0
            for p_ in ps_:
                names = [e_[1] for e_ in p_["effects"]]
                isf, iss = any(n_.endswith("from_utf8") for n_ in names), any(n_.endswith("Iterator::map") for n_ in names)
                highs, exhausted, other, src = [], False, [], set()
                for a_, v_ in p_["decisions"]:
                    if a_ == "#iter":
                        continue
                    mh, mn = HI.match(a_), NX.match(a_)
                    if mh:
                        op_, c_ = mh.group(1), int(mh.group(3))
                        src.add(mh.group(2))
                        if (op_, c_) not in (("Ge", 128), ("Lt", 128), ("Gt", 127), ("Le", 127)) or v_ not in (0, 1):
                            other.append(a_)
                        else:
                            highs.append((v_ == 1) if op_ in ("Ge", "Gt") else (v_ == 0))
                    elif mn:
                        src.add(mn.group(1))
                        exhausted = (v_ == 0)
                    else:
                        other.append(a_)
                if other or src - {"self"} or isf == iss:
                    good = False
                    break
                if isf:
                    nf += 1
                    good = good and exhausted and not any(highs)
                else:
                    ns += 1
                    good = good and bool(highs) and highs[-1] and not any(highs[:-1])
            good = good and nf >= 2 and ns >= 2
            if good:
                m = norm(exg.operand(slow[0][1]["args"][1], (slow[0][0], None)))
                by_path = {c.path: c for c in facts.fns if c.kind == "Closure"}
                mc = by_path.get(m[2]) if m[0] == "agg" and m[1] == "closure" else None
                good = (m[0] == "fn" and m[1].endswith("cp437::to_char")) or (mc is not None and any(callee_matches(t2, r"^cp437::to_char$") for _, t2 in mc.calls()))
        ok &= rep.check(good, rule, "fast-path:%s" % g.impl_self, where(g, g.span), "bytes taken as UTF-8 only when all are < 0x80; otherwise each byte through to_char",
                        "from_cp437 for %s takes its fast path under another condition than 'all bytes < 0x80' (valid multi-byte UTF-8 would bypass CP437)" % g.impl_self)
    rep.floor(rule, 5)
    return ok


def _flag_table_by_paths(f, agg_bb, nfields):
    from engine.paths import paths as _paths, PathExplosion
    try:
        ps = _paths(f, max_paths=20000)
    except PathExplosion:
        return False
    rows = {"set": 0, "clear": 0}
    for p in ps:
        if agg_bb not in p["blocks"]:
            continue
        upto = p["blocks"].index(agg_bb)
        bit = None
        for (a_, v_), pos_ in zip(p["decisions"], p["dpos"]):
            if a_ != "#iter" and pos_ <= upto and re.search(r"^BitAnd\(.*, 2048\)$", a_):
                bit = "clear" if v_ == 0 else ("set" if v_ == 2048 or (isinstance(v_, tuple) and v_[0] == "not-in" and tuple(v_[1]) == (0,)) else "other")
                break
        if bit not in ("set", "clear"):
            return False
        eff = [e for e, pos_ in zip(p["effects"], p["epos"]) if pos_ <= upto]
        lossy = [e for e in eff if e[1].endswith("from_utf8_lossy")]
        cp = [e for e in eff if e[1].endswith("from_cp437")]
        if bit == "set" and not (len(lossy) == nfields and not cp):
            return False
        if bit == "clear" and not (len(cp) == nfields and not lossy):
            return False
        rows[bit] += 1
    return rows["set"] >= 1 and rows["clear"] >= 1


def flag_decode_rules(facts, rep):
    rule = "C19-FLAG"
    ok = True
    sites = []
    for pat, fields in ((r"^read::central_header_to_zip_file_inner$", ("file_name", "file_comment")), (r"^read::read_zipfile_from_stream$", ("file_name",))):
        f = facts.one(pat)
        ex = Ex(f)
        ag = list(aggregates(f, r"types::ZipFileData$"))
        if not ag:
            raise AnchorLost("ZipFileData construction in %s" % f.path)
        bi, si, s, flds = ag[0]
        for fld in fields:
            raw = "file_name_raw" if fld == "file_name" else None
            defs = _phi_defs(f, ex, flds[fld], (bi, si))
            kinds = {}
            for val, dbb in defs:
                fs = dominating_facts(f, ex, dbb)
                utf8 = [x for x in fs if x[0] in ("Ne", "Eq") and x[1][0] == "bin" and x[1][1] == "BitAnd" and single_bit(x[1][3]) == 11 and x[2][2] == 0]
                others = [x for x in fs if x not in utf8 and not (x[0] in ("Eq", "Ne") and x[1][0] == "discr") and x[0] != "truth"
                          and not (x[1][0] == "ok" and x[1][1][0] == "call" and x[1][1][1].endswith("read_u32"))]
                flag = None
                if len(utf8) == 1:
                    flag = utf8[0][0] == "Ne"      # Ne(flags & (1<<11), 0) => bit set
                if any(y[0] == "call" and y[1].endswith("from_utf8_lossy") for y in walk(val)):
                    kinds["utf8"] = (flag, others)
                elif any(y[0] == "call" and y[1].endswith("from_cp437") for y in walk(val)):
                    kinds["cp437"] = (flag, others)
                else:
                    kinds["?" + show(val)[:40]] = (flag, others)
            good = set(kinds) == {"utf8", "cp437"} and kinds["utf8"][0] is True and kinds["cp437"][0] is False and not kinds["utf8"][1] and not kinds["cp437"][1]
            # the decoded string is stored as decoded: nothing cuts, trims or rewrites it afterwards (a name truncated at its first NUL
            # no longer is the name the entry has; enclosed_name() would then validate the prefix)
            cut = sorted({y[1].split("::")[-1] for val, dbb in defs for y in walk(val) if y[0] == "call" and
                          re.search(r"str>::(find|rfind|split\w*|trim\w*|replace\w*|strip_\w+)$|Index(<[^>]*>)?::index$|String::truncate$|Iterator::(take_while|filter|map)$", y[1])})
            op_ = flds[fld]
            if op_["k"] != "const" and not op_["place"]["p"]:
                # ... nor in place: nothing borrows the decoded string mutably before it is stored
                chain, hop = {op_["place"]["l"]}, 0
                while hop < 3:
                    more = {s3["rv"]["op"]["place"]["l"] for _, _, s3 in f.stmts() if s3["k"] == "assign" and s3["place"]["l"] in chain and not s3["place"]["p"] and
                            s3["rv"]["k"] == "use" and s3["rv"]["op"]["k"] in ("move", "copy") and not s3["rv"]["op"]["place"]["p"]}
                    if not more - chain:
                        break
                    chain |= more
                    hop += 1
                mutb = [b3 for b3, _, s3 in f.stmts() if s3["k"] == "assign" and s3["rv"]["k"] == "ref" and s3["rv"].get("mut") and s3["rv"]["place"]["l"] in chain and
                        not s3["rv"]["place"]["p"] and not f.blocks[b3].get("cleanup")]
                if mutb:
                    cut = cut + ["&mut (in place)"]
            if cut:
                ok &= rep.check(False, rule, "%s-verbatim@%s" % (fld, f.path.split("::")[-1]), where(f, s["span"]), "",
                                "the decoded %s is post-processed (%s) before it is stored" % (fld, cut))
            # both decoders of a field read the SAME buffer, and it is that field's own: the name's decoders the raw name that is kept
            # next to it, the comment's decoders another one (a copy-paste of the name's line decodes the name twice)
            bufs = [frozenset(y for y in walk(val) if y[0] == "call" and y[1].endswith("from_elem")) for val, dbb in defs]
            rawname = frozenset(y for y in walk(norm(ex.operand(flds["file_name_raw"], (bi, si)))) if y[0] == "call" and y[1].endswith("from_elem")) if "file_name_raw" in flds else frozenset()
            src_ok = bool(bufs) and all(b_ == bufs[0] and len(b_) == 1 for b_ in bufs) and ((bufs[0] == rawname) if fld == "file_name" else (bufs[0] != rawname))
            if rawname and not src_ok:
                ok &= rep.check(False, rule, "%s-source@%s" % (fld, f.path.split("::")[-1]), where(f, s["span"]), "",
                                "the decoders of %s do not all read that field's own raw bytes (%s)" % (fld, [sorted(show(y)[:50] for y in b_) for b_ in bufs]))
            if not good:
                # the same table decided on paths (however the choice is spelled: match / if-else yielding a tuple / a helper): on every
                # path that builds the entry, bit 11 was tested, and the decoders that ran are exactly the ones it calls for
                good = _flag_table_by_paths(f, bi, len(fields))
            ok &= rep.check(good, rule, "%s@%s" % (fld, f.path.split("::")[-1]), where(f, s["span"]),
                            "bit 11 set => String::from_utf8_lossy (never an error); clear => from_cp437; nothing else decides",
                            "%s is decoded as %s" % (fld, {k: ("bit11=%s" % v[0], [show(o[1])[:40] for o in v[1]]) for k, v in kinds.items()}))
            sites.append(fld)
    rep.floor(rule, 3)
    return ok


def raw_rules(facts, rep):
    rule = "C19-RAW"
    ok = True
    for pat in (r"^read::central_header_to_zip_file_inner$", r"^read::read_zipfile_from_stream$"):
        f = facts.one(pat)
        ex = Ex(f)
        bi, si, s, flds = list(aggregates(f, r"types::ZipFileData$"))[0]
        v = norm(ex.operand(flds["file_name_raw"], (bi, si)))
        good = v[0] == "call" and v[1].endswith("vec::from_elem") and any(x[0] == "call" and x[1].endswith("read_u16") for x in walk(v))
        # the buffer is filled by read_exact and handed over as is: no call takes it mutably in between except read_exact
        op = flds["file_name_raw"]
        touched = []
        if op["k"] != "const":
            L = op["place"]["l"]
            locs = {L}
            for b2, s2, st in f.stmts():
                if st["k"] == "assign" and st["place"]["l"] in locs and st["rv"]["k"] == "use" and st["rv"]["op"]["k"] in ("move", "copy") and not st["rv"]["op"]["place"]["p"]:
                    locs.add(st["rv"]["op"]["place"]["l"])
            mrefs = {st["place"]["l"] for b2, s2, st in f.stmts() if st["k"] == "assign" and st["rv"]["k"] == "ref" and st["rv"]["mut"] and st["rv"]["place"]["l"] in locs}
            for b2, t in f.calls():
                for a in t["args"]:
                    if a["k"] != "const" and a["place"]["l"] in mrefs and not callee_matches(t, r"read_exact$|DerefMut::deref_mut$"):
                        touched.append(t["callee"])
                    if a["k"] == "move" and a["place"]["l"] in locs and not a["place"]["p"] and not callee_matches(t, r"from_cp437$") is False and callee_matches(t, r"from_cp437$"):
                        touched.append(t["callee"] + " (consumes the raw buffer itself, not a clone)")
        good = good and not touched
        ok &= rep.check(good, rule, "file_name_raw@%s" % f.path.split("::")[-1], where(f, s["span"]), "raw name = the bytes read_exact filled, moved in unmodified (decoding works on a clone/borrow)",
                        "file_name_raw is %s%s" % (show(v)[:80], (" and is touched by %s" % touched) if touched else ""))
    return ok


def run(ctx, rep):
    facts = ctx.facts
    rep.configs.append("default")
    rep.explanation = (
        "Encoding, structurally: the 256-entry map read from to_char's MIR switch equals CPython's cp437 decoding table (computed at check "
        "time) -- exhaustive over all byte values without executing the crate; the ASCII fast path of both FromCp437 impls is taken only "
        "under the all-bytes-<0x80 test; in both parsers name (and comment) are decoded by from_utf8_lossy iff bit 11 is set, else "
        "from_cp437, and nothing else decides; the raw name is the read buffer moved in untouched; the writer emits the name's own bytes "
        "and length and sets bit 11 iff the name is not ASCII.")
    table_rules(facts, rep)
    flag_decode_rules(facts, rep)
    raw_rules(facts, rep)
    from rules.C02 import narrow_rules
    from engine.codec import Codec
    from rules.shared_codec import reader_table
    reader_table(facts, rep, "C19-CODEC", facts.one(r"^read::central_header_to_zip_file$"), "CDH", ctx.spec("appnote.json"), Codec(facts), adt_re=r"ZipFileData")   # name, extra, comment are read in record order
    from rules.C02 import limit_rules
    limit_rules(facts, rep)            # reported as C19/C02-LIMIT: every name/comment the format can hold is accepted, nothing longer is
    narrow_rules(ctx, facts, rep)      # reported as C19/C02-NARROW: the stored name is the given UTF-8 bytes -- its length field is not a wrapped cast
    flag_rules(ctx, facts, rep, rule="C19-WRITE")
    spec = ctx.spec("appnote.json")
    c = Codec(facts)
    writer_table(facts, rep, "C19-WRITE", facts.one(r"^write::write_local_file_header$"), "LFH", spec, c, tail_optional=("extra",))
    writer_table(facts, rep, "C19-WRITE", facts.one(r"^write::write_central_directory_header$"), "CDH", spec, c)
    from rules.C03 import acc_rules
    acc_rules(facts, rep)
    rep.assume("CPython's cp437 codec is the Unicode consortium mapping (the oracle named by the property)")
