"""C04 -- a read that completes successfully returned uncorrupted data (DESIGN.md §3 C04).

Decides: every decoding path out of ZipFile::read goes through the checksum wrapper (C04-WRAP); the wrapper is given the
entry's declared CRC and the AE-2 exemption only for AE-2 (C04-ARGS, C04-AE2SRC); the wrapper's end-of-file decision table is the
property's case analysis and it hashes exactly the bytes it returns (C04-TABLE + C09-COUNT instance)."""
import re

from engine.expr import Ex, norm, show, walk, alts
from engine.intervals import dominating_facts
from engine.mir import AnchorLost, callee_matches
from engine.paths import paths, decided, called, outcome
from engine.query import aggregates, calls_matching, where, ret_alts, find_switch_on, switch_arms, aggs_in, enum_variants
from rules.shared_codec import tokens
from rules.shared_count import count_rule


def _plain_construction_rules(facts, rep, rule):
    """make_reader only constructs: each decoder is `Decoder::new(reader)` wrapped in the CRC reader, with no further adaptor call that
    changes what the decoder considers the end of its input (`single_frame()`, a custom buffer size: the bytes behind are then never
    pulled through the checks that sit below -- MAC at end of ciphertext, CRC at end of data); and the raw accessor never goes through
    the decoding reader (a raw copy would run the CRC check on compressed bytes)"""
    ok = True
    mr = facts.one(r"^read::make_reader$")
    allowed = r"::new$|Crc32Reader|is_ae2_encrypted$|core::panicking::|fmt::Arguments|Result::<T, E>::unwrap$|Result::<T, E>::expect$|unsupported_zip_error$|convert::(From|Into)"
    extra = sorted({(t.get("callee") or "?") for _, t in mr.calls() if not re.search(allowed, t.get("callee") or "?")})
    ok &= bool(rep.check(not extra, rule, "make_reader:constructs-only", where(mr, mr.span), "decoders are built with their plain constructors, nothing else is called on them",
                         "make_reader also calls %s: the decoder's notion of where its input ends (or how much it pulls) is changed" % extra[:3]))
    gr = facts.find(r"^read::ZipFile::<'a>::get_raw_reader$")
    if gr:
        bad = sorted({(t.get("callee") or "?") for _, t in gr[0].calls() if re.search(r"get_reader$|make_reader$|Crc32Reader|Decoder", t.get("callee") or "")})
        ok &= bool(rep.check(not bad, rule, "get_raw_reader:never-decodes", where(gr[0], gr[0].span), "the raw accessor unwraps to the bounded stream and never builds or uses the decoding reader",
                             "get_raw_reader goes through %s: raw bytes are run through the checksum / decoder" % bad[:2]))
    return ok


def wrap_rules(facts, rep):
    rule = "C04-WRAP"
    ok = True
    ok &= _plain_construction_rules(facts, rep, rule)
    adt = facts.adts.get("read::ZipFileReader")
    if not adt:
        raise AnchorLost("ZipFileReader enum")
    for v in adt["variants"]:
        if v["name"] in ("NoReader", "Raw"):
            good = True if v["name"] == "NoReader" else (len(v["fields"]) == 1 and v["fields"][0]["ty"].startswith("std::io::Take<"))
            ok &= rep.check(good, rule, "variant:%s" % v["name"], adt["span"], "placeholder / undecoded variant", "variant %s changed shape" % v["name"])
            continue
        tys = [f["ty"] for f in v["fields"]]
        good = len(tys) == 1 and tys[0].startswith("crc32::Crc32Reader<")
        ok &= rep.check(good, rule, "variant:%s" % v["name"], adt["span"], "decoding variant %s holds a Crc32Reader<..>" % v["name"],
                        "decoding variant %s holds %s: its data bypasses the checksum wrapper" % (v["name"], tys))
    mr = facts.one(r"^read::make_reader$")
    ex = Ex(mr)
    n = 0
    for bi, si, s, flds in aggregates(mr, r"^read::ZipFileReader$"):
        n += 1
        vname = s["rv"]["variant"]
        e = norm(ex.operand(s["rv"]["ops"][0], (bi, si))) if s["rv"]["ops"] else None
        good = vname not in ("NoReader", "Raw") and e is not None and e[0] == "call" and e[1].endswith("Crc32Reader::<R>::new")
        ok &= rep.check(good, rule, "make_reader:%s" % vname, where(mr, s["span"]), "%s(Crc32Reader::new(..))" % vname,
                        "make_reader builds %s from %s" % (vname, show(e)[:80] if e else "nothing"))
    # Read for ZipFile delegates to the decoding reader
    rd = facts.method(r"^read::ZipFile<", "read", r"std::io::Read")
    cs = [t["callee"] for _, t in rd.calls()]
    from engine.query import lazy_ctor
    gr = lazy_ctor(facts)
    inlined = gr.path == rd.path        # get_reader's body lives in read() itself
    good = (inlined or any(c.endswith("::get_reader") for c in cs)) and not any(c.endswith("get_raw_reader") for c in cs)
    # ... and is nothing but that delegation: no path may answer a read without asking the checksum-verifying reader
    prd = paths(rd)
    for p_ in prd:
        r_ = p_["ret"]
        real = [a for a, v in p_["decisions"] if a != "#iter"]
        if inlined:
            # the only decision is "is the reader still to be built"; the answer comes from self.reader.read(buf)
            real = [a for a in real if not re.search(r"^discr\(self\.reader\)$", a)]
            good = good and not real and r_ is not None and r_[0] == "call" and r_[1].endswith("io::Read::read") and \
                all((a_[0] == "field" and a_[2] == "reader" and a_[1][0] == "arg") or (a_[0] == "call" and a_[1].endswith("read::make_reader")) for a_ in alts(r_[2][0])) and \
                r_[2][1] == ("arg", 2, "buf")
            continue
        good = good and not real and r_ is not None and r_[0] == "call" and r_[1].endswith("io::Read::read") and \
            any(x[0] == "call" and x[1].endswith("::get_reader") for x in walk(r_[2][0])) and r_[2][1] == ("arg", 2, "buf")
    good = good and len(prd) >= 1
    ok &= rep.check(good, rule, "ZipFile::read->get_reader", where(rd, rd.span), "ZipFile::read uses the decoding reader",
                    "ZipFile::read no longer goes through get_reader() (calls %s)" % [c.split("::")[-1] for c in cs])
    # both constructors of a decoding ZipFile use make_reader
    st = facts.one(r"^read::read_zipfile_from_stream$")
    for f in (gr, st):
        good = bool(calls_matching(f, r"^read::make_reader$"))
        ok &= rep.check(good, rule, "%s->make_reader" % f.path.split("::")[-1], where(f, f.span), "decoder stack built by make_reader",
                        "%s no longer builds its reader through make_reader" % f.path)
    # who may build the undecoded variant: only the raw accessors -- a `Raw` reader anywhere else hands out entry data that no
    # checksum wrapper ever sees (e.g. a "stored and unencrypted needs no decoder" shortcut in the lazy constructor)
    allowed = re.compile(r"::get_raw_reader$|::by_index_raw($|::\{closure)")
    builders = set()
    for f in facts.fns:
        if f.path.startswith("read::") or f.path.startswith("<read::") or "::read::" in f.path:
            for bi, si, s, flds in aggregates(f, r"^read::ZipFileReader$"):
                if s["rv"]["variant"] == "Raw":
                    builders.add(f.path)
    stray = sorted(b for b in builders if not allowed.search(b))
    ok &= rep.check(bool(builders) and not stray, rule, "who-builds:Raw", where(gr, gr.span), "ZipFileReader::Raw is built only by get_raw_reader / by_index_raw",
                    "ZipFileReader::Raw (no checksum wrapper) is also built in %s" % stray if builders else "no function builds the Raw reader any more (anchor lost)")
    # ... and the lazy constructor stores nothing but make_reader's result
    exg = Ex(gr)
    asg = [norm(exg.rvalue(s_["rv"], (bi_, si_))) for bi_, si_, s_ in gr.stmts() if s_["k"] == "assign" and [p_.get("n") for p_ in s_["place"]["p"] if p_["k"] == "field"] == ["reader"]]
    good = bool(asg) and all(a[0] == "call" and a[1].endswith("read::make_reader") for a in asg)
    ok &= rep.check(good, rule, "get_reader:=make_reader", where(gr, gr.span), "get_reader stores make_reader(..) and nothing else",
                    "get_reader assigns %s to self.reader" % [show(a)[:60] for a in asg])
    rep.floor(rule, 12)
    return ok


def args_rules(facts, rep):
    rule = "C04-ARGS"
    ok = True
    mr = facts.one(r"^read::make_reader$")
    ex = Ex(mr)
    sites = calls_matching(mr, r"crc32::Crc32Reader::<R>::new$")
    for bi, t in sites:
        c = norm(ex.operand(t["args"][1], (bi, None)))
        a = norm(ex.operand(t["args"][2], (bi, None)))
        good = c[0] == "arg" and c[2] == "crc32" and a[0] == "call" and a[1].endswith("is_ae2_encrypted") and a[2][0][0] == "arg"
        ok &= rep.check(good, rule, "Crc32Reader::new@%s" % show(norm(ex.operand(t["args"][0], (bi, None))))[:30], where(mr, t["span"]),
                        "checksum = the entry's crc32, exemption = reader.is_ae2_encrypted()",
                        "Crc32Reader::new(.., %s, %s): must be (the declared crc32, is_ae2_encrypted())" % (show(c), show(a)))
    # callers pass the entry's declared CRC
    for f in facts.fns:
        exf = Ex(f)
        for bi, t in calls_matching(f, r"^read::make_reader$"):
            c = norm(exf.operand(t["args"][1], (bi, None)))
            toks = tokens(c)
            good = ".crc32" in toks or any(x[0] == "call" and x[1].endswith("read_u32") for x in walk(c))
            if any(x[0] == "call" and x[1].endswith("read_u32") for x in walk(c)):
                # stream reader: must be the 7th fixed field of the local header (checked by the LFH table in C10/C01); here: it is
                # the same value stored in ZipFileData.crc32
                good = any(flds.get("crc32") is not None and norm(exf.operand(flds["crc32"], (b2, s2))) == c
                           for b2, s2, st, flds in aggregates(f, r"types::ZipFileData$"))
            ok &= rep.check(good, rule, "make_reader-crc@%s" % f.path.split("::")[-1], where(f, t["span"]), "decoder stack is given the entry's declared CRC-32",
                            "make_reader is given %s as the expected checksum" % show(c))
    rep.floor(rule, 6)
    return ok


def ae2_rules(facts, rep):
    rule = "C04-AE2SRC"
    ok = True
    f = facts.one(r"^read::CryptoReader::<'a>::is_ae2_encrypted$")
    ex = Ex(f)
    crv = {v: k for k, v in enum_variants(facts, "read::CryptoReader").items()}
    vv = {v: k for k, v in enum_variants(facts, "types::AesVendorVersion").items()}
    ps = paths(f)
    trues = [p for p in ps if p["ret"] is not None and p["ret"][0] == "const" and p["ret"][2] == 1]
    falses = [p for p in ps if p["ret"] is not None and p["ret"][0] == "const" and p["ret"][2] == 0]
    good = bool(trues) and len(trues) + len(falses) == len(ps)
    for p in trues:
        d = dict(p["decisions"])
        ks = list(d)
        outer = [k for k in ks if k == "discr(self)"]
        inner = [k for k in ks if "vendor_version" in k]
        if not (outer and d[outer[0]] == crv.get("Aes") and inner and d[inner[0]] == vv.get("Ae2")):
            good = False
    ok &= rep.check(good, rule, "is_ae2_encrypted", where(f, f.span), "true only for CryptoReader::Aes with vendor_version == Ae2",
                    "is_ae2_encrypted() answers true on %s: the CRC exemption must hold for AE-2 entries only" % [p["decisions"] for p in trues])
    # Crc32Reader stores the flag it was given
    nw = facts.one(r"^crc32::Crc32Reader::<R>::new$")
    exn = Ex(nw)
    for bi, si, s, flds in aggregates(nw, r"crc32::Crc32Reader$"):
        vals_ = {k_: norm(exn.operand(o_, (bi, si))) for k_, o_ in flds.items()}      # by role, not by (private) field name
        a = [v_ for v_ in vals_.values() if v_[0] == "arg" and v_[2] == "ae2_encrypted"]
        c = [v_ for v_ in vals_.values() if v_[0] == "arg" and v_[2] == "checksum"]
        h = [v_ for v_ in vals_.values() if v_[0] == "call" and v_[1].endswith("Hasher::new")]
        good = len(a) == 1 and len(c) == 1 and len(h) == 1 and len(vals_) == 4
        ok &= rep.check(good, rule, "Crc32Reader::new-fields", where(nw, s["span"]), "expected := checksum, ae2 := flag, hasher := fresh",
                        "Crc32Reader::new stores %s" % {k_: show(v_) for k_, v_ in vals_.items()})
    return ok


def table_rules(facts, rep):
    rule = "C04-TABLE"
    ok = True
    f = facts.method(r"^crc32::Crc32Reader<", "read", r"std::io::Read")
    ps = paths(f)
    rep.count("paths", len(ps))
    # "checksum matches" is the helper's answer, or the comparison it stands for written in place
    A_EMPTY, A_MATCH, A_AE2 = r"is_empty\(buf\)", r"check_matches\(|^Eq\(self\.\w+, Hasher::finalize\(|^Eq\(Hasher::finalize\(.*, self\.\w+\)$", r"ae2_encrypted"
    A_RES, A_N = r"^discr\(.*Read::read\(self\.inner", r"^ok\(.*Read::read\(self\.inner"
    n_err_new = 0
    for p in ps:
        o = outcome(p)
        res, n0 = decided(p, A_RES), decided(p, A_N)
        empty, match, ae2 = decided(p, A_EMPTY), decided(p, A_MATCH), decided(p, A_AE2)
        # the same atoms under other spellings: `buf.len() == 0` for is_empty(), `computed != expected` for !check_matches()
        if empty is None:
            l_ = decided(p, r"^slice::len\(buf\)$|^len\(buf\)$")
            if l_ is not None:
                empty = 1 if l_ == 0 else 0
        if match is None:
            ne_ = decided(p, r"^Ne\(self\.\w+, Hasher::finalize\(|^Ne\(Hasher::finalize\(.*, self\.\w+\)$")
            if ne_ is not None:
                match = 0 if ne_ == 1 else 1
        inner = called(p, r"io::Read::read$")
        desc = "empty=%s match=%s ae2=%s inner=%s n==0:%s" % (empty, match, ae2, {0: "Ok", 1: "Err"}.get(res, res), n0 == 0)
        key = "row:" + re.sub(r"[^A-Za-z0-9=:,]", "", desc.replace(" ", ","))
        if len(inner) != 1:
            ok = False
            rep.violation(rule, key, where(f, f.span), "a path performs %d inner reads" % len(inner))
            continue
        if res == 1:
            good = (o[0] == "Err" and o[1] is not None and o[1][0] == "err") or \
                   (o[0] == "ErrProp" and o[1] is not None and o[1][0] == "call" and o[1][1].endswith("Read::read") and "inner" in show(o[1]))
            ok &= rep.check(good, rule, key, where(f, f.span), "inner error propagated", "inner read error is not propagated unchanged (%s)" % (o,))
            continue
        must_fail = (n0 == 0 and empty == 0 and match == 0 and ae2 == 0)
        # a path on which one of the atoms was not even consulted cannot be a must-fail path
        if must_fail:
            n_err_new += 1
            good = o[0] == "Err" and o[1] is not None and o[1][0] == "call" and o[1][1].endswith("Error::new") and not called(p, r"Hasher::update$")
            ok &= rep.check(good, rule, key, where(f, f.span), "end of data with a wrong checksum on a non-empty buffer, not AE-2 => Err",
                            "end of data with a mismatching checksum returns %s instead of an error" % (o[0],))
        else:
            upd = called(p, r"Hasher::update$")
            good = o[0] == "Ok" and o[1] is not None and o[1][0] == "ok" and len(upd) == 1
            if o[0] == "Err":
                ok = False
                rep.violation(rule, key, where(f, f.span), "checksum error raised although the case analysis does not call for one (%s)" % desc)
            else:
                ok &= rep.check(good, rule, key, where(f, f.span), "returns the inner count after hashing the returned bytes",
                                "path (%s) returns %s with %d hash updates" % (desc, o[0], len(upd)))
        # every completing path must have consulted the three atoms unless short-circuited by a *true* earlier atom
        if res == 0 and n0 == 0:
            # (in whatever order the three are evaluated: one of them saying "no error" ends the evaluation, all three saying
            # "error" is the must-fail row)
            consulted_ok = (empty == 1) or (match == 1) or (ae2 == 1) or (empty == 0 and match == 0 and ae2 == 0)
            if not consulted_ok:
                ok = False
                rep.violation(rule, key + ":atoms", where(f, f.span),
                              "the end-of-data decision depends on something other than (buffer empty, checksum matches, AE-2): %s" % p["decisions"])
    extra_atoms = set()
    for p in ps:
        for a, v in p["decisions"]:
            if not any(re.search(x, a) for x in (A_EMPTY, A_MATCH, A_AE2, A_RES, A_N, r"^slice::len\(buf\)$|^len\(buf\)$",
                                                   r"^Ne\(self\.\w+, Hasher::finalize\(|^Ne\(Hasher::finalize\(.*, self\.\w+\)$")):
                extra_atoms.add(a)
    ok &= rep.check(not extra_atoms, rule, "atoms", where(f, f.span), "decisions depend only on: buffer empty, checksum matches, AE-2, inner result",
                    "Crc32Reader::read additionally branches on %s -- a state under which the end-of-file check can be skipped" % sorted(extra_atoms))
    ok &= rep.check(n_err_new >= 1, rule, "must-fail-row-present", where(f, f.span), "the must-fail row exists", "no path raises the checksum error any more")
    # check_matches compares the stored check with the finalised hash by equality
    # the comparison itself: the stored expected value (set from the constructor's checksum argument) == hasher.clone().finalize()
    cms = facts.find(r"^crc32::Crc32Reader::<R>::check_matches$")
    nwf = facts.one(r"^crc32::Crc32Reader::<R>::new$")
    exn_ = Ex(nwf)
    stored = [k_ for bi_, si_, s_, fl_ in aggregates(nwf, r"crc32::Crc32Reader$") for k_, o_ in fl_.items() if norm(exn_.operand(o_, (bi_, si_))) == ("arg", 2, "checksum")]
    if cms:
        ras = ret_alts(cms[0])
        cmp_ = ras[0] if len(ras) == 1 else None
        site = cms[0]
    else:
        exr = Ex(f)
        cands = [d_ for _, _, d_ in find_switch_on(f, lambda d: True)]
        eqs = [x for b_, si_, s_ in f.stmts() if s_["k"] == "assign" and s_["rv"]["k"] == "binop" and s_["rv"]["op"] in ("Eq", "Ne")
               for x in [norm(exr.rvalue(s_["rv"], (b_, si_)))] if any(y[0] == "call" and y[1].endswith("Hasher::finalize") for y in walk(x))]
        cmp_ = eqs[0] if len(eqs) == 1 else None
        site = f
    good = cmp_ is not None and cmp_[0] == "bin" and cmp_[1] in ("Eq", "Ne") and len(stored) == 1 and ("." + stored[0]) in tokens(cmp_) and "finalize()" in tokens(cmp_) and ".hasher" in tokens(cmp_)
    ok &= rep.check(good, rule, "check_matches", where(site, site.span), "expected checksum == hasher.clone().finalize()", "the checksum comparison is %s" % (show(cmp_) if cmp_ else "missing or ambiguous"))
    rep.floor(rule, 8)
    return ok


def run(ctx, rep):
    facts = ctx.facts
    rep.configs.append("default")
    rep.explanation = (
        "Checksum enforcement from MIR/ADT facts: all decoding variants of the entry reader wrap a Crc32Reader; it is constructed with the "
        "entry's declared CRC and with the AE-2 exemption computed by a predicate that is true only for AES entries of vendor version "
        "AE-2; the path-enumerated decision table of Crc32Reader::read over the atoms (buffer empty, checksum matches, AE-2, inner result) "
        "is exactly: inner Err => Err; inner Ok(0) and non-empty buffer and mismatch and not AE-2 => Err; otherwise Ok(n) after hashing "
        "buf[..n]; no other atom influences the decision. That CRC-32 detects a given corruption, and decoder behaviour on damaged input, "
        "are not decided.")
    wrap_rules(facts, rep)
    args_rules(facts, rep)
    ae2_rules(facts, rep)
    table_rules(facts, rep)
    if facts.find(r"^aes::AesReaderValid"):
        from rules.C16 import mac_rules
        mac_rules(facts, rep)          # reported as C04/C16-MAC: AE-2 entries have no CRC, the MAC is their only integrity check
    count_rule(facts, rep, rule="C04-COUNT", only=r"Crc32Reader")
    rep.assume("CRC-32 (crc32fast) detects single-bit and burst errors by construction")
