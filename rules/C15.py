"""C15 -- ZipCrypto entries: right password decrypts, none/wrong is refused (DESIGN.md §3 C15).

Decides: the open-time decision table (C15-OPEN); which check byte is compared with what (C15-CHECK); that encryption and
decryption drive the key schedule with the plaintext byte, keystream byte taken before the update (C15-SYM); that the writer's
header and flag are the ones the reader's validator expects (C15-WRITE); the cipher's specification constants and CRC table
(C15-CONST); the decrypting adapter advances by the bytes read (C15-COUNT)."""
import re
import struct

from engine.expr import Ex, norm, show, walk, alts
from engine.intervals import dominating_facts
from engine.mir import AnchorLost, callee_matches
from engine.paths import paths, decided, called, outcome
from engine.query import self_rooted, calls_matching, where, aggregates, ret_alts, find_switch_on, field_assignments, enum_variants
from rules.C01 import ZW
from rules.shared_codec import tokens
from rules.shared_count import count_rule
from rules.C02 import flag_rules

ZA = r"^read::<impl read::zip_archive::ZipArchive<R>>::"


def _open_table_by_flow(f):
    """the (password, encrypted) table of the opener decided on the value flow: -> (row `None,encrypted => Err(PASSWORD_REQUIRED) before
    anything is opened`, row `Some,plain => the crypto reader is built with None; Some,encrypted => with the caller's password`)"""
    from engine import sym
    S = sym.Sym(f, max_paths=40000)
    S._returns = []
    try:
        calls = S.run(lambda bb, t: re.search(r"make_crypto_reader$|find_content$", t.get("callee") or "") is not None)
        rets = S._returns
    except sym.SymTooComplex:
        return False, False
    finally:
        S._returns = None

    def atoms(conds):
        pw = enc = None
        for d, v in conds:
            if d[0] == "discr" and d[1][0] == "arg" and d[1][2] == "password":
                pw = "none" if v == 0 else "some"
            elif d[0] == "field" and d[2] == "encrypted":
                enc = (v != 0) if v is not None else True
        return pw, enc
    row_a = row_b = True
    seen_a = seen_b = seen_c = 0
    for c in calls:
        pw, enc = atoms(c["state"].conds)
        if pw is None or enc is None:
            continue
        if pw == "none" and enc:
            row_a = False           # something is opened although a password is required and none was given
        if (c["term"].get("callee") or "").endswith("make_crypto_reader"):
            a = c["args"][5] if len(c["args"]) > 5 else None
            if a is None:
                return False, False
            if pw == "some" and not enc:
                seen_b += 1
                row_b = row_b and sym.is_none_agg(a)
            if pw == "some" and enc:
                seen_c += 1
                row_b = row_b and a[0] == "arg" and a[2] == "password"
    for r in rets:
        pw, enc = atoms(r["conds"])
        if pw == "none" and enc:
            seen_a += 1
            v = r["ret"]
            row_a = row_a and v[0] == "agg" and v[1] == "adt:Err" and "PASSWORD_REQUIRED" in sym.show(v) and "UnsupportedArchive" in sym.show(v)
    return row_a and seen_a >= 1, row_b and seen_b >= 1 and seen_c >= 1


def open_rules(facts, rep, rule="C15-OPEN"):
    ok = True
    f = facts.one(ZA + "by_index_with_optional_password$")
    ex = Ex(f)
    ps = paths(f)
    rep.count("open_paths", len(ps))
    A_PW, A_ENC = r"^discr\(password\)$", r"\.encrypted$"
    req = [p for p in ps if decided(p, A_PW) == 0 and decided(p, A_ENC) == 1]
    good = bool(req)
    for p in req:
        o = outcome(p)
        good = good and o[0] == "Err" and o[1] is not None and any(x[0] == "named" and x[1].endswith("PASSWORD_REQUIRED") for x in walk(o[1])) and \
            not called(p, r"find_content$|make_crypto_reader$")
    flow = None
    if not good:
        # second opinion, spelling-independent: the same table read off the value flow (E9) -- e.g. when the case analysis lives in
        # a helper that returns Result<Option<&[u8]>> and is used with `?`
        flow = _open_table_by_flow(f)
        good = flow[0]
    ok &= rep.check(good, rule, "no-password+encrypted=>PASSWORD_REQUIRED", where(f, f.span), "encrypted entry opened without a password => Err(UnsupportedArchive(PASSWORD_REQUIRED)), nothing read",
                    "an encrypted entry opened without a password is not refused with the password-required error")
    # Some + !encrypted => password discarded
    disc = False
    for bi, si, s in f.stmts():
        if s["k"] == "assign" and not s["place"]["p"] and s["rv"]["k"] == "agg" and s["rv"].get("variant") == "None" and \
                (f.local_name(s["place"]["l"]) == "password" or any(
                    s3["k"] == "assign" and f.local_name(s3["place"]["l"]) == "password" and s3["rv"]["k"] == "use" and s3["rv"]["op"]["k"] in ("move", "copy")
                    and s3["rv"]["op"]["place"]["l"] == s["place"]["l"] for _, _, s3 in f.stmts())):
            fs = dominating_facts(f, ex, bi)
            disc = any(x[0] == "Eq" and x[1] == ("discr", ("arg", 3, "password")) and x[2][2] == 1 for x in fs) and \
                any(x[0] == "truth" and x[2] is False and "encrypted" in show(x[1]) for x in fs)
    if not disc:
        flow = flow or _open_table_by_flow(f)
        disc = flow[1]
    ok &= rep.check(disc, rule, "password+plain=>discard", where(f, f.span), "a password given for an unencrypted entry is discarded", "a superfluous password is no longer discarded for unencrypted entries")
    # the two *_decrypt wrappers hand the caller's password on as Some(password), unconditionally: the EMPTY password is a password
    # (valid for ZipCrypto and WinZip-AES alike); "no password" is expressed by calling by_index / by_name
    for nm, callee in (("by_index_decrypt", "by_index_with_optional_password"), ("by_name_decrypt", "by_name_with_optional_password")):
        g = facts.one(ZA + nm + "$")
        exg = Ex(g)
        cs = calls_matching(g, ZA + callee + "$")
        good = len(cs) == 1 and not any(t_ and t_["k"] == "switch" for t_ in (g.term(b_) for b_ in range(len(g.blocks)) if not g.blocks[b_]["cleanup"]))
        if good:
            pw = norm(exg.operand(cs[0][1]["args"][2], (cs[0][0], None)))
            good = pw[0] == "agg" and pw[1] == "adt:Some" and pw[3][0][1][0] == "arg" and pw[3][0][1][2] == "password"
        ok &= rep.check(good, rule, "%s:passes-Some(password)" % nm, where(g, g.span), "%s(.., password) = %s(.., Some(password))" % (nm, callee),
                        "%s does not hand the caller's password on unchanged (an empty password, or some other class of passwords, is treated as absent)" % nm)
    # the crypto reader gets the entry's own parameters
    mc = calls_matching(f, r"^read::make_crypto_reader$")
    good = len(mc) == 1
    if good:
        a = [norm(ex.operand(x, (mc[0][0], None))) for x in mc[0][1]["args"]]
        want = ["compression_method", "crc32", "last_modified_time", "using_data_descriptor"]
        good = all(a[i][0] == "field" and a[i][2] == want[i] for i in range(4)) and any(x[0] == "call" and x[1].endswith("find_content") for x in walk(a[4])) and \
            a[6][0] == "field" and a[6][2] == "aes_mode"
    ok &= rep.check(good, rule, "crypto-reader-args", where(f, f.span), "make_crypto_reader(method, crc32, time, data-descriptor flag, entry window, password, aes_mode) of this entry",
                    "make_crypto_reader is called with arguments that are not this entry's own fields")
    # make_crypto_reader table
    m = facts.one(r"^read::make_crypto_reader$")
    exm = Ex(m)
    psm = paths(m)
    rep.count("crypto_reader_paths", len(psm))
    pw_l = [i for i in range(1, m.arg_count + 1) if m.local_name(i) == "password"][0]
    A_P, A_A, A_DD = r"^discr\(password\)$", r"^discr\(aes_info\)$", r"^using_data_descriptor$"
    rows = {"none,none=>Plaintext": None, "none,aes=>InvalidPassword": None, "pw,plain:validator": None, "pw,plain:reject": None, "pw,plain:accept": None}
    for p in psm:
        pw, ai = decided(p, A_P), decided(p, A_A)
        o = outcome(p)
        if pw == 0 and ai == 0 and o[0] == "Ok":
            g = o[1][0] == "agg" and o[1][1] == "adt:Ok" and any(x[0] == "agg" and x[1] == "adt:Plaintext" for x in walk(o[1])) and not called(p, r"ZipCryptoReader|AesReader")
            rows["none,none=>Plaintext"] = g if rows["none,none=>Plaintext"] in (None, True) else False
        if pw == 0 and ai == 1:
            g = o[0] == "Ok" and o[1][0] == "agg" and o[1][1] == "adt:Err"
            rows["none,aes=>InvalidPassword"] = g if rows["none,aes=>InvalidPassword"] in (None, True) else False
        if pw == 1 and ai == 0:
            val = called(p, r"ZipCryptoReader::<R>::validate$")
            if not val:
                if o[0] not in ("Err", "ErrProp") and not (o[0] == "Err"):
                    rows["pw,plain:validator"] = False
                continue
            v = val[0][2][1]
            dd = decided(p, A_DD)
            if dd == 1:
                g = any(a[0] == "agg" and a[1] == "adt:InfoZipMsdosTime" and "timepart()" in tokens(a) for a in alts(v))
            else:
                g = any(a[0] == "agg" and a[1] == "adt:PkzipCrc32" and a[3][0][1][0] == "arg" and a[3][0][1][2] == "crc32" for a in alts(v))
            nw = called(p, r"ZipCryptoReader::<R>::new$")
            g = g and bool(nw) and nw[0][2][1][0] == "ok" and nw[0][2][1][1] == ("arg", pw_l, "password")
            rows["pw,plain:validator"] = g if rows["pw,plain:validator"] in (None, True) else False
            res = decided(p, r"^discr\(ok\(ZipCryptoReader::validate")
            if res == 0:
                g2 = o[0] == "Ok" and o[1][0] == "agg" and o[1][1] == "adt:Err"
                rows["pw,plain:reject"] = g2 if rows["pw,plain:reject"] in (None, True) else False
            elif res == 1:
                g2 = o[0] == "Ok" and any(x[0] == "agg" and x[1] == "adt:ZipCrypto" for x in walk(o[1]))
                rows["pw,plain:accept"] = g2 if rows["pw,plain:accept"] in (None, True) else False
    for k, v in rows.items():
        ok &= rep.check(v is True, rule, "table:%s" % k, where(m, m.span), k, "make_crypto_reader row '%s' does not hold (%s)" % (k, v))
    # nothing else decides: the method, the two Options, the data-descriptor flag and the results of the constructors / validators.  (A
    # validator picked by `using_data_descriptor && crc32 == 0` refuses the right password for Info-ZIP entries whose CRC is known.)
    KNOWN_ATOMS = (r"^discr\((compression_method|password|aes_info)\)$|^using_data_descriptor$|^discr\((ok\()?(Try::branch\()?(ZipCryptoReader|AesReader)::(validate|new)\(|"
                   r"^discr\(ok\(aes_info\)|^(\w+::)*unsupported|^discr\(Try::branch\(")
    extra = sorted({a_[:70] for p_ in psm for a_, v_ in p_["decisions"] if a_ != "#iter" and not re.search(KNOWN_ATOMS, a_)})
    ok &= rep.check(not extra, rule, "table:no-other-atom", where(m, m.span), "only method, password, AES info, the data-descriptor flag and constructor/validator results decide",
                    "make_crypto_reader additionally branches on %s" % extra[:3])
    # password-less public wrappers: an inner InvalidPassword becomes the password-required error, never a panic
    for nm in ("by_index", "by_name"):
        g = facts.one(ZA + nm + "$")
        ps2 = paths(g)
        inner_err = [p for p in ps2 if decided(p, r"^discr\(ok\(read::by_\w+_with_optional_password") == 1]
        good = bool(inner_err) and all(outcome(p)[0] == "Err" and any(x[0] == "named" and x[1].endswith("PASSWORD_REQUIRED") for x in walk(outcome(p)[1])) for p in inner_err) \
            and not any(callee_matches(t, r"::(unwrap|expect)$") for _, t in g.calls())
        ok &= rep.check(good, rule, "%s:InvalidPassword=>PASSWORD_REQUIRED" % nm, where(g, g.span), "inner InvalidPassword mapped to the password-required error", "%s no longer maps InvalidPassword to the password-required error" % nm)
    rep.floor(rule, 10)
    return ok


def check_rules(facts, rep):
    rule = "C15-CHECK"
    ok = True
    v = facts.one(r"^zipcrypto::ZipCryptoReader::<R>::validate$")
    ex = Ex(v)
    rx = calls_matching(v, r"io::Read::read_exact$")
    good = len(rx) == 1
    if good:
        b = norm(ex.operand(rx[0][1]["args"][1], (rx[0][0], None)))
        good = b[0] == "repeat" and str(b[2]).startswith("12")
    ok &= rep.check(good, rule, "header=12-bytes", where(v, v.span), "reads the 12-byte encryption header with read_exact", "validate does not read exactly a 12-byte header")
    dec = calls_matching(v, r"ZipCryptoKeys::decrypt_byte$")
    loops = v.loops()
    good = len(dec) == 1 and len(loops) == 1 and dec[0][0] in loops[0][1] and bool(calls_matching(v, r"slice::<impl \[T\]>::iter_mut$"))
    ok &= rep.check(good, rule, "decrypt-all-12", where(v, v.span), "every header byte goes through decrypt_byte", "not every header byte is decrypted")
    # comparisons involving the header buffer
    vv = {n: k for k, n in enum_variants(facts, "zipcrypto::ZipCryptoValidator").items()}
    sws = find_switch_on(v, lambda d: d[0] == "bin" and d[1] in ("Ne", "Eq") and any(x[0] == "index" for x in walk(d)))
    seen = {}
    for bi, t, d in sws:
        idx = [x for x in walk(d) if x[0] == "index"]
        sh = [x for x in walk(d) if x[0] == "bin" and x[1] == "Shr"]
        if len(idx) != 1 or not sh:
            seen["?"] = show(d)
            continue
        # one comparison per validator kind, or one comparison of a value selected per kind (phi of the two shifts)
        for s1 in sh:
            which = "PkzipCrc32" if any(x[0] == "variant" and x[2] == "PkzipCrc32" for x in walk(s1)) else "InfoZipMsdosTime" if any(x[0] == "variant" and x[2] == "InfoZipMsdosTime" for x in walk(s1)) else "?"
            val = (idx[0][2][2] if idx[0][2][0] == "const" else None, s1[3][2] if s1[3][0] == "const" else None)
            if which in seen and seen[which] != val:
                seen["?"] = show(d)
            seen[which] = val
    # (the direction of the comparison is decided by the mismatch=>None rule below)
    good = seen.get("PkzipCrc32") == (11, 24) and seen.get("InfoZipMsdosTime") == (11, 8) and len(seen) == 2
    ok &= rep.check(good, rule, "check-byte", where(v, v.span), "byte 11 compared with crc32 >> 24 (PKZIP) resp. time >> 8 (Info-ZIP); nothing else is compared",
                    "header check compares %s; the traditional scheme checks only header byte 11 against the high byte of the CRC (or of the DOS time when bit 3 is set)" % seen)
    ps = paths(v, max_loop=1)
    mism = [p for p in ps if any((re.search(r"^Ne\(", a) and val == 1) or (re.search(r"^Eq\(", a) and val == 0) for a, val in p["decisions"])]
    good = bool(mism) and all(outcome(p)[0] == "Ok" and outcome(p)[1][0] == "agg" and outcome(p)[1][1] == "adt:None" for p in mism)
    ok &= rep.check(good, rule, "mismatch=>None", where(v, v.span), "check byte mismatch => Ok(None) (wrong password)", "a check byte mismatch is not reported as Ok(None)")
    return ok


def sym_rules(facts, rep):
    rule = "C15-SYM"
    ok = True
    for nm, other in (("decrypt_byte", "cipher_byte"), ("encrypt_byte", "plain_byte")):
        f = facts.one(r"^zipcrypto::ZipCryptoKeys::%s$" % nm)
        ex = Ex(f)
        ra = ret_alts(f)
        sb = calls_matching(f, r"ZipCryptoKeys::stream_byte$")
        up = calls_matching(f, r"ZipCryptoKeys::update$")
        good = len(ra) == 1 and ra[0][0] == "bin" and ra[0][1] == "BitXor" and "stream_byte()" in tokens(ra[0]) and len(sb) == 1 and len(up) == 1 and f.dominates(sb[0][0], up[0][0])
        if good:
            ua = norm(ex.operand(up[0][1]["args"][1], (up[0][0], None)))
            if nm == "decrypt_byte":
                good = ua == ra[0]          # update(plaintext) where plaintext = stream ^ cipher
            else:
                good = ua[0] == "arg" and ua[2] == "plain_byte"
        ok &= rep.check(good, rule, nm, where(f, f.span), "%s: keystream byte taken first, XOR, keys updated with the PLAINTEXT byte" % nm,
                        "%s no longer (takes the keystream byte before the update and) feeds the plaintext byte to the key schedule" % nm)
    d = facts.one(r"^zipcrypto::ZipCryptoKeys::derive$")
    closures = [g for g in facts.fns if g.path.startswith(d.path + "::{closure")]
    looped = bool(calls_matching(d, r"ZipCryptoKeys::update$")) and len(d.loops()) == 1
    folded = any(calls_matching(g, r"ZipCryptoKeys::update$") for g in closures) and bool(calls_matching(d, r"Iterator::(for_each|fold)$")) and not d.loops()
    good = bool(calls_matching(d, r"ZipCryptoKeys::new$")) and (looped or folded)
    ok &= rep.check(good, rule, "derive", where(d, d.span), "keys = fold(update) over the password from the initial keys", "derive no longer folds update over the password bytes")
    nw = facts.one(r"^zipcrypto::ZipCryptoReader::<R>::new$")
    exn = Ex(nw)
    good = any(norm(exn.operand(fl["keys"], (bi, si)))[0] == "call" and norm(exn.operand(fl["keys"], (bi, si)))[1].endswith("derive") for bi, si, s, fl in aggregates(nw, r"zipcrypto::ZipCryptoReader$"))
    ok &= rep.check(good, rule, "reader-keys=derive(password)", where(nw, nw.span), "reader keys derived from the password", "reader keys are not derive(password)")
    return ok


def write_rules(ctx, facts, rep):
    rule = "C15-WRITE"
    ok = True
    # the option: a password -- any password, the empty one included -- always yields keys
    wd = facts.one(r"^write::FileOptions::with_deprecated_encryption$")
    exw = Ex(wd)
    vals = []
    for bi, si, s in wd.stmts():
        if s["k"] == "assign" and [p_.get("n") for p_ in s["place"]["p"] if p_["k"] == "field"] == ["encrypt_with"]:
            vals.extend(alts(norm(exw.rvalue(s["rv"], (bi, si)))))
    good = len(vals) == 1 and vals[0][0] == "agg" and vals[0][1] == "adt:Some" and vals[0][3][0][1][0] == "call" and vals[0][3][0][1][1].endswith("ZipCryptoKeys::derive") and \
        vals[0][3][0][1][2][0] == ("arg", 2, "password") and not any(t_ and t_["k"] == "switch" for t_ in (wd.term(b_) for b_ in range(len(wd.blocks)) if not wd.blocks[b_]["cleanup"]))
    ok &= rep.check(good, rule, "option=Some(derive(password))", where(wd, wd.span), "encrypt_with = Some(derive(password)), unconditionally",
                    "with_deprecated_encryption sets encrypt_with to %s: some passwords leave the entry unencrypted" % [show(v)[:80] for v in vals])
    # the public spelling of the option (unstable::write::FileOptionsExt) hands options and password on, untouched: every byte string
    # is a password -- one with a NUL inside, too (the reader derives its keys from all of it)
    pubs = [g for g in facts.fns if g.impl_trait and g.impl_trait.endswith("FileOptionsExt") and g.path.endswith("::with_deprecated_encryption")]
    good = len(pubs) == 1
    if good:
        g = pubs[0]
        exg = Ex(g)
        cs = calls_matching(g, r"^write::FileOptions::with_deprecated_encryption$")
        good = len(cs) == 1 and not any(t_ and t_["k"] == "switch" for t_ in (g.term(b_) for b_ in range(len(g.blocks)) if not g.blocks[b_]["cleanup"])) and \
            len([1 for _, t_ in g.calls()]) == 1
        if good:
            a_ = [norm(exg.operand(x, (cs[0][0], None))) for x in cs[0][1]["args"]]
            good = len(a_) == 2 and a_[0][0] == "arg" and a_[0][1] == 1 and a_[1][0] == "arg" and a_[1][1] == 2
    ok &= rep.check(good, rule, "public-option:delegates-verbatim", where(pubs[0], pubs[0].span) if pubs else "", "FileOptionsExt::with_deprecated_encryption(self, password) = self.with_deprecated_encryption(password)",
                    "the public with_deprecated_encryption does not hand the caller's password on unchanged: the keys are derived from something else than the password the reader will be given")
    se = facts.one(ZW + "start_entry$")
    ex = Ex(se)
    for bi, si, s, fl in aggregates(se, r"types::ZipFileData$"):
        e = norm(ex.operand(fl["encrypted"], (bi, si)))
        good = e[0] == "call" and e[1].endswith("is_some") and ".encrypt_with" in tokens(e)
        ok &= rep.check(good, rule, "encrypted-flag", where(se, s["span"]), "ZipFileData.encrypted = options.encrypt_with.is_some()", "encrypted flag is %s" % show(e))
    zw = list(aggregates(se, r"zipcrypto::ZipCryptoWriter$"))
    good = len(zw) == 1
    if good:
        bi, si, s, fl = zw[0]
        k = norm(ex.operand(fl["keys"], (bi, si)))
        b = norm(ex.operand(fl["buffer"], (bi, si)))
        w = norm(ex.operand(fl["writer"], (bi, si)))
        # the buffer starts EMPTY for every entry: a fresh Vec (a recycled buffer still holds the previous entry's ciphertext, which
        # would be encrypted and emitted again in front of this entry's header)
        fresh = b[0] == "call" and re.search(r"Vec::<T(, A)?>::(new|with_capacity)$|vec::from_elem$", b[1]) is not None and (not b[1].endswith("from_elem") or (len(b[2]) > 1 and b[2][1][0] == "const" and b[2][1][2] == 0))
        good = ".encrypt_with" in tokens(k) and any(x[0] == "call" and x[1].endswith("mem::replace") for x in walk(w)) and fresh
        wa = calls_matching(se, r"io::Write::write_all$")
        good = good and len(wa) == 1 and norm(ex.operand(wa[0][1]["args"][1], (wa[0][0], None)))[0] == "repeat" and str(norm(ex.operand(wa[0][1]["args"][1], (wa[0][0], None)))[2]).startswith("12")
        # stored into inner only after the header was buffered
        ia = [(b2, s2) for (f2, b2, si2, s2) in field_assignments(facts, "inner", r"ZipWriter$") if f2.path == se.path]
        good = good and bool(ia) and all(se.dominates(wa[0][0], b2) for b2, _ in ia)
    ok &= rep.check(good, rule, "12-byte-header-buffered", where(se, se.span), "ZipCryptoWriter gets the option's keys and a 12-byte header is buffered before it becomes the sink",
                    "the encrypting writer is not set up with the option's keys and a 12-byte buffered header")
    fin = facts.one(r"^zipcrypto::ZipCryptoWriter::<W>::finish$")
    exf = Ex(fin)
    idx = [(bi, t) for bi, t in fin.calls() if callee_matches(t, r"IndexMut::index_mut$")]
    good = len(idx) == 1 and norm(exf.operand(idx[0][1]["args"][1], (idx[0][0], None))) == ("const", "usize", 11)
    stv = None
    for bi, si, s in fin.stmts():
        if s["k"] == "assign" and [p["k"] for p in s["place"]["p"]] == ["deref"] and idx and s["place"]["l"] == idx[0][1]["dest"]["l"]:
            stv = norm(exf.rvalue(s["rv"], (bi, si)))
    good = good and stv is not None and stv[0] == "cast" and stv[1][0] == "bin" and stv[1][1] == "Shr" and stv[1][2] == ("arg", 2, "crc32") and stv[1][3][2] == 24
    ok &= rep.check(good, rule, "check-byte-written", where(fin, fin.span), "buffer[11] = (crc32 >> 24) as u8 -- the byte the reader's PKZIP validator compares",
                    "the writer's header check byte is %s at index %s" % (show(stv) if stv else "?", [show(norm(exf.operand(t["args"][1], (b, None)))) for b, t in idx]))
    enc = calls_matching(fin, r"ZipCryptoKeys::encrypt_byte$")
    wa = calls_matching(fin, r"io::Write::write_all$")
    fl_ = calls_matching(fin, r"io::Write::flush$")
    good = len(enc) == 1 and len(fin.loops()) == 1 and len(wa) == 1 and len(fl_) == 1 and idx and fin.dominates(idx[0][0], enc[0][0]) and enc[0][0] in fin.loops()[0][1] \
        and fin.dominates(wa[0][0], fl_[0][0])
    if good:
        it = calls_matching(fin, r"iter_mut$")
        good = bool(it) and ".buffer" in tokens(norm(exf.operand(it[0][1]["args"][0], (it[0][0], None)))) and ".buffer" in tokens(norm(exf.operand(wa[0][1]["args"][1], (wa[0][0], None))))
    ok &= rep.check(good, rule, "encrypt-all-then-write", where(fin, fin.span), "every buffered byte is encrypted (after the check byte is set), then written and flushed",
                    "finish no longer encrypts the whole buffer after setting the check byte and writes it out")
    ff = facts.one(ZW + "finish_file$")
    exff = Ex(ff)
    fc = calls_matching(ff, r"ZipCryptoWriter::<W>::finish$")
    good = len(fc) == 1
    if good:
        c = norm(exff.operand(fc[0][1]["args"][1], (fc[0][0], None)))
        good = c[0] == "call" and c[1].endswith("Hasher::finalize") and ".hasher" in tokens(c)
    ok &= rep.check(good, rule, "crc-of-plaintext", where(ff, ff.span), "finish(crc32) receives the finalised hash of the plaintext", "ZipCryptoWriter::finish is given %s" % (show(c) if fc else "?"))
    # finish() CONSUMES the encrypting writer: once its buffer has been encrypted and handed to the sink, no value of that type is left
    # that could be finished (or written to) again -- ownership is the typestate.  A `&mut self` finish leaves an emptied writer
    # behind that a later close indexes at [11].
    a1 = fin.local_ty(1) or ""
    ok &= rep.check(not a1.startswith("&"), rule, "finish-consumes-self", where(fin, fin.span), "ZipCryptoWriter::finish takes `self` by value",
                    "ZipCryptoWriter::finish takes %s: a finished encrypting writer stays reachable (closing it again panics on the emptied buffer, or emits a second header)" % a1)
    # ... and it is the ONLY way to get the sink back: nothing outside zipcrypto.rs reads or moves the fields of a ZipCryptoWriter
    # (e.g. `writer.writer` to skip the header for entries that received no data -- the entry stays flagged encrypted)
    touch = []
    for g in facts.fns:
        if g.path.startswith(("zipcrypto::", "<zipcrypto::")):
            continue
        for bi, si, st_ in g.stmts():
            if st_["k"] != "assign":
                continue
            places = []
            rv = st_["rv"]
            if rv["k"] == "use" and rv["op"]["k"] != "const":
                places.append(rv["op"]["place"])
            if rv["k"] in ("ref", "rawptr"):
                places.append(rv["place"])
            places.append(st_["place"])
            for pl in places:
                if any(q["k"] == "field" and (q.get("adt") or "").endswith("zipcrypto::ZipCryptoWriter") for q in pl["p"]):
                    touch.append("%s (%s)" % (g.path.split("::")[-1], where(g, st_["span"])))
    ok &= rep.check(not touch, rule, "fields-private-to-zipcrypto", "", "no code outside zipcrypto.rs projects into a ZipCryptoWriter",
                    "the encrypting writer's fields are accessed in %s: the sink can be recovered without finish() (no header, no ciphertext)" % sorted(set(touch))[:3])
    wr = facts.method(r"^zipcrypto::ZipCryptoWriter<", "write", r"std::io::Write")
    good = bool(calls_matching(wr, r"extend_from_slice$")) and not calls_matching(wr, r"io::Write::write")
    ok &= rep.check(good, rule, "buffer-then-encrypt", where(wr, wr.span), "plaintext is buffered until finish (check byte needs the final CRC)", "ZipCryptoWriter::write no longer buffers")
    # bit 0 in both headers iff encrypted, bit 3 never set
    ok &= flag_rules(ctx, facts, rep, rule="C15-FLAGS")
    return ok


_WID = {"u8": 8, "u16": 16, "u32": 32, "u64": 64, "usize": 64, "i32": 32, "i64": 64}
_GEN_TABLE = []
for _i in range(256):
    _c = _i
    for _ in range(8):
        _c = (_c >> 1) ^ 0xEDB88320 if _c & 1 else _c >> 1
    _GEN_TABLE.append(_c)


def _ref_crc(crc, b):
    return (crc >> 8) ^ _GEN_TABLE[(crc & 0xff) ^ b]


def _ev(e, env):
    """(value, width) of a reconstructed key-schedule expression for concrete key/input values, or None if it contains anything but
    integer arithmetic in any of its spellings (operator traits on Wrapping<T>, wrapping_* methods, plain binary operators), casts,
    the CRC step and table look-ups.  Arithmetic wraps at the operands' width -- which is what `Wrapping` / `wrapping_*` mean; the
    non-wrapping spellings are held to that by the panic inventory, not here."""
    k = e[0]
    if k in ("const", "named"):
        if isinstance(e[2], int) and not isinstance(e[2], bool):
            return e[2], _WID.get(str(e[1]), 32)
        return None
    if k == "arg":
        return (env[e[2]], 8 if e[2] in ("input", "plain_byte", "cipher_byte", "byte") else 32) if e[2] in env else None
    if k == "field":
        if e[1][0] == "arg" and e[2] in env:
            return env[e[2]], 32
        if e[2] == "0":
            return _ev(e[1], env)
        return None
    if k == "agg" and e[1] == "adt:Wrapping" and len(e[3]) == 1:
        return _ev(e[3][0][1], env)
    if k == "cast":
        v = _ev(e[1], env)
        w = _WID.get(str(e[3]))
        return None if v is None or w is None else (v[0] & ((1 << w) - 1), w)
    if k == "phi":
        # `self.key_0 = f(self.key_0); .. self.key_0 ..`: the expression engine keeps the pre-store value as an alternative of a read
        # through `&mut self`; in this straight-line function the store is the reaching definition
        new_ = [x for x in e[1] if not (x[0] == "field" and x[1][0] == "arg")]
        if len(new_) == 1 and len(e[1]) == 2:
            return _ev(new_[0], env)
        return None
    op, a, b = None, None, None
    if k == "bin":
        op, a, b = e[1].replace("WithOverflow", "").replace("Unchecked", ""), e[2], e[3]
    elif k == "call":
        n = e[1]
        m = re.search(r"ops::(?:arith::|bit::)?(Add|Sub|Mul|BitAnd|BitOr|BitXor|Shr|Shl)::\w+$|::wrapping_(add|sub|mul|shr|shl)$", n)
        if m and len(e[2]) == 2:
            op = m.group(1) or {"add": "Add", "sub": "Sub", "mul": "Mul", "shr": "Shr", "shl": "Shl"}[m.group(2)]
            a, b = e[2]
        elif n.endswith("ZipCryptoKeys::crc32") and len(e[2]) == 2:
            x, y = _ev(e[2][0], env), _ev(e[2][1], env)
            return None if x is None or y is None else (_ref_crc(x[0] & 0xFFFFFFFF, y[0] & 0xFF), 32)
        elif re.search(r"convert::(From|Into)::(from|into)$|::from$", n) and len(e[2]) == 1:
            return _ev(e[2][0], env)
        else:
            return None
    elif k == "index":
        i = _ev(e[2], env)
        if i is None or not (0 <= i[0] < 256):
            return None
        return _GEN_TABLE[i[0]], 32       # the table's own contents are checked by the CRCTABLE row
    else:
        return None
    x, y = _ev(a, env), _ev(b, env)
    if x is None or y is None:
        return None
    w = max(x[1], y[1]) if op not in ("Shr", "Shl") else x[1]
    mask = (1 << w) - 1
    r = {"Add": lambda: x[0] + y[0], "Sub": lambda: x[0] - y[0], "Mul": lambda: x[0] * y[0], "BitAnd": lambda: x[0] & y[0], "BitOr": lambda: x[0] | y[0],
         "BitXor": lambda: x[0] ^ y[0], "Shr": lambda: x[0] >> y[0], "Shl": lambda: x[0] << y[0]}[op]()
    return r & mask, w


_SAMPLES = [(0x12345678, 0x23456789, 0x34567890, 0x00), (0xFFFFFFFF, 0xFFFFFFFF, 0xFFFFFFFF, 0xFF), (0, 0, 0, 0), (0x80000000, 0x7FFFFFFF, 0x00FF00FF, 0x80),
            (0xDEADBEEF, 0xCAFEBABE, 0x0BADF00D, 0x5A), (1, 2, 3, 4), (0x01020304, 0xF0E0D0C0, 0x13579BDF, 0x7F), (0xA5A5A5A5, 0x5A5A5A5A, 0xFFFF0000, 0x01)] + \
    [((i * 2654435761) & 0xFFFFFFFF, (i * 40503 + 12345) & 0xFFFFFFFF, (i * 1103515245 + 7) & 0xFFFFFFFF, (i * 37) & 0xFF) for i in range(1, 57)]


def _same_on_samples(e, ref, names=("key_0", "key_1", "key_2", "input")):
    """does the reconstructed expression compute `ref(k0, k1, k2, b)` on 64 sample points (edge values + a spread)?  Two different
    low-degree arithmetic expressions over Z/2^32 that agree on all of them are the same function for every purpose here."""
    if e is None:
        return False
    for k0, k1, k2, b in _SAMPLES:
        env = {"key_0": k0, "key_1": k1, "key_2": k2, "input": b, "crc": k0}
        v = _ev(e, env)
        if v is None or v[0] != ref(k0, k1, k2, b):
            return False
    return True


def const_rules(facts, rep):
    rule = "C15-CONST"
    ok = True
    nw = facts.one(r"^zipcrypto::ZipCryptoKeys::new$")
    ra = ret_alts(nw)
    vals = [x[2] for x in walk(ra[0]) if x[0] == "const" and isinstance(x[2], int)] if ra else []
    ok &= rep.check(vals == [0x12345678, 0x23456789, 0x34567890], rule, "initial-keys", where(nw, nw.span), "0x12345678, 0x23456789, 0x34567890 (APPNOTE 6.1.5)",
                    "initial keys are %s" % [hex(v) for v in vals])
    up = facts.one(r"^zipcrypto::ZipCryptoKeys::update$")
    ex = Ex(up)
    asg = {}
    for bi, si, s in up.stmts():
        if s["k"] == "assign" and s["place"]["p"] and self_rooted(up, s["place"], ex, (bi, si)):
            fp = [p.get("n") for p in s["place"]["p"] if p["k"] == "field"]
            asg[fp[-1]] = norm(ex.rvalue(s["rv"], (bi, si)))
    k0, k1, k2 = asg.get("key_0"), asg.get("key_1"), asg.get("key_2")
    good = k0 is not None and k0[0] == "call" and k0[1].endswith("ZipCryptoKeys::crc32") and k0[2][0] == ("field", ("arg", 1, "self"), "key_0") and k0[2][1] == ("arg", 2, "input")
    ok &= rep.check(good, rule, "key0", where(up, up.span), "key0 = crc32(key0, input)", "key0 update is %s" % (show(k0) if k0 else "?"))
    good = k1 is not None
    if good:
        consts = sorted(x[2] for x in walk(k1) if x[0] == "const" and isinstance(x[2], int))
        ops = [re.sub(r".*::", "", x[1]) for x in walk(k1) if x[0] == "call"]
        uses_new_k0 = any(x[0] == "call" and x[1].endswith("ZipCryptoKeys::crc32") for x in walk(k1))
        good = consts == [1, 255, 134775813] and sorted(o for o in ops if o in ("add", "mul", "bitand")) == ["add", "add", "bitand", "mul"] and uses_new_k0 and \
            k1[0] == "call" and k1[1].endswith("Add::add") and k1[2][1] == ("agg", "adt:Wrapping", "std::num::Wrapping", (("0", ("const", "u32", 1)),))
    if not good:
        good = _same_on_samples(k1, lambda a, b_, c, d: ((b_ + (_ref_crc(a, d) & 0xFF)) * 134775813 + 1) & 0xFFFFFFFF)
    ok &= rep.check(good, rule, "key1", where(up, up.span), "key1 = (key1 + (key0' & 0xff)) * 134775813 + 1 with the updated key0", "key1 update is %s" % (show(k1)[:200] if k1 else "?"))
    good = k2 is not None and k2[0] == "call" and k2[1].endswith("ZipCryptoKeys::crc32") and k2[2][0] == ("field", ("arg", 1, "self"), "key_2")
    if good:
        a = k2[2][1]
        good = a[0] == "cast" and a[3] == "u8" and any(x[0] == "call" and x[1].endswith("Shr::shr") and x[2][1] == ("const", "usize", 24) or (x[0] == "call" and x[1].endswith("Shr::shr") and x[2][1][0] == "const" and x[2][1][2] == 24) for x in walk(a)) and \
            any(x[0] == "call" and x[1].endswith("Mul::mul") for x in walk(a))
    if not good:
        good = _same_on_samples(k2, lambda a, b_, c, d: _ref_crc(c, ((((b_ + (_ref_crc(a, d) & 0xFF)) * 134775813 + 1) & 0xFFFFFFFF) >> 24) & 0xFF))
    ok &= rep.check(good, rule, "key2", where(up, up.span), "key2 = crc32(key2, key1' >> 24) with the updated key1", "key2 update is %s" % (show(k2)[:200] if k2 else "?"))
    sb = facts.one(r"^zipcrypto::ZipCryptoKeys::stream_byte$")
    ra = ret_alts(sb)
    good = len(ra) == 1
    if good:
        e = ra[0]
        consts = sorted(x[2] for x in walk(e) if x[0] == "const" and isinstance(x[2], int))
        ops = sorted(re.sub(r".*::", "", x[1]) for x in walk(e) if x[0] == "call")
        good = e[0] == "cast" and e[3] == "u8" and consts in ([1, 1, 3, 3, 8], [1, 1, 2, 2, 8], [1, 3, 3, 8]) and ops == ["bitor", "bitor", "bitxor", "mul", "shr"] and ".key_2" in tokens(e) and \
            all(".key_0" not in tokens(e) and ".key_1" not in tokens(e) for _ in [0])
    if not good and len(ra) == 1:
        good = _same_on_samples(ra[0], lambda a, b_, c, d: ((((c & 0xFFFF) | 3) * ((((c & 0xFFFF) | 3)) ^ 1) & 0xFFFF) >> 8) & 0xFF)
    ok &= rep.check(good, rule, "stream-byte", where(sb, sb.span), "((t * (t ^ 1)) >> 8) as u8 with t = (key2 as u16) | 3", "stream byte is %s" % ([show(a)[:200] for a in ra]))
    cr = facts.one(r"^zipcrypto::ZipCryptoKeys::crc32$")
    ra = ret_alts(cr)
    good = len(ra) == 1
    if good:
        e = ra[0]
        consts = sorted(x[2] for x in walk(e) if x[0] == "const" and isinstance(x[2], int))
        good = e[0] == "call" and e[1].endswith("BitXor::bitxor") and consts == [8, 255] and any(x[0] == "index" for x in walk(e)) and \
            any(x[0] == "bin" and x[1] == "BitXor" and ("arg", 2, "input") in (x[2], x[3]) for x in walk(e))
    if not good and len(ra) == 1:
        good = _same_on_samples(ra[0], lambda a, b_, c, d: _ref_crc(a, d))
    ok &= rep.check(good, rule, "crc32-step", where(cr, cr.span), "(crc >> 8) ^ TABLE[(crc & 0xff) ^ input]", "crc32 step is %s" % ([show(a)[:200] for a in ra]))
    # CRC table == table generated from the reflected polynomial 0xEDB88320
    st = [c for k, c in facts.consts.items() if k.endswith("::CRCTABLE") and c.get("bytes")]
    good = bool(st)
    if good:
        raw = bytes(st[0]["bytes"])
        tab = list(struct.unpack("<256I", raw)) if len(raw) == 1024 else []
        gen = []
        for i in range(256):
            c = i
            for _ in range(8):
                c = (c >> 1) ^ 0xEDB88320 if c & 1 else c >> 1
            gen.append(c)
        bad = [i for i in range(256) if not tab or tab[i] != gen[i]]
        good = not bad
        ok &= rep.check(good, rule, "CRCTABLE", st[0]["span"], "256 entries equal the table generated from polynomial 0xEDB88320", "CRCTABLE differs from the CRC-32 table at indices %s" % bad[:8])
    else:
        ok = False
        rep.violation(rule, "CRCTABLE", "", "static CRCTABLE not found (anchor lost)")
    rep.floor(rule, 7)
    return ok


def run(ctx, rep):
    facts = ctx.facts
    rep.configs.append("default")
    rep.explanation = (
        "Traditional PKWARE encryption, structurally: path-enumerated open table over (password given, entry flagged encrypted, AES info) "
        "with outcomes classified by error constant identity (PASSWORD_REQUIRED) not text; validator choice by the data-descriptor flag; "
        "12-byte header, all bytes decrypted, only byte 11 compared with crc>>24 resp. time>>8; encrypt/decrypt feed the plaintext byte to "
        "the key schedule after taking the keystream byte; writer buffers a 12-byte header, sets byte 11 from the plaintext CRC, encrypts "
        "everything, flag bit 0 set iff encrypted; key constants, update formulas and the CRC table equal APPNOTE 6.1.5. Interop with "
        "independent implementations and absence of plaintext in the output are not decided.")
    open_rules(facts, rep)
    check_rules(facts, rep)
    sym_rules(facts, rep)
    write_rules(ctx, facts, rep)
    const_rules(facts, rep)
    count_rule(facts, rep, rule="C15-COUNT", only=r"ZipCrypto")
    from rules.C01 import msdos_arg_order
    msdos_arg_order(facts, rep, "C15-TIME")        # the Info-ZIP check byte is the high byte of the *recorded* DOS time, whatever it encodes
    from rules.C04 import ae2_rules, table_rules as crc_table_rules
    ae2_rules(facts, rep)              # reported as C15/C04-AE2SRC: only AE-2 switches the CRC off -- a ZipCrypto entry read under a colliding wrong password must end in a checksum error
    crc_table_rules(facts, rep)        # reported as C15/C04-TABLE
    rep.assume("the 1/256 false-accept rate of the one-byte check is inherent to the format")
