"""C08 -- archives beyond the 16/32-bit limits stay correct (ZIP64) (DESIGN.md §3 C08).

Decides: the thresholds are the format's (C08-THR); wherever the writer clamps a value into a 16/32-bit field it also emits the
64-bit value under exactly the condition under which readers look for it, in the specified order, and the reader consumes each
value iff its own slot holds the sentinel (C08-PAIR); the end-of-directory ZIP64 records are written whenever a clamped EOCD field
cannot hold its value and their contents/positions are right (C08-EOCD); the 4 GiB guards exist, are evaluated after accounting,
and poison the writer (C08-GUARD); the ZIP64 record tables equal APPNOTE (C08-Z64REC)."""
import re

from engine.codec import Codec
from rules.shared_zip64 import thr_rules, pair_rules, eocd_rules, guard_rules
from rules.shared_codec import writer_table, reader_table


def run(ctx, rep):
    facts = ctx.facts
    rep.configs.append("default")
    rep.explanation = (
        "ZIP64 structure from MIR: threshold constants and reader sentinels equal the format's; for each of the three central-header "
        "fields the 32-bit slot is min(v, 0xFFFFFFFF) and the 64-bit value is emitted iff v >= 0xFFFFFFFF (the condition under which a "
        "reader keyed on the sentinel consumes it), in APPNOTE order; the reader consumes each 64-bit value iff that field's own slot "
        "equals the sentinel; ZIP64 end record + locator are written on every path where a clamped EOCD field would not fit; the "
        "4 GiB guard in Write::write follows the accounting of the accepted bytes and closes the writer; record layouts equal "
        "APPNOTE 4.3.14/4.3.15. Behaviour at real >4 GiB sizes is a runtime matter and is not decided.")
    spec = ctx.spec("appnote.json")
    c = Codec(facts)
    thr_rules(ctx, facts, rep)
    pair_rules(ctx, facts, rep)
    eocd_rules(ctx, facts, rep)
    guard_rules(ctx, facts, rep)
    # a large_file entry's local header: its declared extra length must account for the 20-byte ZIP64 record (local/central siblings)
    from rules.C02 import sib_rules
    sib_rules(ctx, facts, rep)         # reported as C08/C02-SIB
    writer_table(facts, rep, "C08-Z64REC", facts.one(r"^spec::Zip64CentralDirectoryEnd::write$"), "Z64EOCD", spec, c)
    writer_table(facts, rep, "C08-Z64REC", facts.one(r"^spec::Zip64CentralDirectoryEndLocator::write$"), "Z64LOC", spec, c)
    reader_table(facts, rep, "C08-Z64REC", facts.one(r"^spec::Zip64CentralDirectoryEnd::find_and_parse$"), "Z64EOCD", spec, c)
    reader_table(facts, rep, "C08-Z64REC", facts.one(r"^spec::Zip64CentralDirectoryEndLocator::parse$"), "Z64LOC", spec, c)
    from rules.C03 import offset_rules
    offset_rules(facts, rep)           # reported as C08/C03-OFFSET: the ZIP64 locator is looked for where it lies (behind the comment-carrying end record)
    # the ZIP64 serialisers themselves cannot fail on a value that needs them: their panic-capable / buffer-capacity sites (the fixed
    # scratch buffer of the central ZIP64 record, index arithmetic) are part of this property's inventory
    from rules.shared_panic import panic_rule, is_write_root
    panic_rule(ctx, rep, "C08-PANIC", facts, is_write_root, only=lambda s_: re.search(r"zip64|write_central_directory_header|update_local_file_header|finalize", s_.key) is not None)
    rep.floor("C08-PAIR", 10)
    rep.floor("C08-EOCD", 12)
    rep.floor("C08-GUARD", 3)
    rep.floor("C08-THR", 4)
    rep.floor("C08-Z64REC", 25)
    rep.assume("independent parsers key the ZIP64 extended information on the 0xFFFFFFFF sentinel as APPNOTE 4.5.3 prescribes")
