"""C14 -- raw copy transfers an entry bit-exactly without recompression (DESIGN.md §3 C14).

Decides: the copied entry's header values come from the source's accessors (C14-META); its bytes come from the source's undecoded
reader through io::copy into a plain stored sink -- no compressor switch, no encryption option (C14-BYTES); the entry is closed
without recomputing CRC/sizes and the flag that says so is consumed by that close (C14-RAW = C01-PATCH guards); names (C14-NAME)."""
import re

from engine.expr import Ex, norm, show, walk, alts
from engine.mir import AnchorLost, callee_matches
from engine.query import self_rooted, calls_matching, where, aggregates, ret_alts
from rules.C01 import patch_rules, ZW
from rules.shared_codec import tokens
from rules.shared_zip64 import const_val


def meta_rules(facts, rep):
    rule = "C14-META"
    ok = True
    rc = facts.one(ZW + "raw_copy_file_rename$")
    ex = Ex(rc)
    ag = list(aggregates(rc, r"write::ZipRawValues$"))
    if not ag:
        raise AnchorLost("ZipRawValues in raw_copy_file_rename")
    bi, si, s, flds = ag[0]
    for fld, acc in (("crc32", "crc32"), ("compressed_size", "compressed_size"), ("uncompressed_size", "size")):
        v = norm(ex.operand(flds[fld], (bi, si)))
        good = v[0] == "call" and v[1] == "read::ZipFile::<'a>::%s" % acc and v[2][0][0] == "arg" and v[2][0][2] == "file"
        ok &= rep.check(good, rule, "raw:%s" % fld, where(rc, s["span"]), "%s = file.%s()" % (fld, acc), "raw value %s is taken from %s" % (fld, show(v)))
    se = calls_matching(rc, ZW + "start_entry$")
    if not se:
        raise AnchorLost("start_entry call in raw copy")
    rv = norm(ex.operand(se[0][1]["args"][3], (se[0][0], None)))
    ok &= rep.check(rv[0] == "agg" and rv[1] == "adt:Some", rule, "raw-values-passed", where(rc, se[0][1]["span"]), "start_entry(.., Some(raw_values))", "start_entry receives %s" % show(rv)[:60])
    opts = norm(ex.operand(se[0][1]["args"][2], (se[0][0], None)))
    toks = tokens(opts)
    calls = [x[1].split("::")[-1] for x in walk(opts) if x[0] == "call"]
    if not ({"last_modified_time", "compression_method", "large_file"} <= set(calls)):
        # not a builder chain (a struct literal with `..FileOptions::default()`, a helper returning the pair): decide the same table on
        # the options VALUE that reaches start_entry, field by field, on every path (E9)
        return _meta_by_value(facts, rep, rc, rule, ok, se)
    for setter, acc in (("last_modified_time", "last_modified()"), ("compression_method", "compression()"), ("large_file", "max()")):
        good = setter in calls and (acc in toks or setter == "large_file")     # (the predicate itself: C14-GUARD)
        ok &= rep.check(good, rule, "options:%s" % setter, where(rc, se[0][1]["span"]), "options.%s(file.%s)" % (setter, acc), "options.%s is not derived from the source entry" % setter)
    # ... on EVERY path that reaches start_entry (a setter applied only under a condition on the source's value -- "only if the
    # timestamp is valid", "only if the method is supported" -- makes the copy differ from its source exactly when the condition fails)
    from engine.paths import paths as _paths
    missing = set()
    np_ = 0
    for p in _paths(rc, max_paths=20000):
        names = [e[1].split("::")[-1] for e in p["effects"]]
        if "start_entry" not in names:
            continue
        np_ += 1
        before = names[:names.index("start_entry")]
        for setter in ("last_modified_time", "compression_method", "large_file"):
            if setter not in before:
                missing.add(setter)
    ok &= rep.check(np_ >= 1 and not missing, rule, "options:unconditional", where(rc, se[0][1]["span"]), "timestamp, method and large-file flag are copied on every path to start_entry",
                    "raw copy applies %s only on some paths: entries for which the condition fails get a default instead of the source's value" % sorted(missing))
    good = "unix_permissions" in calls and "unix_mode()" in toks
    ok &= rep.check(good, rule, "options:unix_permissions", where(rc, se[0][1]["span"]), "permissions copied when the source has a mode", "permissions are not copied from the source")
    bad = [c for c in calls if c in ("with_deprecated_encryption", "compression_level")]
    base = any(x[0] == "call" and x[1].endswith("FileOptions as std::default::Default>::default") or (x[0] == "call" and x[1].endswith("Default::default")) for x in walk(opts))
    ok &= rep.check(not bad and base, rule, "options:no-encryption-no-level", where(rc, se[0][1]["span"]), "options start from FileOptions::default(), no encryption, no level",
                    "raw copy options use %s" % (bad or "a non-default base"))
    # start_entry stores exactly the raw values
    st = facts.one(ZW + "start_entry$")
    exs = Ex(st)
    for b2, si2, s2, f2 in aggregates(st, r"types::ZipFileData$"):
        for fld in ("crc32", "compressed_size", "uncompressed_size"):
            v = norm(exs.operand(f2[fld], (b2, si2)))
            good = v[0] == "field" and v[2] == fld and any(x[0] == "call" and x[1].endswith("unwrap_or") for x in walk(v)) and "raw_values" in show(v)
            if not good:
                # the same default spelled as a match: Some(raw) => raw.<fld>, None => 0
                al = alts(v)
                fields = [a for a in al if a[0] == "field" and a[2] == fld and "raw_values" in show(a) and not any(x[0] == "call" for x in walk(a))]
                zeros = [a for a in al if a[0] == "const" and a[2] == 0]
                good = len(fields) == 1 and len(fields) + len(zeros) == len(al) and len(zeros) <= 1
            ok &= rep.check(good, rule, "start_entry:%s" % fld, where(st, s2["span"]), "%s initialised from raw_values (zero for ordinary entries)" % fld, "start_entry initialises %s from %s" % (fld, show(v)[:80]))
    rep.floor(rule, 11)
    return ok


def _meta_by_value(facts, rep, rc, rule, ok, se):
    from engine import sym
    res = sym.Sym(rc).run(lambda bb_, t_: (t_.get("callee") or "").endswith("::start_entry"))
    w = where(rc, se[0][1]["span"])

    def is_acc(v, acc):
        return v[0] == "call" and v[1] == "read::ZipFile::<'a>::%s" % acc and v[2] and v[2][0][0] in ("arg", "ref", "field") 

    bad = {}
    for r_ in res:
        o_ = r_["args"][2]
        for fld, acc in (("last_modified_time", "last_modified"), ("compression_method", "compression")):
            v = sym.field_of(o_, fld)
            if not is_acc(v, acc):
                bad.setdefault("options:" + fld, sym.show(v)[:80])
        lf = sym.field_of(o_, "large_file")
        if lf[0] == "field" or (lf[0] == "call" and "default" in lf[1]):
            bad.setdefault("options:large_file", sym.show(lf)[:80])
        pm = sym.field_of(o_, "permissions")
        asked = any("unix_mode" in sym.show(d_) for d_, _v in r_["state"].conds)
        if not any(x[0] == "call" and x[1].endswith("ZipFile::<'a>::unix_mode") for x in _walk_sym(pm)) and not (sym.is_none_agg(pm) and asked):
            bad.setdefault("options:unix_permissions", sym.show(pm)[:80])
        for fld in ("encrypt_with", "compression_level"):
            v = sym.field_of(o_, fld)
            if not (v[0] == "field" and v[1][0] == "call" and "default" in v[1][1]) and not (v[0] == "agg" and v[1] == "adt:None"):
                bad.setdefault("options:no-encryption-no-level", "%s = %s" % (fld, sym.show(v)[:60]))
        rvv = r_["args"][3]
        if not sym.is_some_agg(rvv):
            bad.setdefault("raw-values-passed", sym.show(rvv)[:60])
        else:
            pv = sym.payload(rvv)
            for fld, acc in (("crc32", "crc32"), ("compressed_size", "compressed_size"), ("uncompressed_size", "size")):
                v = sym.field_of(pv, fld)
                if not is_acc(v, acc):
                    bad.setdefault("raw:" + fld, sym.show(v)[:80])
    keys = ["raw:crc32", "raw:compressed_size", "raw:uncompressed_size", "raw-values-passed", "options:last_modified_time", "options:compression_method", "options:large_file",
            "options:unix_permissions", "options:no-encryption-no-level"]
    for k in keys:
        ok &= bool(rep.check(bool(res) and k not in bad, rule, k, w, "%s taken from the source entry on every path to start_entry" % k, "raw copy hands start_entry %s = %s" % (k, bad.get(k, "(start_entry not reached)"))))
    ok &= bool(rep.check(bool(res), rule, "options:unconditional", w, "decided on the value reaching start_entry on each of %d path(s)" % len(res), "start_entry is not reached"))
    st = facts.one(ZW + "start_entry$")
    exs = Ex(st)
    for b2, si2, s2, f2 in aggregates(st, r"types::ZipFileData$"):
        for fld in ("crc32", "compressed_size", "uncompressed_size"):
            v = norm(exs.operand(f2[fld], (b2, si2)))
            good = v[0] == "field" and v[2] == fld and any(x[0] == "call" and x[1].endswith("unwrap_or") for x in walk(v)) and "raw_values" in show(v)
            if not good:
                al = alts(v)
                fields = [a for a in al if a[0] == "field" and a[2] == fld and "raw_values" in show(a) and not any(x[0] == "call" for x in walk(a))]
                zeros = [a for a in al if a[0] == "const" and a[2] == 0]
                good = len(fields) == 1 and len(fields) + len(zeros) == len(al) and len(zeros) <= 1
            ok &= rep.check(good, rule, "start_entry:%s" % fld, where(st, s2["span"]), "%s initialised from raw_values (zero for ordinary entries)" % fld, "start_entry initialises %s from %s" % (fld, show(v)[:80]))
    rep.floor(rule, 11)
    return ok


def _walk_sym(v):
    yield v
    for x in v[1:]:
        if isinstance(x, tuple):
            if x and isinstance(x[0], str):
                yield from _walk_sym(x)
            else:
                for y in x:
                    if isinstance(y, tuple):
                        if y and isinstance(y[0], str):
                            yield from _walk_sym(y)
                        else:
                            for z in y:
                                if isinstance(z, tuple) and z and isinstance(z[0], str):
                                    yield from _walk_sym(z)


def nocodec_rules(facts, rep):
    """a raw copy moves bytes it does not interpret: nothing on its way (raw_copy_file_rename, the shared start_entry) may decide on
    the source's compression method -- an entry stored with a method this build cannot decode (LZMA, Deflate64, a disabled feature)
    is copied like any other.  (The method is interpreted only where a codec is needed: switch_to / make_reader.)"""
    from engine.paths import paths as _paths
    rule = "C14-NOCODEC"
    ok = True
    for pat in (ZW + "raw_copy_file_rename$", ZW + "start_entry$"):
        f = facts.one(pat)
        hits = set()
        for p in _paths(f, max_paths=20000):
            for a_, v_ in p["decisions"]:
                if a_ != "#iter" and re.search(r"^discr\([^()]*compression_method\)$|^discr\(ZipFile::compression\(|CompressionMethod as std::cmp::PartialEq|^PartialEq::eq\([^)]*compression", a_):
                    hits.add(a_[:70])
        ok &= rep.check(not hits, rule, "method-not-interpreted@%s" % f.path.split("::")[-1], where(f, f.span), "no branch on the compression method on the raw-copy path",
                        "%s branches on the compression method (%s): a source entry with a method the crate cannot decode is no longer copied verbatim" % (f.path.split("::")[-1], sorted(hits)[:2]))
    rep.floor(rule, 2)
    return ok


def bytes_rules(facts, rep):
    rule = "C14-BYTES"
    ok = True
    rc = facts.one(ZW + "raw_copy_file_rename$")
    ex = Ex(rc)
    cp = calls_matching(rc, r"^std::io::copy$")
    good = len(cp) == 1
    if good:
        src = norm(ex.operand(cp[0][1]["args"][0], (cp[0][0], None)))
        dst = norm(ex.operand(cp[0][1]["args"][1], (cp[0][0], None)))
        good = src[0] == "call" and src[1].endswith("ZipFile::<'a>::get_raw_reader") and dst[0] == "arg" and dst[1] == 1
    ok &= rep.check(good, rule, "io::copy(raw_reader, self)", where(rc, rc.span), "bytes moved by io::copy from the undecoded reader into the writer",
                    "the raw copy no longer moves the bytes with io::copy(file.get_raw_reader(), self) (short writes / decoding would alter the stream)")
    others = [t["callee"] for _, t in rc.calls() if callee_matches(t, r"switch_to$|io::Write::write$|io::Read::read$|make_reader$")]
    ok &= rep.check(not others, rule, "no-compressor-no-bare-io", where(rc, rc.span), "no compressor switch and no hand-written transfer loop", "raw copy calls %s" % others)
    se = calls_matching(rc, ZW + "start_entry$")
    good = bool(se and cp) and rc.dominates(se[0][0], cp[0][0])
    ok &= rep.check(good, rule, "entry-opened-before-copy", where(rc, rc.span), "start_entry()? before the copy", "copy before the entry is opened")
    gr = facts.one(r"^read::ZipFile::<'a>::get_raw_reader$")
    exg = Ex(gr)
    calls = [t["callee"].split("::")[-1] for _, t in gr.calls()]
    asg = [norm(exg.rvalue(s["rv"], (bi, si))) for bi, si, s in gr.stmts() if s["k"] == "assign" and [p.get("n") for p in s["place"]["p"] if p["k"] == "field"] == ["reader"]]
    good = "make_reader" not in calls and asg and all(a[0] == "agg" and a[1] == "adt:Raw" and a[3][0][1][0] == "call" and a[3][0][1][1].endswith("CryptoReader::<'a>::into_inner") for a in asg)
    ok &= rep.check(bool(good), rule, "get_raw_reader=Raw(into_inner)", where(gr, gr.span), "undecoded access: Raw(crypto_reader.into_inner()), no decoder",
                    "get_raw_reader builds %s" % [show(a)[:60] for a in asg])
    br = facts.one(r"^read::<impl read::zip_archive::ZipArchive<R>>::by_index_raw$")
    clo = facts.closures_of(br)
    good = any(any(s["rv"].get("variant") == "Raw" for _, _, s in c.stmts() if s["k"] == "assign" and s["rv"]["k"] == "agg") for c in clo + [br]) and \
        not any(callee_matches(t, r"make_reader$|make_crypto_reader$") for c in clo + [br] for _, t in c.calls())
    ok &= rep.check(good, rule, "by_index_raw=Raw(find_content)", where(br, br.span), "by_index_raw hands out the bounded raw window", "by_index_raw no longer builds a Raw reader over find_content")
    return ok


def raw_rules(facts, rep):
    rule = "C14-RAW"
    ok = True
    rc = facts.one(ZW + "raw_copy_file_rename$")
    cp = calls_matching(rc, r"^std::io::copy$")
    sets = []
    for bi, si, s in rc.stmts():
        if s["k"] == "assign" and self_rooted(rc, s["place"], None, (bi, si)):
            fp = [p.get("n") for p in s["place"]["p"] if p["k"] == "field"]
            if fp in (["writing_raw"], ["writing_to_file"]) and s["rv"]["k"] == "use" and s["rv"]["op"].get("v") is not None:
                sets.append((fp[0], int(s["rv"]["op"]["v"]), bi))
    for flag in ("writing_raw", "writing_to_file"):
        good = any(f == flag and v == 1 and cp and rc.dominates(b, cp[0][0]) for f, v, b in sets) and not any(f == flag and v == 0 for f, v, b in sets)
        ok &= rep.check(good, rule, "%s-before-copy" % flag, where(rc, rc.span), "%s := true before the bytes are copied" % flag,
                        "%s is not set before the copy (the close would recompute CRC/sizes from the compressed bytes / the write would be refused)" % flag)
    return ok


def name_rules(facts, rep):
    rule = "C14-NAME"
    f = facts.one(ZW + "raw_copy_file$")
    ex = Ex(f)
    cs = calls_matching(f, ZW + "raw_copy_file_rename$")
    good = len(cs) == 1
    if good:
        nm = norm(ex.operand(cs[0][1]["args"][2], (cs[0][0], None)))
        fl = norm(ex.operand(cs[0][1]["args"][1], (cs[0][0], None)))
        good = any(x[0] == "call" and x[1].endswith("ZipFile::<'a>::name") for x in walk(nm)) and fl[0] == "arg"
    ok = rep.check(good, rule, "raw_copy_file-keeps-name", where(f, f.span), "raw_copy_file(file) = raw_copy_file_rename(file, file.name())", "raw_copy_file passes a different name/entry")
    # ... for EVERY entry: no path of raw_copy_file opens the entry any other way (a "directories carry no data, add them the regular
    # way" special case replaces a slash-named entry that owns a stream by an empty stored one)
    from engine.paths import paths as _paths
    other = sorted({t_["callee"].split("::")[-1] for _, t_ in f.calls() if re.search(ZW, t_["callee"] + "$") and not t_["callee"].endswith("raw_copy_file_rename")})
    allp = [p_ for p_ in _paths(f, max_paths=5000) if p_["end"] == "return"]
    thru = all(any(e_[1].endswith("raw_copy_file_rename") for e_ in p_["effects"]) for p_ in allp if not any(a_ != "#iter" and "Try::branch" in a_ and v_ == 1 for a_, v_ in p_["decisions"]))
    ok &= rep.check(not other and thru and bool(allp), rule, "raw_copy_file-only-delegates", where(f, f.span), "every path of raw_copy_file goes through raw_copy_file_rename, no other opener",
                    "raw_copy_file also calls %s / has a path that does not copy raw" % other)
    return ok


def run(ctx, rep):
    facts = ctx.facts
    rep.configs.append("default")
    rep.explanation = (
        "Raw copy provenance from MIR: CRC/sizes/method/time/permissions/large_file of the new header are the source entry's accessors; "
        "the bytes are moved by io::copy from get_raw_reader() (which unwraps to the bounded Take, no decoder) into the writer while it is a "
        "plain stored sink; writing_raw is set before the copy and finish_file skips the CRC/size recomputation iff it is set, then clears "
        "it. Bit-equality for all sources follows from these given a readable source; it is not itself decided.")
    meta_rules(facts, rep)
    bytes_rules(facts, rep)
    nocodec_rules(facts, rep)
    raw_rules(facts, rep)
    name_rules(facts, rep)
    patch_rules(facts, rep, rule="C14-PATCH")
    from rules.shared_zip64 import guard_rules
    guard_rules(ctx, facts, rep, rule="C14-GUARD")
    # a raw copy's local header is written once and never patched: its field order is what a front-to-back reader sees
    from engine.codec import Codec
    from rules.shared_codec import writer_table
    writer_table(facts, rep, "C14-LFH", facts.one(r"^write::write_local_file_header$"), "LFH", ctx.spec("appnote.json"), Codec(facts), tail_optional=("extra",))
    rep.floor("C14-LFH", 8)
    from rules.shared_typestate import typestate_rules
    typestate_rules(facts, rep, rule="C14-TSX")     # "neighbouring entries written normally before or after it are unaffected": the raw flag / accounting over all call sequences
    from rules.C13 import raw_rules as _raw13
    _raw13(facts, rep)                 # reported as C14/C13-RAW
    from rules.shared_zip64 import pair_rules
    pair_rules(ctx, facts, rep, rule="C14-Z64", side="both")   # a copy of a ZIP64-sized entry carries its sizes in the 64-bit slots they belong to
    from rules.C02 import limit_rules
    limit_rules(facts, rep)            # reported as C14/C02-LIMIT: a copy may be renamed to ANY valid name (up to 65535 bytes)
