"""C16 -- WinZip-AES entries decrypt correctly and tampering is detected (DESIGN.md §3 C16).

Decides: the AE-x parameters and key layout are the specification's (C16-CONST); the MAC is computed over the ciphertext before
decryption and verified on every path on which the last ciphertext byte is released (C16-MAC); the CTR keystream is continuous
across calls (C16-CTR); verifier mismatch and missing password are refused (C16-OPEN); the AE-x extra field layout (C16-EXTRA);
AE-1/AE-2 distinction reaches the checksum layer intact (C16-CRC = C04-ARGS/AE2SRC)."""
import re

from engine.expr import Ex, norm, show, walk, alts, canon
from engine.intervals import dominating_facts
from engine.mir import AnchorLost, callee_matches
from engine.paths import paths, decided, called, outcome
from engine.query import self_rooted, calls_matching, where, aggregates, ret_alts, find_switch_on, switch_arms, const_assigned_in, enum_variants
from rules.shared_codec import tokens
from rules.shared_count import count_rule
from rules import C03, C04


def cval(facts, suffix):
    cs = [k for k in facts.consts if k.endswith(suffix)]
    return int(facts.consts[cs[0]]["v"]) if cs and "v" in facts.consts[cs[0]] else None


def const_rules(facts, rep):
    rule = "C16-CONST"
    ok = True
    for nm, want in (("aes::PWD_VERIFY_LENGTH", 2), ("aes::AUTH_CODE_LENGTH", 10), ("aes::ITERATION_COUNT", 1000), ("aes_ctr::AES_BLOCK_SIZE", 16)):
        v = cval(facts, nm)
        ok &= rep.check(v == want, rule, nm.split("::")[-1], facts.consts.get(nm, {}).get("span", ""), "%s == %d (WinZip AE-x)" % (nm, want), "%s is %s, the specification says %d" % (nm, v, want))
    kl = facts.one(r"^types::AesMode::key_length$")
    names = enum_variants(facts, "types::AesMode")
    arms = switch_arms(kl, 0) if kl.term(0)["k"] == "switch" else {}
    got = {}
    for v, blocks in arms.items():
        cs = const_assigned_in(kl, blocks)
        if v != "otherwise" and len(cs) == 1:
            got[names.get(v)] = cs[0]
    ok &= rep.check(got == {"Aes128": 16, "Aes192": 24, "Aes256": 32}, rule, "key_length", where(kl, kl.span), "key lengths 16/24/32", "key_length table is %s" % got)
    sl = facts.one(r"^types::AesMode::salt_length$")
    ra = ret_alts(sl)
    good = len(ra) == 1 and ra[0][0] == "bin" and ra[0][1] == "Div" and ra[0][3] == ("const", "usize", 2) and "key_length()" in tokens(ra[0])
    ok &= rep.check(good, rule, "salt_length", where(sl, sl.span), "salt = key length / 2 (8/12/16)", "salt_length is %s" % [show(a) for a in ra])
    va = facts.one(r"^aes::AesReader::<R>::validate$")
    ex = Ex(va)
    pb = calls_matching(va, r"^pbkdf2::pbkdf2$")
    good = len(pb) == 1
    if good:
        ga = " ".join(pb[0][1].get("gargs") or [])
        a = [norm(ex.operand(x, (pb[0][0], None))) for x in pb[0][1]["args"]]
        good = "hmac::Hmac<sha1::" in ga.replace("Sha1Core", "") or ("Hmac" in ga and "Sha1" in ga)
        good = good and a[0] == ("arg", 2, "password") and "salt_length()" in tokens(a[1]) and a[2][0] == "const" and a[2][2] == 1000 and \
            a[3][0] == "call" and a[3][1].endswith("from_elem") and show(a[3][2][1]) in ("Add(Mul(2, AesMode::key_length(self.aes_mode)), 2)", "Add(Mul(AesMode::key_length(self.aes_mode), 2), 2)")
    ok &= rep.check(good, rule, "pbkdf2", where(va, va.span), "PBKDF2-HMAC-SHA1(password, salt, 1000) deriving 2*key + 2 bytes",
                    "key derivation changed: %s" % ([show(x)[:60] for x in a] if pb else "no pbkdf2 call"))
    # slices: [0..k] cipher key, [k..2k] MAC key, [len-2..] verifier
    cf = calls_matching(va, r"^aes::cipher_from_mode$")
    hm = calls_matching(va, r"Mac::new_from_slice$")
    ne = calls_matching(va, r"PartialEq::(ne|eq)$")
    good = bool(cf and hm and ne)
    if good:
        ck = norm(ex.operand(cf[0][1]["args"][1], (cf[0][0], None)))
        hk = norm(ex.operand(hm[0][1]["args"][0], (hm[0][0], None)))
        vr = norm(ex.operand(ne[0][1]["args"][1], (ne[0][0], None)))
        v0 = norm(ex.operand(ne[0][1]["args"][0], (ne[0][0], None)))
        # where in the derived buffer each piece lies, as (offset, length), evaluated for every key length the mode table can return
        from engine.panics import slice_span, subst, const_return_summaries, finite_calls
        from engine.intervals import Intervals
        summ = const_return_summaries(facts)
        spans = [slice_span(x) for x in (ck, hk, vr)]
        # the stored verifier: a zero-initialised 2-byte buffer (Vec or array, compared whole or through [..]) filled from the stream
        sp0 = slice_span(v0)
        v0ok = False
        if sp0 is not None:
            iv0 = Intervals(summ)
            v0ok = iv0.range_of(sp0[1], "usize") == (0, 0) and iv0.range_of(sp0[2], "usize") == (2, 2) and \
                (sp0[0][0] == "repeat" or (sp0[0][0] == "call" and sp0[0][1].endswith("from_elem")))
        good = all(sp is not None for sp in spans) and (v0ok or show(v0) in ("vec::from_elem(0, 2)", "[0; 2]"))
        if good:
            buf = norm(ex.operand(pb[0][1]["args"][3], (pb[0][0], None))) if pb else None
            good = all(sp[0] == buf or canon(sp[0]) == canon(buf) for sp in spans)
            fc = finite_calls([x for sp in spans for x in sp[1:]] + [buf], summ)
            ks = [c for c in fc if c[0] == "call" and c[1].endswith("key_length")]
            good = good and len(ks) == 1 and tuple(fc[ks[0]]) == (16, 24, 32)
            if good:
                for kv in fc[ks[0]]:
                    m = {ks[0]: ("const", "usize", kv)}
                    iv = Intervals(summ)
                    got = [(iv.range_of(subst(sp[1], m), "usize"), iv.range_of(subst(sp[2], m), "usize")) for sp in spans]
                    want = [((0, 0), (kv, kv)), ((kv, kv), (kv, kv)), ((2 * kv, 2 * kv), (2, 2))]
                    good = good and got == want
    ok &= rep.check(good, rule, "key-layout", where(va, va.span), "derived = cipher key [0..k] | MAC key [k..2k] | 2-byte verifier; verifier compared with the 2 bytes read after the salt",
                    "derived key material is split differently")
    # mode <-> cipher type pairing
    cm = facts.one(r"^aes::cipher_from_mode$")
    sw = find_switch_on(cm, lambda d: d[0] == "discr")
    good = bool(sw)
    if good:
        arms = switch_arms(cm, sw[0][0])
        for v, blocks in arms.items():
            nm = names.get(v)
            if nm is None:
                continue
            gas = [" ".join(t.get("gargs") or []) for b, t in cm.calls() if b in blocks and (t["callee"] or "").endswith("AesCtrZipKeyStream::<C>::new")]
            good = good and len(gas) == 1 and ("aes_ctr::" + nm) in gas[0]
    ok &= rep.check(good, rule, "mode-cipher-pairing", where(cm, cm.span), "Aes128/192/256 -> AesCtrZipKeyStream<Aes128/192/256>", "AesMode is paired with a cipher of another key size")
    # CTR: counter starts at 1, little endian u128, +1 per block
    nw = facts.one(r"^aes_ctr::AesCtrZipKeyStream::<C>::new$")
    exn = Ex(nw)
    for bi, si, s, fl in aggregates(nw, r"aes_ctr::AesCtrZipKeyStream$"):
        c = norm(exn.operand(fl["counter"], (bi, si)))
        p = norm(exn.operand(fl["pos"], (bi, si)))
        good = c == ("const", "u128", 1) and p[0] == "const" and p[2] == 16
        ok &= rep.check(good, rule, "ctr-init", where(nw, s["span"]), "counter = 1, keystream buffer empty (pos = 16)", "CTR stream starts with counter=%s pos=%s" % (show(c), show(p)))
    ci = facts.method(r"^aes_ctr::AesCtrZipKeyStream<", "crypt_in_place", r"aes_ctr::AesCipher")
    w = calls_matching(ci, r"WriteBytesExt::write_u128$")
    good = len(w) == 1 and any("LittleEndian" in g for g in (w[0][1].get("gargs") or []))
    if not w:
        # the same 16 bytes spelled `self.buffer = self.counter.to_le_bytes()`
        exci = Ex(ci)
        tl = calls_matching(ci, r"num::<impl u128>::to_le_bytes$")
        good = len(tl) == 1 and norm(exci.operand(tl[0][1]["args"][0], (tl[0][0], None))) == ("field", ("arg", 1, "self"), "counter") and \
            any(s_["k"] == "assign" and [q.get("n") for q in s_["place"]["p"] if q["k"] == "field"] == ["buffer"] and
                any(x[0] == "call" and x[1].endswith("to_le_bytes") for x in walk(norm(exci.rvalue(s_["rv"], (b_, i_)))))
                for b_, i_, s_ in ci.stmts())
    ok &= rep.check(good, rule, "ctr-little-endian", where(ci, ci.span), "counter block = u128 little endian", "counter block is not written as a little-endian u128")
    rep.floor(rule, 10)
    return ok


def mac_rules(facts, rep):
    rule = "C16-MAC"
    ok = True
    f = facts.method(r"^aes::AesReaderValid<", "read", r"std::io::Read")
    ex = Ex(f)
    ps = paths(f)
    rep.count("aes_read_paths", len(ps))
    A_REM = r"data_remaining"
    A_CT = r"constant_time_eq"
    # order of effects
    upd = calls_matching(f, r"Mac::update$")
    cr = calls_matching(f, r"AesCipher::crypt_in_place$")
    rd = [(b, t) for b, t in f.calls() if t.get("callee") == "std::io::Read::read"]
    good = len(upd) == 1 and len(cr) == 1 and len(rd) == 1 and f.dominates(rd[0][0], upd[0][0]) and f.dominates(upd[0][0], cr[0][0])
    ok &= rep.check(good, rule, "mac-before-decrypt", where(f, f.span), "read -> hmac.update(ciphertext) -> decrypt, in this order", "the MAC is no longer fed the ciphertext before decryption")
    # the comparison
    ct = calls_matching(f, r"constant_time_eq::constant_time_eq$")
    good = len(ct) == 1
    if good:
        a0 = norm(ex.operand(ct[0][1]["args"][0], (ct[0][0], None)))
        a1 = norm(ex.operand(ct[0][1]["args"][1], (ct[0][0], None)))
        r = dict(a0[2][1][3]) if a0[0] == "call" and a0[1].endswith("Index::index") and a0[2][1][0] == "agg" else {}
        good = "finalize_reset()" in tokens(a0) and ".hmac" in tokens(a0) and show(r.get("start", ("x",))) == "0" and r.get("end", ("",))[0] == "const" and r["end"][2] == 10 and \
            a1[0] == "repeat" and str(a1[2]).startswith("10")
        rx = calls_matching(f, r"io::Read::read_exact$")
        good = good and len(rx) == 1 and f.dominates(rx[0][0], ct[0][0])
    ok &= rep.check(good, rule, "mac-compare", where(f, f.span), "constant_time_eq(HMAC-SHA1-80 of the ciphertext, the 10 stored bytes)",
                    "the authentication code is not compared with constant_time_eq over all 10 bytes (a hand-rolled comparison can let differing codes pass)")
    # decision table over the paths
    for p in ps:
        o = outcome(p)
        # decisions on `data_remaining == 0`, normalised by the path engine to (expr, 0) / (expr, not-in (0,)): 1 = "is zero"
        rem = [(1 if v == 0 else 0) for a, v in p["decisions"] if re.search(A_REM, a) and not re.search(r"Try::branch|constant_time_eq", a)]
        cte = decided(p, A_CT)
        if rem and rem[0] == 1:
            good = o[0] == "Ok" and o[1] == ("const", "usize", 0) and not p["effects"]
            ok &= rep.check(good, rule, "row:remaining==0-at-entry", where(f, f.span), "nothing left: Ok(0), no effect", "reads after the end of data have effects or return %s" % (o,))
            continue
        if o[0] == "Ok":
            # released data: either more remains (second test false) or the MAC compared equal
            last = len(rem) >= 2 and rem[1] == 1
            if last:
                good = cte == 1 and bool(called(p, r"finalize_reset$")) and bool(called(p, r"read_exact$"))
                ok &= rep.check(good, rule, "row:last-bytes-need-valid-mac", where(f, f.span), "the final bytes are released only after the MAC compared equal",
                                "a path releases the last ciphertext bytes without a successful MAC comparison: %s" % p["decisions"])
            else:
                good = len(rem) >= 2 and rem[1] == 0 and not called(p, r"finalize_reset$")
                ok &= rep.check(good, rule, "row:more-remains", where(f, f.span), "data remains: Ok(n), MAC untouched", "MAC finalised although data remains, or the remaining-test disappeared")
        elif o[0] == "Err":
            good = cte == 0
            ok &= rep.check(good, rule, "row:mac-mismatch=>Err", where(f, f.span), "MAC mismatch => Err(InvalidData)", "an error is raised on a path other than MAC mismatch: %s" % p["decisions"])
    # invariant behind `assert!(!finalized)`: finalized => data_remaining == 0 *in the object*.  The counter is stored before the MAC is
    # finalised (and so before any exit that follows): a counter kept in a local and written back only on the success exit leaves
    # finalized set with a stale non-zero counter when the MAC read/compare fails, and the next read() trips the assertion
    def field_stores(name):
        out = []
        for bi, si, s in f.stmts():
            if s["k"] == "assign" and [q.get("n") for q in s["place"]["p"] if q["k"] == "field"] == [name] and self_rooted(f, s["place"], None, (bi, si)):
                out.append((bi, si, s))
        return out
    rem_st = field_stores("data_remaining")
    fin_st = [x for x in field_stores("finalized") if x[2]["rv"]["k"] == "use" and x[2]["rv"]["op"]["k"] == "const" and int(x[2]["rv"]["op"]["v"]) == 1]
    fr = calls_matching(f, r"finalize_reset$")
    def before(a, b_bi, b_si):
        return (a[0] == b_bi and (b_si is None or a[1] < b_si)) or (a[0] != b_bi and f.dominates(a[0], b_bi))
    good = bool(rem_st) and bool(fin_st) and all(any(before(r_, x[0], x[1]) for r_ in rem_st) for x in fin_st) and \
        all(any(before(r_, b_, None) for r_ in rem_st) for b_, _ in fr)
    from rules.shared_typestate import aes_typestate_rules
    tsx_ok = bool(aes_typestate_rules(facts, rep, rule=rule))   # E6 on the reader object: every sequence of read() calls, failed ones included
    # (the structural form of the same invariant; when the code is shaped differently the state machine's verdict stands)
    ok &= rep.check(good or tsx_ok, rule, "counter-stored-before-finalize", where(f, f.span), "self.data_remaining is updated before finalized is set / the MAC is finalised",
                    "the remaining-bytes counter is written back after the MAC is finalised: a failing MAC read/compare leaves finalized set with "
                    "data_remaining != 0 and the next read() panics on assert!(!finalized)")
    atoms = {a for p in ps for a, v in p["decisions"] if a != "#iter"}
    extra = [a for a in atoms if not re.search(r"data_remaining|constant_time_eq|^discr\(Try::branch|finalized", a)]
    ok &= rep.check(not extra, rule, "atoms", where(f, f.span), "decisions depend only on: remaining == 0, MAC equal, I/O results, finalized", "AesReaderValid::read additionally branches on %s" % extra)
    rep.floor(rule, 6)
    ok &= tsx_ok
    return ok


def ctr_rules(facts, rep):
    rule = "C16-CTR"
    ok = True
    f = facts.method(r"^aes_ctr::AesCtrZipKeyStream<", "crypt_in_place", r"aes_ctr::AesCipher")
    ex = Ex(f)
    enc = calls_matching(f, r"BlockEncrypt::encrypt_block$")
    good = len(enc) == 1
    for b, t in enc:
        fs = dominating_facts(f, ex, b)
        g = any(x[0] == "Eq" and x[1][0] in ("field", "phi") and "pos" in show(x[1]) and x[2][0] == "const" and x[2][2] == 16 for x in fs)
        good = good and g
    ok &= rep.check(good, rule, "refill-iff-block-exhausted", where(f, f.span), "a new keystream block is generated only when the previous one is used up (pos == 16)",
                    "keystream blocks are generated on a path not guarded by pos == 16: leftover keystream of the previous call is discarded and the stream desynchronises")
    xr = calls_matching(f, r"^aes_ctr::xor$")
    good = len(xr) == 1
    if good:
        a1 = norm(ex.operand(xr[0][1]["args"][1], (xr[0][0], None)))
        good = a1[0] == "call" and a1[1].endswith("Index::index") and ".buffer" in tokens(a1) and ".pos" in tokens(a1)
    ok &= rep.check(good, rule, "xor-from-pos", where(f, f.span), "data is XOR-ed with buffer[pos .. pos + len]", "keystream bytes are not taken from buffer[pos..]")
    pos_up = []
    cnt_up = []
    for bi, si, s in f.stmts():
        if s["k"] == "assign" and self_rooted(f, s["place"], ex, (bi, si)):
            fp = [p.get("n") for p in s["place"]["p"] if p["k"] == "field"]
            if fp == ["pos"]:
                pos_up.append(norm(ex.rvalue(s["rv"], (bi, si))))
            if fp == ["counter"]:
                cnt_up.append(norm(ex.rvalue(s["rv"], (bi, si))))
    good = len(pos_up) == 2 and any(p == ("const", "usize", 0) for p in pos_up) and any(p[0] == "bin" and p[1] == "Add" and "min()" in tokens(p) for p in pos_up)
    ok &= rep.check(good, rule, "pos-updates", where(f, f.span), "pos := 0 on refill, pos += bytes used", "pos is updated as %s" % [show(p)[:60] for p in pos_up])
    good = len(cnt_up) == 1 and cnt_up[0][0] == "bin" and cnt_up[0][1] == "Add" and cnt_up[0][3] == ("const", "u128", 1)
    ok &= rep.check(good, rule, "counter+1", where(f, f.span), "counter += 1 per block", "counter is updated as %s" % [show(c)[:60] for c in cnt_up])
    x = facts.one(r"^aes_ctr::xor$")
    good = len(x.loops()) == 1 and bool(calls_matching(x, r"Iterator::zip$"))
    ok &= rep.check(good, rule, "xor-bytewise", where(x, x.span), "byte-wise XOR over the zipped slices", "xor helper changed shape")
    return ok


def open_rules(facts, rep):
    rule = "C16-OPEN"
    ok = True
    m = facts.one(r"^read::make_crypto_reader$")
    ps = paths(m)
    A_P, A_A = r"^discr\(password\)$", r"^discr\(aes_info\)$"
    rows = {"pw,aes:validate": None, "pw,aes:reject": None, "pw,aes:accept": None}
    for p in ps:
        if decided(p, A_P) == 1 and decided(p, A_A) == 1:
            o = outcome(p)
            nw = called(p, r"aes::AesReader::<R>::new$")
            va = called(p, r"aes::AesReader::<R>::validate$")
            if not nw:
                rows["pw,aes:validate"] = False
                continue
            a = nw[0][2]
            g = a[1][0] == "field" and a[1][2] == "0" and a[2][0] == "arg" and a[2][2] == "compressed_size"
            if va:
                g = g and va[0][2][1][0] == "ok" and va[0][2][1][1][0] == "arg" and va[0][2][1][1][2] == "password"
                rows["pw,aes:validate"] = g if rows["pw,aes:validate"] in (None, True) else False
                res = decided(p, r"^discr\(ok\(AesReader::validate")
                if res == 0:
                    g2 = o[0] == "Ok" and o[1][0] == "agg" and o[1][1] == "adt:Err"
                    rows["pw,aes:reject"] = g2 if rows["pw,aes:reject"] in (None, True) else False
                elif res == 1:
                    g2 = o[0] == "Ok" and any(x[0] == "agg" and x[1] == "adt:Aes" and dict(x[3]).get("vendor_version", ("",))[0] == "field" for x in walk(o[1]))
                    rows["pw,aes:accept"] = g2 if rows["pw,aes:accept"] in (None, True) else False
    # no password for an AES entry: refused with InvalidPassword on every such path -- never handed out as plaintext
    rows["nopw,aes:reject"] = None
    for p in ps:
        if decided(p, A_P) == 0 and decided(p, A_A) == 1:
            o = outcome(p)
            g = o[0] == "Ok" and o[1] is not None and o[1][0] == "agg" and o[1][1] == "adt:Err" and not called(p, r"AesReader|ZipCryptoReader")
            rows["nopw,aes:reject"] = g if rows["nopw,aes:reject"] in (None, True) else False
    for k, v in rows.items():
        ok &= rep.check(v is True, rule, "table:%s" % k, where(m, m.span), k, "make_crypto_reader row '%s' does not hold (%s)" % (k, v))
    va = facts.one(r"^aes::AesReader::<R>::validate$")
    psv = paths(va)
    mism = [p for p in psv if decided(p, r"^PartialEq::ne\(") == 1]
    good = bool(mism) and all(outcome(p)[0] == "Ok" and outcome(p)[1][0] == "agg" and outcome(p)[1][1] == "adt:None" for p in mism)
    eq = [p for p in psv if decided(p, r"^PartialEq::ne\(") == 0 and outcome(p)[0] == "Ok"]
    good = good and bool(eq) and all(any(x[0] == "agg" and x[1] == "adt:AesReaderValid" for x in walk(outcome(p)[1])) for p in eq)
    ok &= rep.check(good, rule, "verifier", where(va, va.span), "verifier mismatch => Ok(None) (wrong password); match => the validated reader", "password verifier handling changed")
    exv = Ex(va)
    for bi, si, s, fl in aggregates(va, r"aes::AesReaderValid$"):
        dr = norm(exv.operand(fl["data_remaining"], (bi, si)))
        fz = norm(exv.operand(fl["finalized"], (bi, si)))
        good = dr == ("field", ("arg", 1, "self"), "data_length") and fz == ("const", "bool", 0)
        ok &= rep.check(good, rule, "valid-reader-init", where(va, s["span"]), "data_remaining = data_length, not finalized", "validated reader starts with remaining=%s" % show(dr))
    nw = facts.one(r"^aes::AesReader::<R>::new$")
    exn = Ex(nw)
    CS = ("arg", 3, "compressed_size")
    def is_overhead(x):
        """x == 2 + 10 + salt_length(mode), however the literals are grouped or named"""
        while x[0] == "cast":
            x = x[1]
        terms, work = [], [x]
        while work:
            y = work.pop()
            while y[0] == "cast":
                y = y[1]
            if y[0] == "bin" and y[1] == "Add":
                work += [y[2], y[3]]
            else:
                terms.append(y)
        consts = [y[2] for y in terms if y[0] in ("const", "named") and isinstance(y[2], int)]
        rest = [y for y in terms if not (y[0] in ("const", "named") and isinstance(y[2], int))]
        return sum(consts) == 12 and len(rest) == 1 and rest[0][0] == "call" and rest[0][1].endswith("AesMode::salt_length")
    ags = list(aggregates(nw, r"aes::AesReader$"))
    good = len(ags) >= 1
    for bi, si, s_, fl in ags:
        dl = norm(exn.operand(fl["data_length"], (bi, si)))
        this = False
        inner = dl[1] if dl[0] == "ok" else None
        if inner is not None and inner[0] == "call" and re.search(r"Option::<T>::ok_or(_else)?$|Option::ok_or(_else)?$", inner[1]):
            inner = inner[2][0]
        if inner is not None and inner[0] == "call" and inner[1].endswith("checked_sub"):
            # checked form: compressed_size.checked_sub(overhead) with the None case turned into an error
            a0, a1 = inner[2][0], inner[2][1]
            this = a0 == CS and is_overhead(a1)
        elif dl[0] == "bin" and dl[1] == "Sub" and dl[2] == CS and is_overhead(dl[3]):
            # explicit form: `if compressed_size < overhead { return Err } ... compressed_size - overhead`
            want = show(canon(dl[3]))
            for x in dominating_facts(nw, exn, bi):
                if (x[0] == "Ge" and x[1] == CS and show(canon(x[2])) == want) or (x[0] == "Le" and x[2] == CS and show(canon(x[1])) == want):
                    this = True
        good = good and this
    ok &= rep.check(good, rule, "data-length", where(nw, nw.span), "data length = compressed size - (salt + 2 + 10), checked", "AES data length is not compressed_size.checked_sub(salt + verifier + MAC)")
    rep.floor(rule, 6)
    return ok


def run(ctx, rep):
    facts = ctx.facts
    rep.configs.append("default")
    rep.explanation = (
        "WinZip AE-1/AE-2 structure from MIR: constants (verifier 2, MAC 10, 1000 iterations, key/salt lengths), PBKDF2-HMAC-SHA1 generic "
        "arguments and the split of the derived material, mode<->cipher pairing, little-endian CTR starting at 1; path-enumerated table of "
        "AesReaderValid::read (nothing left => Ok(0); HMAC updated with the ciphertext before decryption; the last bytes are released only "
        "after constant_time_eq over the 10-byte code returned true; mismatch => Err); keystream refill only when the previous block is "
        "exhausted; open table for (password, AES info); AE-x extra-field layout; AE-2 exemption plumbing. Cryptographic strength of the "
        "primitives is not decided.")
    const_rules(facts, rep)
    mac_rules(facts, rep)
    ctr_rules(facts, rep)
    open_rules(facts, rep)
    C03.aes_extra_rules(ctx, facts, rep)
    C04.ae2_rules(facts, rep)
    C04.args_rules(facts, rep)
    C04.table_rules(facts, rep)        # reported as C16/C04-TABLE: the CRC is enforced for AE-1 and ignored (whatever the field holds) for AE-2
    count_rule(facts, rep, rule="C16-COUNT", only=r"AesReaderValid")
    rep.assume("aes, hmac, sha1, pbkdf2, constant_time_eq crates implement their primitives correctly")
