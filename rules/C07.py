"""C07 -- extract() writes nothing outside the target (confinement clause) (DESIGN.md §3 C07).

Decides: filesystem-mutating calls occur only in the two extractors (C07-WHO); every path handed to such a call derives from
base.join(p) with p the Some payload of the validated-path accessor of the entry being extracted, and a None result returns Err
before any such call (C07-PROV); the mode applied comes from the same entry's unix_mode() (C07-MODE); C07 depends on C06 (the
accessor itself is confining).  The second sentence of the property (tree reproduction) is not decided."""
import re

from engine.expr import Ex, norm, show, walk, alts
from engine.mir import AnchorLost, callee_matches
from engine.query import calls_matching, where
from engine.paths import paths, outcome
from rules.shared_codec import tokens
from rules import C06

FS_MUT = (r"^std::fs::(create_dir_all|create_dir|write|remove_file|remove_dir|remove_dir_all|rename|set_permissions|copy|hard_link|soft_link)$"
          r"|^std::fs::File::(create|create_new|options)$|^std::fs::OpenOptions::|^std::os::unix::fs::(symlink|chown|lchown|chroot)$"
          r"|^std::fs::DirBuilder::|^std::os::unix::fs::DirBuilderExt|^std::fs::File::(set_len|set_permissions)$")
EXTRACTORS = re.compile(r"ZipArchive<R>>::extract$|extract::Extractor<'_> as read::stream::ZipStreamVisitor>::(visit_file|visit_additional_metadata)$")


def path_arg(t):
    """index of the path argument of a filesystem-mutating call; None for builder steps that name no path"""
    c = t.get("callee") or ""
    if re.search(r"^std::fs::OpenOptions::open$|^std::fs::DirBuilder::create$", c):
        return 1
    if re.search(r"^std::fs::OpenOptions::|^std::fs::DirBuilder::|DirBuilderExt|^std::fs::File::options$|^std::fs::File::(set_len|set_permissions)$", c):
        return None
    return 0


def who_rules(facts, rep):
    rule = "C07-WHO"
    ok = True
    n = 0
    for f in facts.fns:
        for bi, t in f.calls():
            if callee_matches(t, FS_MUT):
                n += 1
                good = bool(EXTRACTORS.search(f.path))
                ok &= rep.check(good, rule, "%s@%s" % (t["callee"].split("::")[-1], f.path.split("::")[-1] if good else f.path), where(f, t["span"]),
                                "filesystem mutation inside an extractor", "filesystem-mutating call %s outside the extractors" % t["callee"])
    # ... and only with the three operations extraction needs.  Directory creation is `create_dir_all`: it succeeds when the
    # directory already exists (an archive may list a file before its directory, list a directory twice, or be extracted over an
    # earlier extraction), which `create_dir` / `DirBuilder` without `recursive` do not.  Nothing is removed, renamed or linked.
    IDEM = r"^std::fs::(create_dir_all|set_permissions)$|^std::fs::File::create$"
    for f in facts.fns:
        if not EXTRACTORS.search(f.path):
            continue
        other = sorted({t["callee"] for bi, t in f.calls() if callee_matches(t, FS_MUT) and not re.search(IDEM, t["callee"])})
        ok &= rep.check(not other, rule, "only-idempotent-creates@%s" % f.path.split("::")[-1], where(f, f.span),
                        "extractor mutates the filesystem only through create_dir_all / File::create / set_permissions",
                        "extractor %s also uses %s: not idempotent on an existing tree (a safe, consistent archive can now fail to extract) or destructive" % (f.path.split("::")[-1], other))
    rep.count("fs_mutating_sites", n)
    rep.floor(rule, 8, "create_dir_all x4, File::create x2, set_permissions x2")
    return ok


ENC = r"(ZipFile::<'a>|ZipStreamFileMetadata)::enclosed_name$"


def _validated_join(e, base_pred):
    """is e == Path::join(base, <the Some payload of <entry>.enclosed_name()>) (possibly behind parent()/Some payload)?  The payload is
    spelled `enclosed_name().ok_or(Err)?` or taken by a match on the Option.  returns (ok, entry_expr)"""
    for x in walk(e):
        if x[0] == "call" and x[1].endswith("Path::join") and len(x[2]) == 2:
            base, p = x[2]
            if not base_pred(base):
                continue
            if p[0] != "ok" or p[1][0] != "call":
                continue
            c = p[1]
            if c[1].endswith("Option::<T>::ok_or") and c[2][0][0] == "call" and re.search(ENC, c[2][0][1]):
                return True, c[2][0][2][0]
            if re.search(ENC, c[1]):
                return True, c[2][0]
    return False, None


def _walk_outside_entry(e):
    """walk an expression without descending into the argument of enclosed_name() (the entry itself may be any expression)"""
    yield e
    k = e[0]
    if k == "call":
        if e[1].endswith("enclosed_name"):
            return
        for a in e[2]:
            yield from _walk_outside_entry(a)
    elif k in ("field", "variant", "discr", "len", "cast", "ok", "err", "errprop", "residual"):
        yield from _walk_outside_entry(e[1])
    elif k == "agg":
        for _, a in e[3]:
            yield from _walk_outside_entry(a)
    elif k == "phi":
        for a in e[1]:
            yield from _walk_outside_entry(a)
    elif k == "bin":
        yield from _walk_outside_entry(e[2])
        yield from _walk_outside_entry(e[3])


def prov_rules(facts, rep):
    rule = "C07-PROV"
    ok = True
    for f in facts.fns:
        if not EXTRACTORS.search(f.path):
            continue
        ex = Ex(f)
        if "ZipArchive" in f.path:
            base_pred = lambda b: any(y[0] == "arg" and y[2] == "directory" for y in walk(b))
        else:
            base_pred = lambda b: b[0] == "field" and b[1][0] == "arg" and b[1][1] == 1
        entries = set()
        for bi, t in f.calls():
            if not callee_matches(t, FS_MUT):
                continue
            pa = path_arg(t)
            if pa is None or pa >= len(t["args"]):
                continue
            p = norm(ex.operand(t["args"][pa], (bi, None)))
            good, entry = _validated_join(p, base_pred)
            # only joins / parent-of-join / references may sit between the call and the join
            wrappers = [x[1] for x in _walk_outside_entry(p) if x[0] == "call" and not re.search(r"Path::join$|Path::parent$|Option::<T>::ok_or$|enclosed_name$|AsRef|Deref|Path::new$", x[1])]
            good = good and not wrappers
            if entry is not None:
                entries.add(show(entry))
            nm = t["callee"].split("::")[-1]
            ok &= rep.check(good, rule, "%s@%s" % (nm, f.path.split("::")[-1]), where(f, t["span"]),
                            "path = base.join(enclosed_name()?)%s" % (" (its parent)" if "parent" in show(p) else ""),
                            "%s is given %s -- not the target directory joined with the validated path of the entry "
                            "(an unsafe name would be written outside the target, or not refused)" % (nm, show(p)[:200]))
        ok &= rep.check(len(entries) <= 1, rule, "same-entry@%s" % f.path.split("::")[-1], where(f, f.span), "all paths derive from the entry being extracted",
                        "paths derive from different entries: %s" % sorted(entries))
        # a None from the accessor returns Err(InvalidArchive) and no filesystem call runs on such a path; on every path with a
        # filesystem call the accessor's answer was tested (and was Some) *before* the first such call of that iteration
        A_ENC = r"^discr\((Try::branch\(Option::ok_or\()?(ZipFile|ZipStreamFileMetadata)::enclosed_name\("
        ps = paths(f, max_loop=1)
        good = True
        n_rej = 0
        for p in ps:
            marks = [i for i, (a, v) in enumerate(p["decisions"]) if a == "#iter"]
            fs_pos = [pos for e_, pos in zip(p["effects"], p["epos"]) if re.search(FS_MUT, e_[1])]
            encs = [(v, pos, a) for (a, v), pos in zip(p["decisions"], p["dpos"]) if a != "#iter" and re.search(A_ENC, a)]
            # accept value: Continue (0) of `ok_or(..)?`, Some (1) of a match on the Option
            acc = [(pos, (v == 0) if "Try::branch" in a else (v == 1)) for v, pos, a in encs]
            iter_starts = [0] + [p["dpos"][i] for i in marks]
            for fp in fs_pos:
                start = max(x for x in iter_starts if x <= fp)
                mine = [ok_ for pos, ok_ in acc if start <= pos < fp]
                if not mine or not all(mine):
                    good = False
            rej = [pos for pos, ok_ in acc if not ok_]
            if rej:
                n_rej += 1
                o = outcome(p)
                # nothing touches the filesystem after the refusal, and the caller gets the error
                if any(fp > rej[0] for fp in fs_pos) or o[0] not in ("Err", "ErrProp") or \
                        not any(y[0] == "agg" and y[1] == "adt:InvalidArchive" for y in walk(o[1])):
                    good = False
        good = good and n_rej >= 1
        ok &= rep.check(good, rule, "refuse-before-write@%s" % f.path.split("::")[-1], where(f, f.span),
                        "the unsafe-name error is raised before any filesystem call", "a filesystem call can run before the name has been validated, or an unsafe name is not refused with InvalidArchive")
    rep.floor(rule, 11)
    return ok


def mode_rules(facts, rep):
    rule = "C07-MODE"
    ok = True
    n = 0
    for f in facts.fns:
        if not EXTRACTORS.search(f.path):
            continue
        ex = Ex(f)
        for bi, t in calls_matching(f, r"^std::fs::set_permissions$"):
            n += 1
            m = norm(ex.operand(t["args"][1], (bi, None)))
            good = m[0] == "call" and m[1].endswith("from_mode") and m[2][0][0] == "ok" and m[2][0][1][0] == "call" and m[2][0][1][1].endswith("::unix_mode")
            p = norm(ex.operand(t["args"][0], (bi, None)))
            ent_m = show(m[2][0][1][2][0]) if good else "?"
            ent_p = [show(x[2][0]) for x in walk(p) if x[0] == "call" and x[1].endswith("enclosed_name")]
            good = good and ent_p and ent_p[0] == ent_m
            ok &= rep.check(bool(good), rule, "set_permissions@%s" % f.path.split("::")[-1], where(f, t["span"]), "mode = unix_mode() of the entry whose path is chmod-ed",
                            "set_permissions applies %s to %s" % (show(m)[:100], show(p)[:100]))
            if "ZipArchive" in f.path:
                cp = calls_matching(f, r"^std::io::copy$")
                good = bool(cp) and bi in f.reach_from(cp[0][0])
                ok &= rep.check(good, rule, "mode-after-content", where(f, t["span"]), "permissions applied after the content is written", "permissions are applied before the content is written")
    # every extracted *file* whose entry records a Unix mode gets exactly that mode by an explicit chmod after the content was
    # written (a mode passed at open time is masked by the umask and ignored for a pre-existing file)
    za = [f for f in facts.fns if re.search(r"ZipArchive<R>>::extract$", f.path)]
    if za:
        f = za[0]
        ps = paths(f, max_loop=1)
        bad = 0
        nfile = 0
        for p in ps:
            cp = [pos for e_, pos in zip(p["effects"], p["epos"]) if re.search(r"^std::io::copy$", e_[1])]
            if not cp:
                continue
            has_mode = [v for (a, v), pos in zip(p["decisions"], p["dpos"]) if a != "#iter" and re.search(r"^discr\(ZipFile::unix_mode\(", a) and pos > cp[0]]
            sp = [pos for e_, pos in zip(p["effects"], p["epos"]) if re.search(r"^std::fs::set_permissions$", e_[1]) and pos > cp[0]]
            o = outcome(p)
            if o[0] != "Ok":
                continue        # an I/O error in between ends the extraction
            nfile += 1
            if has_mode == [1] and len(sp) != 1:
                bad += 1
            if not has_mode:
                bad += 1        # the recorded mode is not even consulted after writing a file
        # ... and so does every extracted DIRECTORY entry (a `continue` after create_dir_all skips the chmod: recorded 0700 comes out 0755)
        ndir = dbad = 0
        for p in ps:
            if outcome(p)[0] != "Ok":
                continue
            mk = [pos for e_, pos in zip(p["effects"], p["epos"]) if re.search(r"^std::fs::create_dir_all$", e_[1])]
            cp = [pos for e_, pos in zip(p["effects"], p["epos"]) if re.search(r"^std::io::copy$|^std::fs::File::create$", e_[1])]
            if not mk or cp:
                continue        # not a pure directory iteration
            ndir += 1
            has_mode = [v for (a, v), pos in zip(p["decisions"], p["dpos"]) if a != "#iter" and re.search(r"^discr\(ZipFile::unix_mode\(", a) and pos > mk[0]]
            sp = [pos for e_, pos in zip(p["effects"], p["epos"]) if re.search(r"^std::fs::set_permissions$", e_[1]) and pos > mk[0]]
            if not has_mode or (has_mode == [1] and len(sp) != 1):
                dbad += 1
        ok &= rep.check(ndir >= 1 and dbad == 0, rule, "dir-gets-mode", where(f, f.span), "after a directory entry is created, unix_mode() is consulted and Some(mode) => set_permissions",
                        "%d of %d directory-extracting paths do not apply the entry's recorded Unix mode" % (dbad, ndir))
        ok &= rep.check(nfile >= 1 and bad == 0, rule, "file-gets-mode", where(f, f.span), "after a file's content is written, unix_mode() is consulted and Some(mode) => set_permissions",
                        "%d of %d file-extracting paths do not apply the entry's recorded Unix mode with set_permissions after writing" % (bad, nfile))
    # the streaming extractor applies modes in its second phase (central directory): every entry whose metadata is delivered has its
    # recorded mode consulted, and Some(mode) => set_permissions -- whatever was or was not created in the first phase (a directory
    # that existed before its own entry was visited still gets its recorded mode)
    vm = [f for f in facts.fns if re.search(r"ZipStreamVisitor>::visit_additional_metadata$", f.path) and EXTRACTORS.search(f.path)]
    if vm:
        f = vm[0]
        ps = paths(f, max_loop=1)
        bad = nok = 0
        for p in ps:
            if outcome(p)[0] != "Ok":
                continue
            nok += 1
            has_mode = [v for (a, v) in p["decisions"] if a != "#iter" and re.search(r"^discr\(.*unix_mode\(", a)]
            sp = [e_ for e_ in p["effects"] if re.search(r"^std::fs::set_permissions$", e_[1])]
            if not has_mode or (has_mode == [1] and len(sp) != 1) or (has_mode == [0] and sp):
                bad += 1
        ok &= rep.check(nok >= 1 and bad == 0, rule, "metadata-gets-mode", where(f, f.span), "every delivered metadata record: unix_mode() consulted, Some(mode) => set_permissions",
                        "%d of %d successful paths of the streaming extractor's metadata phase do not apply the recorded Unix mode" % (bad, nok))
    rep.floor(rule, 3)
    return ok


def content_rules(facts, rep):
    rule = "C07-COPY"
    ok = True
    for f in facts.fns:
        if not EXTRACTORS.search(f.path) or f.path.endswith("visit_additional_metadata"):
            continue
        ex = Ex(f)
        cp = calls_matching(f, r"^std::io::copy$")
        cr = calls_matching(f, r"^std::fs::File::create$|^std::fs::OpenOptions::open$")
        good = len(cp) == 1 and len(cr) == 1
        if good:
            src = norm(ex.operand(cp[0][1]["args"][0], (cp[0][0], None)))
            dst = norm(ex.operand(cp[0][1]["args"][1], (cp[0][0], None)))
            good = any(x[0] == "call" and re.search(r"File::create$|OpenOptions::open$", x[1]) for x in walk(dst)) and \
                (any(x[0] == "call" and x[1].endswith("by_index") for x in walk(src)) or src[0] == "arg")
        if good and cr[0][1]["callee"].endswith("OpenOptions::open"):
            # a hand-assembled open must be what File::create is: write + create + truncate, no append -- otherwise the tail of a
            # longer pre-existing file survives and the extracted file is not the entry's content
            def flag(nm):
                cs = calls_matching(f, r"^std::fs::OpenOptions::%s$" % nm)
                return [norm(ex.operand(t2["args"][1], (b2, None))) for b2, t2 in cs if f.dominates(b2, cr[0][0])]
            tr, wr, ce, ap = flag("truncate"), flag("write"), flag("create"), calls_matching(f, r"^std::fs::OpenOptions::(append|create_new)$")
            T = ("const", "bool", 1)
            okopen = tr == [T] and wr == [T] and ce == [T] and not ap
            ok &= rep.check(okopen, rule, "truncating-open@%s" % f.path.split("::")[-1], where(f, cr[0][1]["span"]), "OpenOptions: write(true).create(true).truncate(true)",
                            "the output file is opened without truncation (write=%s create=%s truncate=%s): bytes of a longer pre-existing file survive "
                            "behind the extracted content" % ([show(x) for x in wr], [show(x) for x in ce], [show(x) for x in tr]))
        ok &= rep.check(good, rule, "copy@%s" % f.path.split("::")[-1], where(f, f.span), "content copied from the entry into the created file",
                        "extractor no longer copies the entry into the file it created")
        # directory vs file by trailing '/'
        ew = calls_matching(f, r"str>::ends_with$")
        good = bool(ew) and any(x[0] == "const" and x[2] == 47 for x in walk(norm(ex.operand(ew[0][1]["args"][1], (ew[0][0], None)))))
        ok &= rep.check(good, rule, "dir-by-slash@%s" % f.path.split("::")[-1], where(f, f.span), "directory entries are recognised by a trailing '/'", "directory decision changed")
        # every directory entry is created (an empty directory has no file that would create it as a parent), every file entry gets a file
        try:
            ps = paths(f, max_loop=1)
        except Exception:       # noqa: BLE001 -- too many paths: leave it to the structural rules above
            ps = None
        if ps is not None:
            nd = nf = bad = nopar = 0
            for p_ in ps:
                dec = [(i_, v_) for i_, (a_, v_) in enumerate(p_["decisions"]) if re.search(r"str>::ends_with\(|^str::ends_with\(|::is_dir\(", a_)]
                o0 = outcome(p_)
                if not dec or not (o0[0] == "Ok" or (o0[0] == "value" and len(o0) > 1 and isinstance(o0[1], tuple) and any(x_[0] == "call" and x_[1].endswith("fs::create_dir_all") for x_ in walk(o0[1])))):
                    continue            # (`return fs::create_dir_all(..).map_err(..)`: the creation's own result is the entry's result)
                names = [e_[1] for e_ in p_["effects"]]
                if dec[-1][1] == 1:
                    nd += 1
                    bad += not any(n_.endswith("fs::create_dir_all") for n_ in names)
                elif dec[-1][1] == 0:
                    nf += 1
                    bad += not any(re.search(r"fs::File::create$|OpenOptions::open$", n_) for n_ in names)
                    # ... inside a directory that exists: when the path has a parent, it is created first unless it was found to exist
                    par = [v_ for a_, v_ in p_["decisions"] if re.match(r"^discr\(.*Path::parent\(", a_)]
                    if par and par[-1] == 1:
                        exists = [v_ for a_, v_ in p_["decisions"] if re.search(r"Path::exists\(|Path::is_dir\(", a_)]
                        cr_i = [i_ for i_, n_ in enumerate(names) if re.search(r"fs::File::create$|OpenOptions::open$", n_)]
                        mk_i = [i_ for i_, n_ in enumerate(names) if n_.endswith("fs::create_dir_all")]
                        if not ((mk_i and cr_i and mk_i[0] < cr_i[0]) or (exists and exists[-1] == 1)):
                            bad += 1
                            nopar += 1
            ok &= rep.check(nd >= 1 and nf >= 1 and bad == 0, rule, "entry-materialised@%s" % f.path.split("::")[-1], where(f, f.span),
                            "on every successful path a directory entry is created with create_dir_all and a file entry gets its file",
                            "an entry can be passed over successfully without its directory / file (or the file's missing parent directory: %d paths) being created (%d directory paths, %d file paths, %d without the creation)" % (nopar, nd, nf, bad))
    return ok


def run(ctx, rep):
    facts = ctx.facts
    rep.configs.append("default")
    rep.explanation = (
        "Confinement from provenance: the crate's only filesystem-mutating call sites are the 8 in ZipArchive::extract and the streaming "
        "Extractor; at each, the path argument's reconstructed expression is base.join(p) (or its parent) with p = enclosed_name()? of the "
        "entry being extracted, so an unsafe name yields Err(InvalidArchive) before any filesystem call; modes come from the same entry's "
        "unix_mode(). The accessor's own confinement is C06 (re-evaluated here: C07 fails if C06's tables fail). Reproduction of the tree "
        "for consistent archives (second sentence of the property) is a runtime matter and is not decided.")
    who_rules(facts, rep)
    prov_rules(facts, rep)
    mode_rules(facts, rep)
    content_rules(facts, rep)
    from rules.C10 import drain_rules
    drain_rules(facts, rep)            # reported as C07/C10-DRAIN: the streaming extractor reaches the next entry only if drop() drained this one
    # dependency on C06
    ok6 = C06.enclosed_rules(facts, rep)
    if not ok6:
        rep.violation("C07-DEP-C06", "C06-tables", "", "the validated-path accessor's decision table fails (see C06-ENC instances): confinement of extract() rests on it")
    rep.assume("Path::join of a relative path with only Normal/CurDir/balanced ParentDir components stays lexically inside the base")
