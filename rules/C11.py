"""C11 -- I/O failures surface as errors, never as panics or wrong results (DESIGN.md §3 C11).

Decides: no I/O Result is silently dropped (C11-DROPRES); an error may be swallowed only when it cannot come from the caller's
stream (C11-SWALLOW); no panic is control-dependent on an I/O error and no unwrap/expect sits on an I/O Result (C11-ERRPANIC);
subtractions on stream positions are between positions taken in the same call, or checked (C11-POS); wherever the compressor is
taken out of the writer it is restored on every success path, otherwise the writer stays closed (C11-POISON)."""
import re

from engine.codec import Codec
from engine.expr import Ex, norm, show, walk, alts
from engine.intervals import dominating_facts
from engine.mir import AnchorLost, callee_matches
from engine.panics import enumerate_sites, discharge, const_return_summaries
from engine.paths import paths, outcome, PathExplosion
from engine.query import self_rooted, calls_matching, where, ret_alts
from rules.shared_panic import is_read_root, is_write_root

IO_RESULT = re.compile(r"^std::result::Result<.*(std::io::Error|result::ZipError)>$")
CONSUMERS = re.compile(r"ops::Try::branch$|Result::<T, E>::(map|map_err|and_then|or_else|unwrap_or|unwrap_or_else|unwrap_or_default|ok_or|is_ok_and)$|"
                       r"iter::Iterator|FromIterator|convert::From::from$|convert::Into::into$")
TESTERS = re.compile(r"Result::<T, E>::(is_ok|is_err|ok|err)$")
PANICKERS = re.compile(r"Result::<T, E>::(unwrap|expect|unwrap_err|expect_err)$")
# combinators that turn `Err(e)` into an ordinary value and forget e: a failed read becomes "0", a failed parse "the default"
DEFAULTERS = re.compile(r"Result::<T, E>::(unwrap_or|unwrap_or_default|unwrap_or_else|map_or|map_or_else|is_ok_and|is_err_and)$")

REVIEWED_DROPRES = {
    "write::<impl std::ops::Drop for write::zip_writer::ZipWriter<W>>::drop|write_fmt|discarded":
        "best-effort diagnostic on stderr inside Drop; a destructor cannot report it",
    "read::<impl read::zip_archive::ZipArchive<R>>::get_directory_counts|seek|tested":
        "ZIP64 locator probe at End(-(42+comment)): failure (negative position on a short file) means 'no locator', the expected outcome",
    "write::<impl write::zip_writer::ZipWriter<A>>::new_append|seek|discarded":
        "reposition onto the old directory: if it fails the sink is still right after the old central directory (nothing else touched the "
        "stream since it was parsed), new entries go after it and the new directory supersedes it -- entries and contents identical "
        "(demonstrated by findings/findings_demo.rs::f8). VOID if any stream operation is inserted between the parse and this seek "
        "(checked structurally by C11-DROPRES:new_append-seek-adjacent).",
}

REVIEWED_ERRPANIC = {
    "read::make_reader|unwrap|zstd::Decoder": "constructor fails only when the decompression context cannot be allocated, never on input or on the underlying stream",
    "write::GenericZipWriter::<W>::switch_to|unwrap|zstd::Encoder": "constructor fails only on allocation failure or an invalid level; the level was range-checked",
    "<aes_ctr::AesCtrZipKeyStream<C> as aes_ctr::AesCipher>::crypt_in_place|expect|write_u128": "write into the 16-byte in-memory block buffer cannot fail",
}


def _uses_of(fn, local, after=None):
    """(kind, bb, node) for every read of `local`"""
    out = []

    def opuses(op):
        return op["k"] in ("copy", "move") and op["place"]["l"] == local

    for bi, b in enumerate(fn.blocks):
        if b["cleanup"]:
            continue
        for si, s in enumerate(b["stmts"]):
            if s["k"] != "assign":
                continue
            rv = s["rv"]
            k = rv["k"]
            if k == "use" and opuses(rv["op"]):
                out.append(("copy", bi, s))
            elif k in ("ref", "rawptr", "discr") and rv["place"]["l"] == local:
                out.append((k, bi, s))
            elif k == "agg" and any(opuses(o) for o in rv["ops"]):
                out.append(("agg", bi, s))
            elif k == "cast" and opuses(rv["op"]):
                out.append(("copy", bi, s))
        t = b["term"]
        if t and t["k"] == "call":
            for ai, a in enumerate(t["args"]):
                if opuses(a):
                    out.append(("arg", bi, t))
        if t and t["k"] == "switch" and opuses(t["discr"]):
            out.append(("switch", bi, t))
    return out


def _events(fn, bi, local):
    """ordered events on `local` in block bi: 'use' (read / moved out / examined), 'def' (whole-place assignment, call destination),
    'kill' (drop terminator)"""
    ev = []
    b = fn.blocks[bi]

    def reads(op):
        return op["k"] in ("copy", "move") and op["place"]["l"] == local
    for s in b["stmts"]:
        if s["k"] != "assign":
            continue
        rv = s["rv"]
        k = rv["k"]
        used = (k in ("use", "cast") and reads(rv["op"])) or (k in ("ref", "rawptr", "discr", "len") and rv.get("place", {}).get("l") == local) or \
            (k == "agg" and any(reads(o) for o in rv["ops"])) or (k == "binop" and (reads(rv["a"]) or reads(rv["b"]))) or (k == "unop" and reads(rv["a"]))
        if used:
            ev.append("use")
        if s["place"]["l"] == local:
            ev.append("def" if not s["place"]["p"] else "use")
    t = b["term"]
    if t:
        if t["k"] == "call":
            if any(reads(a) for a in t["args"]):
                ev.append("use")
            if t["dest"]["l"] == local and not t["dest"]["p"]:
                ev.append("def")
        elif t["k"] == "switch" and reads(t["discr"]):
            ev.append("use")
        elif t["k"] == "drop" and t["place"]["l"] == local and not t["place"]["p"]:
            ev.append("kill")
        elif t["k"] == "return" and local == 0:
            ev.append("use")
    return ev


def overwritten_results(fn, chain_locals, def_sites):
    """I/O results that are replaced or destroyed before anything looked at them: from each site where a local of the chain receives
    the call's result, follow the CFG; a path that meets another definition of that local, or its drop, before any use is a result
    nobody examined (`r = write(a); r = write(b); r?` -- or the same across the back edge of a loop).  -> [(local, bb_def, bb_lost, how)]"""
    out = []
    for l, bdef in def_sites:
        ev = _events(fn, bdef, l)
        # position after the (last) def in the defining block
        idx = len(ev) - 1 - ev[::-1].index("def") if "def" in ev else -1
        rest = ev[idx + 1:]
        if rest:
            if rest[0] != "use":
                out.append((l, bdef, bdef, rest[0]))
            continue
        seen = set()
        work = [s_ for s_ in fn.succ(bdef) if not fn.blocks[s_]["cleanup"]]
        while work:
            b = work.pop()
            if b in seen:
                continue
            seen.add(b)
            e = _events(fn, b, l)
            if e:
                if e[0] != "use":
                    out.append((l, bdef, b, e[0]))
                continue
            work.extend(s_ for s_ in fn.succ(b) if not fn.blocks[s_]["cleanup"])
    return out


def erriter_rules(facts, rep):
    """a `Result` is also an iterator of zero or one items: handing I/O results to `flat_map` / `flatten` / `filter_map(Result::ok)`,
    or turning one into an `Option` with `.ok()` / `.err()`, makes the error items vanish without a trace (a failed read of a
    directory record becomes "one entry fewer").  The crate does none of this today; the count is zero and must stay zero."""
    rule = "C11-DROPRES"
    base = getattr(facts, "orig", facts)
    hits = []
    for f in base.fns:
        if not re.match(r"^(<)?(read|write|spec|types|aes|aes_ctr|crc32|zipcrypto|cp437|compression|result)::", f.path):
            continue
        for bi, t in f.calls():
            c = t.get("callee") or ""
            m = re.search(r"Iterator::(flat_map|flatten|filter_map|find_map|map_while)$|Result::<T, E>::(ok|err)$", c)
            if not m:
                continue
            what = m.group(1) or m.group(2)
            if what in ("ok", "err"):
                ety = " ".join(str(g) for g in (t.get("gargs") or []))
                a0 = t["args"][0] if t["args"] else None
                aty = (f.locals[a0["place"]["l"]].get("ty") if a0 and a0["k"] != "const" and not a0["place"]["p"] else (a0 or {}).get("ty")) or ""
                if re.search(r"io::Error|io::error::Error|ZipError", ety + " " + aty):
                    hits.append("%s: .%s() on %s" % (where(f, t["span"]), what, aty[:50]))
                continue
            # an adaptor whose closure yields a Result (or any adaptor over an iterator of Results)
            tys = " ".join([str(g) for g in (t.get("gargs") or [])] + [str(f.locals[a["place"]["l"]].get("ty")) for a in t["args"] if a["k"] != "const" and not a["place"]["p"]])
            clo = [a for a in t["args"][1:] if a["k"] != "const" and not a["place"]["p"]]
            rty = ""
            for a in clo:
                from engine.inline import _closure_of
                cp = _closure_of(f.raw, a["place"]["l"])
                cf = base.by_path.get(cp) if cp else None
                if cf is not None:
                    rty = cf.locals[0]["ty"] or ""
            if rty.startswith("std::result::Result<") or (what == "flatten" and "std::result::Result<" in tys):
                hits.append("%s: %s over %s" % (where(f, t["span"]), what, (rty or tys)[:60]))
    return rep.check(not hits, rule, "no-result-used-as-iterator-or-option", "", "no I/O result is flattened / filtered / turned into an Option",
                     "I/O results are silently discarded: %s" % hits[:3])


def dropres_rules(facts, rep, reach):
    rule = "C11-DROPRES"
    ok = True
    n = 0
    for f in facts.fns:
        if f.path not in reach or (f.impl_trait and f.impl_trait.startswith("std::fmt")):
            continue
        ex = Ex(f)
        for bi, t in f.calls():
            if t["dest"]["p"]:
                continue
            L = t["dest"]["l"]
            ty = f.locals[L]["ty"]
            if not IO_RESULT.match(ty) or L == 0:
                continue
            cal = t.get("callee") or "<indirect>"
            if CONSUMERS.search(cal) and not re.search(r"map_err$|map$|and_then$", cal):
                pass
            n += 1
            nm = re.sub(r"<[^<>]*>", "", re.sub(r"<[^<>]*>", "", cal)).split("::")[-1]
            # follow the value through plain copies / references
            seen = set()
            work = [L]
            kinds = []
            while work:
                l = work.pop()
                if l in seen:
                    continue
                seen.add(l)
                for (k, b2, node) in _uses_of(f, l):
                    if k in ("copy", "ref"):
                        dl = node["place"]["l"]
                        if dl == 0:
                            kinds.append("returned")
                        elif not node["place"]["p"]:
                            work.append(dl)
                        else:
                            kinds.append("stored")
                    elif k == "discr" or k == "switch":
                        kinds.append("matched")
                    elif k == "agg":
                        kinds.append("wrapped")
                    elif k == "arg":
                        c2 = node.get("callee") or ""
                        if DEFAULTERS.search(c2):
                            kinds.append("defaulted:" + c2.split("::")[-1])
                        elif TESTERS.search(c2):
                            kinds.append("tested:" + c2.split("::")[-1])
                        elif PANICKERS.search(c2):
                            kinds.append("unwrapped")
                        else:
                            kinds.append("passed")
            w = where(f, t["span"])
            handled = [k for k in kinds if k in ("returned", "matched", "wrapped", "passed", "stored", "unwrapped")]
            # flow-sensitive side condition: the value is looked at before the local that holds it is assigned again or dropped
            sites = [(L, bi)]
            for l2 in seen:
                if l2 == L:
                    continue
                for b2, blk in enumerate(f.blocks):
                    if blk["cleanup"]:
                        continue
                    for s2 in blk["stmts"]:
                        if s2["k"] == "assign" and s2["place"]["l"] == l2 and not s2["place"]["p"] and s2["rv"]["k"] == "use" and \
                                s2["rv"]["op"]["k"] in ("copy", "move") and s2["rv"]["op"]["place"]["l"] in seen and not s2["rv"]["op"]["place"]["p"]:
                            sites.append((l2, b2))
            # (an alias that receives the value after its discriminant was read -- the Err arm of a desugared `map_err(|_| ..)` drops the
            # old error there -- holds an examined result)
            exam = {b2 for l2 in seen for (k2, b2, _n) in _uses_of(f, l2) if k2 in ("discr", "switch")}
            dom_ = f.dominators()
            sites = [(l2, b2) for (l2, b2) in sites if l2 == L or not any(e_ in dom_[b2] for e_ in exam)]
            lost = overwritten_results(f, seen, sites) if handled else []     # (a result nobody ever looks at is judged below)
            if lost:
                l_, bd_, bl_, how_ = lost[0]
                ok = False
                rep.violation(rule, "%s|%s|overwritten" % (f.path, nm), w,
                              "the Result of %s is stored in `%s` and that variable is %s before anything examined it (bb%d -> bb%d): "
                              "a failure of all but the last such call is lost and the caller sees success" % (
                                  cal, f.local_name(l_) or "_%d" % l_, "assigned again" if how_ == "def" else "dropped", bd_, bl_))
                continue
            if handled:
                rep.ok(rule, "%s|%s@bb" % (f.path, nm), w, "result of %s is %s" % (nm, "/".join(sorted(set(handled)))), trivial=True)
                continue
            tested = [k for k in kinds if k.startswith("tested:")]
            dflt = [k for k in kinds if k.startswith("defaulted:")]
            if dflt:
                key = "%s|%s|defaulted" % (f.path, nm)
                if key in REVIEWED_DROPRES:
                    rep.reviewed(rule, key, w, "reviewed: " + REVIEWED_DROPRES[key])
                else:
                    ok = False
                    rep.violation(rule, key, w, "the Result of %s goes into %s(): an I/O failure here silently becomes an ordinary value (a default field, "
                                  "an empty list) and the call reports success with different content" % (cal, dflt[0].split(":")[1]))
                continue
            if tested:
                # converted to an error?  the failing edge must construct an Err
                conv = False
                if tested[0] == "tested:is_err":
                    for b2 in range(len(f.blocks)):
                        for x in dominating_facts(f, ex, b2):
                            if x[0] == "truth" and x[2] is True and x[1][0] == "call" and x[1][1].endswith("is_err") and len(x[1]) > 4:
                                if any(s["k"] == "assign" and s["place"]["l"] == 0 and s["rv"]["k"] == "agg" and s["rv"].get("variant") == "Err" for s in f.blocks[b2]["stmts"]):
                                    conv = True
                if conv:
                    rep.ok(rule, "%s|%s|converted" % (f.path, nm), w, "failure of %s is converted into an error return" % nm)
                    continue
                key = "%s|%s|tested" % (f.path, nm)
            else:
                key = "%s|%s|discarded" % (f.path, nm)
            if key in REVIEWED_DROPRES:
                rep.reviewed(rule, key, w, "reviewed: " + REVIEWED_DROPRES[key])
            else:
                ok = False
                rep.violation(rule, key, w, "the Result of %s is %s: an I/O failure here is silently ignored" % (
                    cal, "only tested (" + tested[0][7:] + ")" if tested else "discarded"))
    rep.count("io_results", n)
    # structural condition of the reviewed new_append entry
    na = facts.one(r"^write::<impl write::zip_writer::ZipWriter<A>>::new_append$")
    exn = Ex(na)
    seeks = calls_matching(na, r"io::Seek::seek$")
    disc = [(bi, t) for bi, t in seeks if not _uses_of(na, t["dest"]["l"])]
    if disc:
        sb = disc[-1][0]
        # between the directory parse (the collect / loop over central_header_to_zip_file) and this seek no other call touches the stream
        coll = [bi for bi, t in na.calls() if callee_matches(t, r"Iterator::collect$|central_header_to_zip_file$")]
        between = []
        if coll:
            cb = coll[-1]
            for bi, t in na.calls():
                if bi != sb and bi != cb and bi in na.reach_from(cb) and sb in na.reach_from(bi):
                    if callee_matches(t, r"io::(Seek|Read|Write)::|byteorder::|^spec::|^read::"):
                        between.append(t["callee"])
        good = bool(coll) and not between
        tgt = norm(exn.operand(disc[-1][1]["args"][1], (sb, None)))
        good = good and tgt[0] == "agg" and tgt[1] == "adt:Start" and any(x[0] == "call" and x[1].endswith("get_directory_counts") for x in walk(tgt))
        ok &= rep.check(good, rule, "new_append-seek-adjacent", where(na, disc[-1][1]["span"]),
                        "the ignored reposition directly follows the directory parse (stream is right after the old directory if it fails)",
                        "the ignored seek in new_append is no longer harmless: %s run(s) between the directory parse and it, so a failure leaves the "
                        "sink somewhere else and appended data overwrites existing entries while success is reported" % (between or "its target changed;"))
    rep.floor(rule, 150, "calls returning an I/O Result in READ/WRITE-reachable code")
    return ok


def swallow_rules(facts, rep, reach):
    """a match that lets ZipError::Io fall through silently is acceptable only for callees that cannot touch the caller's stream"""
    rule = "C11-SWALLOW"
    ok = True
    c = Codec(facts)
    n = 0
    for f in facts.fns:
        if f.path not in reach:
            continue
        ex = Ex(f)
        for bi, t in f.calls():
            L = t["dest"]["l"]
            if t["dest"]["p"] or not IO_RESULT.match(f.locals[L]["ty"]):
                continue
            tg = facts.local_targets(t)
            if not tg:
                continue
            # is the Err variant inspected and (partly) not propagated?  look for a switch on the discriminant of (dest as Err).0
            for sb, b in enumerate(f.blocks):
                tt = b["term"]
                if b["cleanup"] or not tt or tt["k"] != "switch":
                    continue
                d = norm(ex.operand(tt["discr"], (sb, None)))
                if d[0] == "discr" and d[1][0] == "err" and d[1][1][0] == "call" and len(d[1][1]) > 4 and d[1][1][4] == bi:
                    # which error variants fall through?  ZipError::Io has discriminant 0
                    from engine.query import switch_arms, enum_variants
                    zv = enum_variants(facts, "result::ZipError")
                    arms = switch_arms(f, sb)
                    errb = c._error_blocks(f)
                    swallowed = []
                    tvals = [v for v, _ in tt["targets"]]
                    def straight_to_error(b0):
                        seen_ = set()
                        b_ = b0
                        while b_ is not None and b_ not in seen_:
                            seen_.add(b_)
                            if b_ in errb:
                                return True
                            # the arm builds an Err value (possibly of an inlined helper, re-raised by the caller's `?`)
                            for st_ in f.blocks[b_]["stmts"]:
                                if st_["k"] == "assign" and st_["rv"]["k"] == "agg" and st_["rv"].get("ak") == "adt" and st_["rv"].get("variant") == "Err":
                                    return True
                                if st_["k"] == "assign" and st_["rv"]["k"] == "agg" and st_["rv"].get("ak") == "adt" and st_["rv"].get("variant") in ("Ok", "Some", "None"):
                                    return False
                            tb_ = f.term(b_)
                            if not tb_ or tb_["k"] in ("switch", "return"):
                                return False
                            sc_ = f.succ(b_)
                            b_ = sc_[0] if len(sc_) == 1 else None
                        return False
                    tmap = dict((v_, b_) for v_, b_ in tt["targets"])
                    tmap["otherwise"] = tt["otherwise"]
                    for v, blocks in arms.items():
                        propagates = straight_to_error(tmap[v])
                        if not propagates:
                            if v == "otherwise":
                                swallowed.extend(n_ for k_, n_ in zv.items() if k_ not in tvals)
                            else:
                                swallowed.append(zv.get(v, v))
                    if "Io" not in swallowed:
                        rep.ok(rule, "%s|%s|io-propagated" % (f.path, tg[0].split("::")[-1]), where(f, tt["span"]),
                               "error variants are distinguished but ZipError::Io is propagated (passes: %s)" % swallowed)
                        continue
                    n += 1
                    callee = facts.by_path[tg[0]]
                    streams = set()
                    for s in c.sequences(callee):
                        for e in s:
                            if e["kind"] in ("r", "rx", "w", "wa"):
                                streams.add(e["stream"])
                    params = {callee.local_name(i) for i in range(1, callee.arg_count + 1)}
                    external = [s for s in streams if s in params or not s.startswith("Cursor::new(")]
                    good = not external
                    ok &= rep.check(good, rule, "%s|%s" % (f.path, callee.path.split("::")[-1]), where(f, tt["span"]),
                                    "the error variants of %s are distinguished, and it only reads an in-memory cursor (%s): no stream error can be swallowed" % (callee.path, sorted(streams)),
                                    "%s inspects the error of %s and lets some variants pass, but that callee performs I/O on %s: a genuine stream "
                                    "error can be swallowed and the call reports success with missing data" % (f.path, callee.path, external))
    rep.floor(rule, 2, "two call sites of parse_extra_field")
    ok &= errarm_rules(facts, rep, reach)
    return ok


REVIEWED_ERRARM = {
    # "<fn>|<callee>" -> reason
    "<read::ZipFile<'a>_as_std::ops::Drop>::drop|read":
        "Drop cannot report: a failing drain ends the loop (F6 repair); the next header read on the shared stream then fails or hits EOF -- an error, never wrong data",
    "write::<impl_std::ops::Drop_for_write::zip_writer::ZipWriter<W>>::drop|finalize":
        "Drop cannot report: the implicit finish on drop prints the error to stderr (documented); callers who need the error call finish()",
}


def ret_alts_all(f, ex):
    out = []
    for b in f.exits():
        e = norm(ex.local(0, (b, None)))
        out.extend(alts(e))
    return out


_PATHS = {}


def _paths_cached(f):
    k = id(f)
    if k not in _PATHS:
        _PATHS[k] = paths(f, max_paths=6000)
    return _PATHS[k]


def errarm_rules(facts, rep, reach):
    """`if let Ok(x) = io_call() { .. }` / a match whose Err arm carries on: the failure of an I/O-performing call is discarded and the
    function continues as if nothing had happened.  Every direct test of an I/O result's discriminant must send its Err side to an
    error return (the `?` form does so by construction and is not inspected here)."""
    rule = "C11-ERRARM"
    ok = True
    n = 0
    for f in facts.fns:
        if f.path not in reach or f.kind == "Closure":
            continue
        ex = Ex(f)
        tests = []
        for sb, b in enumerate(f.blocks):
            tt = b["term"]
            if b["cleanup"] or not tt or tt["k"] != "switch":
                continue
            d = norm(ex.operand(tt["discr"], (sb, None)))
            if not (d[0] == "discr" and d[1][0] == "call" and len(d[1]) > 4):
                continue
            tests.append((sb, tt, d))
        for sb, tt, d in tests:
            # later re-tests of the same result (drop elaboration after a partial move) decide nothing new
            if any(o_sb != sb and o_d[1] == d[1] and f.dominates(o_sb, sb) for o_sb, _, o_d in tests):
                continue
            cb = d[1][4]
            ct = f.term(cb) if isinstance(cb, int) and cb < len(f.blocks) else None
            if not ct or ct["k"] != "call" or ct["dest"]["p"] or not IO_RESULT.match(f.locals[ct["dest"]["l"]]["ty"]):
                continue
            if callee_matches(ct, r"Try::branch$|FromResidual"):
                continue
            # does the callee (transitively) perform I/O on something the caller gave it?  in-memory-only helpers are exempt
            n += 1
            tmap = dict((v_, b_) for v_, b_ in tt["targets"])
            errt = tmap.get(1, tt["otherwise"])
            # the Err side must reach a `return` carrying an Err without first rejoining the Ok side
            okt = tmap.get(0, tt["otherwise"])
            ok_reach = f.reach_from_inclusive(okt, avoid={sb})
            err_only = f.reach_from_inclusive(errt, avoid={sb}) - ok_reach
            # blocks reachable from the Err side that are ALSO reachable from the Ok side = the computation carries on after the error
            rejoin = (f.reach_from_inclusive(errt, avoid={sb}) & ok_reach)
            # (shared epilogue blocks -- drops, storage markers, the return itself -- do no work)
            rejoin = {x for x in rejoin if not f.blocks[x]["cleanup"] and f.term(x) and f.term(x)["k"] == "call" and
                      not callee_matches(f.term(x), r"Result::<T, E>::map_err$|convert::(From::from|Into::into)$|FromResidual::from_residual$")}
            # the tested result itself is what the function returns: the error travels with it
            rets = ret_alts_all(f, ex)
            returned = any(r_ == d[1] for r_ in rets)
            # ... or re-wrapped on the way out (`io_call().map(..).map_err(ZipError::from)` as the tail expression): the tested result's
            # own error sits inside every returned value that stems from the Err side
            carried = any(any(x == ("err", d[1]) for x in walk(r_)) for r_ in rets)
            # a common `return` block with the Err value already built is the usual lowering: accept when the Err side builds an Err/propagates
            builds_err = any(st_["k"] == "assign" and st_["rv"]["k"] == "agg" and st_["rv"].get("variant") == "Err" for x in err_only for st_ in f.blocks[x]["stmts"]) or \
                any(f.term(x) and f.term(x)["k"] == "call" and callee_matches(f.term(x), r"FromResidual::from_residual$|Result::<T, E>::map_err|convert::From::from$") for x in err_only)
            # error inspected further (variant match handled by C11-SWALLOW)
            inspected = any(f.term(x) and f.term(x)["k"] == "switch" and norm(ex.operand(f.term(x)["discr"], (x, None)))[0] == "discr" and
                            norm(ex.operand(f.term(x)["discr"], (x, None)))[1][0] == "err" for x in err_only | {errt})
            callee = (ct.get("callee") or "?")
            key = "%s|%s" % (f.path, re.sub(r"<[^<>]*>", "", re.sub(r"<[^<>]*>", "", callee)).split("::")[-1])
            if inspected:
                rep.ok(rule, key, where(f, tt["span"]), "the error value is inspected (see C11-SWALLOW)")
                continue
            # ... and nothing else happens on the way: after the failure only the error is built/converted and handed up
            carries_on = [f.term(x)["callee"] for x in err_only if not f.blocks[x]["cleanup"] and f.term(x) and f.term(x)["k"] == "call" and
                          not callee_matches(f.term(x), r"FromResidual::from_residual$|convert::(From::from|Into::into)$|Result::<T, E>::map_err$|io::Error::new$|"
                                                        r"fmt::|format|ZipError|drop_in_place|mem::drop$|ToString::to_string$|string::String")]
            good = (builds_err and not rejoin and not carries_on) or returned or (carried and builds_err and not rejoin and not carries_on)
            if not good:
                # second opinion, path-sensitive: on every path that takes the Err edge nothing but error construction follows and the
                # function returns an error (a helper that turns the failure into its own error, inlined here, joins the success path
                # only syntactically)
                BENIGN = (r"FromResidual::from_residual$|Try::branch$|convert::(From::from|Into::into)$|Result::<T, E>::map_err$|io::Error::new$|"
                          r"fmt::|format|ZipError|drop_in_place|mem::drop$|ToString::to_string$|string::String")
                try:
                    pths = _paths_cached(f)
                except PathExplosion:       # keep the structural verdict
                    pths = None
                if pths is not None:
                    through = []
                    for p_ in pths:
                        bl = p_["blocks"]
                        pos = [i for i in range(len(bl) - 1) if bl[i] == sb and bl[i + 1] == errt]
                        if pos:
                            through.append((p_, pos[0] + 1))
                    good = bool(through) and all(
                        outcome(p_)[0] in ("Err", "ErrProp") and not [e_ for e_, ep_ in zip(p_["effects"], p_["epos"]) if ep_ >= at_ and not re.search(BENIGN, e_[1])]
                        for p_, at_ in through)
            if good:
                rep.ok(rule, key, where(f, tt["span"]), "the Err side returns an error" if not returned else "the tested result is returned to the caller unchanged")
            elif re.sub(r"\s+", "_", key) in REVIEWED_ERRARM:
                rep.reviewed(rule, key, where(f, tt["span"]), "reviewed: " + REVIEWED_ERRARM[re.sub(r"\s+", "_", key)])
            else:
                ok = False
                rep.violation(rule, key, where(f, tt["span"]), "the Err result of %s is tested and then discarded: on failure the function carries on "
                              "(%s) instead of returning the error" % (callee, "rejoins the success path" if rejoin else ("goes on to call %s" % carries_on[0].split("::")[-1]) if carries_on else "no error is built on that side"))
    rep.count("direct_result_tests", n)
    return ok


def errpanic_rules(facts, rep, reach):
    rule = "C11-ERRPANIC"
    ok = True
    for f in facts.fns:
        if f.path not in reach:
            continue
        ex = Ex(f)
        for bi, t in f.calls():
            cal = t.get("callee") or ""
            if PANICKERS.search(cal) and t["args"] and t["args"][0]["k"] != "const":
                ty = f.locals[t["args"][0]["place"]["l"]]["ty"]
                if IO_RESULT.match(ty):
                    recv = norm(ex.operand(t["args"][0], (bi, None)))
                    inner = [x[1] for x in walk(recv) if x[0] == "call"]
                    tag = "zstd::Decoder" if any("zstd" in i and "Decoder" in i for i in inner) else \
                        "zstd::Encoder" if any("zstd" in i and "Encoder" in i for i in inner) else \
                        "write_u128" if any(i.endswith("write_u128") for i in inner) else (inner[0].split("::")[-1] if inner else "?")
                    key = "%s|%s|%s" % (f.path, cal.split("::")[-1], tag)
                    if key in REVIEWED_ERRPANIC:
                        rep.reviewed(rule, key, where(f, t["span"]), "reviewed: " + REVIEWED_ERRPANIC[key])
                    else:
                        ok = False
                        rep.violation(rule, key, where(f, t["span"]), "%s on %s: an I/O error becomes a panic" % (cal.split("::")[-1], show(recv)[:120]))
            if callee_matches(t, r"^core::panicking::|^std::rt::begin_panic"):
                fs = dominating_facts(f, ex, bi)
                culprit = None
                for x in fs:
                    if x[0] == "Eq" and x[1][0] == "discr" and x[2][0] == "const" and x[2][2] == 1:
                        inner = x[1][1]
                        calls = [y for y in walk(inner) if y[0] == "call" and re.search(r"io::(Read|Write|Seek)::|byteorder::|^spec::|^read::|^write::", y[1])]
                        if calls and not (inner[0] == "call" and re.search(r"Iterator::next$|Option", inner[1])):
                            # discriminant 1 of a Result is Err
                            culprit = calls[0][1]
                if culprit:
                    ok = False
                    rep.violation(rule, "%s|panic-on-Err|%s" % (f.path, culprit.split("::")[-1]), where(f, t["span"]),
                                  "panic! is control-dependent on the Err edge of %s" % culprit)
    rep.ok(rule, "scan", "", "scanned %d reachable functions for unwrap/expect on I/O results and panics on Err edges" % len(reach))
    return ok


def pos_rules(facts, rep, reach):
    rule = "C11-POS"
    ok = True
    summ = const_return_summaries(facts)
    n = 0
    for f in facts.fns:
        if f.path not in reach:
            continue
        for s in enumerate_sites(facts, f):
            if s.kind != "Overflow(Sub)":
                continue
            pos = [o for o in s.ops if any(x[0] == "call" and re.search(r"stream_position$|Seek::seek$", x[1]) for x in walk(o))]
            if not pos:
                continue
            n += 1
            cls, why = discharge(facts, s, summ)
            both_local = all(o[0] == "ok" and o[1][0] == "call" and re.search(r"stream_position$", o[1][1]) for o in s.ops)
            good = bool(cls) or both_local
            ok &= rep.check(good, rule, s.key, where(f, s.where),
                            "difference of two positions taken in this very call (sink position is monotone between them)" if both_local else "discharged: %s" % why,
                            "unchecked subtraction %s mixes a fresh stream position with state from an earlier call: after a failed seek the "
                            "sink can be anywhere and this overflows (panic)" % s.text)
    rep.count("position_subtractions", n)
    return ok


def poison_rules(facts, rep):
    rule = "C11-POISON"
    ok = True
    c = Codec(facts)
    for f in facts.fns:
        if not re.search(r"^write::", f.path) and not re.search(r"^<?write::", f.path):
            continue
        ex = Ex(f)
        err = c._error_blocks(f)
        for bi, t in f.calls():
            if not callee_matches(t, r"mem::replace$") or len(t["args"]) != 2:
                continue
            v = norm(ex.operand(t["args"][1], (bi, None)))
            if not any(a[0] == "agg" and a[1] == "adt:Closed" for a in alts(v)):
                continue
            tgt = t["args"][0]
            # blocks that assign back to the same place: `self.inner = ..` / `*self = ..`
            restore = set()
            for b2, si2, s2 in f.stmts():
                if s2["k"] == "assign" and s2["place"]["p"] and self_rooted(f, s2["place"], ex, (b2, si2)):
                    fp = [p.get("n") for p in s2["place"]["p"] if p["k"] == "field"]
                    if fp == ["inner"] or (not fp and [p["k"] for p in s2["place"]["p"]] == ["deref"]):
                        restore.add(b2)
            # a failure leaves the writer closed: the taken-out compressor / sink is never put back in an error arm (an encoder whose
            # final flush failed is not reusable -- bzip2 panics on the next write, an encrypting writer re-emits its buffer)
            rets_ = {b_ for b_ in range(len(f.blocks)) if f.term(b_) and f.term(b_)["k"] == "return" and not f.blocks[b_]["cleanup"]}
            committed = lambda b_: b_ in err or not (f.reach_from_inclusive(b_, avoid=set(err)) & rets_)      # noqa: E731 -- every way out of b_ is an error
            back = sorted(b2 for b2 in restore if b2 in f.reach_from(bi) and committed(b2))
            ok &= rep.check(not back, rule, "%s|failure-leaves-closed" % f.path, where(f, t["span"]), "no path that ends in an error puts the taken-out writer back",
                            "%s puts the writer it took out back on a path that only leads to an error return (bb%s): the caller is told the operation failed "
                            "and is left with a half-finished compressor it can keep writing to" % (f.path, back[:2]))
            # success returns reachable while still closed
            seen = set()
            work = [bi]
            leaked = False
            while work:
                b = work.pop()
                for s_ in f.succ(b):
                    if s_ in seen or s_ in restore or s_ in err:
                        continue
                    seen.add(s_)
                    tt = f.term(s_)
                    if tt and tt["k"] == "return":
                        leaked = True
                    work.append(s_)
            nm = f.path.split("::")[-1]
            intended = nm in ("finish", "write")   # finish() hands the sink out; write() closes on the 4 GiB guard and returns Err
            if nm == "write":
                # must return Err on that path
                rets = [a for b in f.exits() for a in alts(norm(ex.local(0, (b, None))))]
                intended = any(a[0] == "agg" and a[1] == "adt:Err" for a in rets)
            good = (not leaked) or intended
            ok &= rep.check(good, rule, "%s|replace(inner,Closed)" % f.path, where(f, t["span"]),
                            "writer taken out and %s" % ("closed on purpose" if intended and leaked else "restored on every success path; a failure leaves it closed (poisoned)"),
                            "%s takes the compressor out of the writer and can return Ok while the writer is still Closed" % f.path)
    rep.floor(rule, 4)
    return ok


def dropflush_rules(facts, rep, reach):
    """a buffering adapter (io::BufWriter / LineWriter) flushes in its destructor and *discards* the error: wherever the crate wraps a
    sink in one, every normal exit of that function must have called flush() / into_inner() on it (whose Result C11-DROPRES then
    tracks).  The pinned tree builds none; the rule bites when one is introduced."""
    from engine.paths import paths as _paths, outcome as _outcome, PathExplosion
    rule = "C11-DROPFLUSH"
    ok = True
    n = 0
    for f in facts.fns:
        if f.path not in reach:
            continue
        mk = [(bi, t) for bi, t in f.calls() if callee_matches(t, r"io::(buffered::)?(bufwriter::)?BufWriter::<[^>]*>::(new|with_capacity)$|io::(buffered::)?(linewriter::)?LineWriter::<[^>]*>::(new|with_capacity)$")]
        if not mk:
            continue
        n += len(mk)
        try:
            ps = _paths(f, max_paths=20000)
        except PathExplosion:
            ps = None
        bad = ps is None
        if ps is not None:
            for p in ps:
                names = [e[1] for e in p["effects"]]
                idx = [i for i, nm in enumerate(names) if re.search(r"(BufWriter|LineWriter)::<[^>]*>::(new|with_capacity)$", nm)]
                if not idx or p["end"] != "return" or _outcome(p)[0] in ("Err", "ErrProp"):
                    continue
                after = names[idx[0] + 1:]
                if not any(re.search(r"io::Write::flush$|BufWriter::<[^>]*>::into_inner$|LineWriter::<[^>]*>::into_inner$", nm) for nm in after):
                    bad = True
        ok &= rep.check(not bad, rule, "flushed-before-drop@%s" % f.path.split("::")[-1], where(f, mk[0][1]["span"]),
                        "the buffered writer is flushed (result checked) on every successful exit",
                        "%s wraps the sink in a buffering writer and can return successfully without flush()/into_inner(): a write error at the "
                        "implicit flush in Drop is discarded and the call reports success" % f.path.split("::")[-1])
    rep.ok(rule, "census", "", "%d buffering adapter(s) constructed in reader/writer-reachable code" % n, trivial=True)
    return ok


def run(ctx, rep):
    facts = ctx.facts
    rep.configs.append("default")
    rep.explanation = (
        "Error discipline over the MIR of everything reachable from the reader and writer APIs: each call returning an I/O Result has its "
        "value propagated, matched, returned or converted (discarded / merely tested results are violations unless reviewed with a "
        "structural side-condition); a match that swallows ZipError::Io is allowed only around callees that read an in-memory cursor; no "
        "unwrap/expect on an I/O Result and no panic! on an Err edge; unchecked subtractions involving stream positions only between "
        "positions of the same call; mem::replace(inner, Closed) is followed by restoration on every success path. The full "
        "'error or identical outcome' statement over fault sequences is not decided (DESIGN.md O1).")
    rr = [f.path for f in facts.fns if is_read_root(f) or is_write_root(f)]
    reach, _ = facts.reachable_from(rr)
    dropres_rules(facts, rep, reach)
    erriter_rules(facts, rep)
    swallow_rules(facts, rep, reach)
    errpanic_rules(facts, rep, reach)
    pos_rules(facts, rep, reach)
    poison_rules(facts, rep)
    dropflush_rules(facts, rep, reach)
    # "no panic, then or on any later call including finish": the writer's typestate invariants are what keep its assertions
    # (get_plain / unwrap / files.last().unwrap()) unreachable after a failed call
    from rules.C12 import ts_rules
    ts_rules(facts, rep)               # reported as C11/C12-TS
    # ... and the readers' counterparts: the AES adapter's `assert!(!finalized)` and ZipFile's lazily built reader stay unreachable
    # after a call that failed half-way only if the state they test was updated before the fallible step
    if facts.find(r"^aes_ctr::AesCtrZipKeyStream"):
        from rules.C16 import mac_rules
        mac_rules(facts, rep)          # reported as C11/C16-MAC
    from rules.C05 import rule_ts_zipfile
    rule_ts_zipfile(facts, rep)        # reported as C11/C05-TS-ZIPFILE
    rep.assume("a failed seek/read/write leaves the stream position unspecified unless stated otherwise in a reviewed entry")
