"""Shared rules on how caller-supplied `FileOptions` reach the entry that is written (E9 field-sensitive value flow + E5 provenance).

OPENERS  -- every public `ZipWriter` method that takes a `FileOptions` hands it to `start_entry` (or to another opener) such that,
            on EVERY path,
              * the Unix file-type bits of the mode are exactly the opener's kind (regular file / directory / symlink), whether or
                not the caller supplied permissions;
              * timestamp, large-file flag and encryption keys are the caller's, untouched; method and level too for the openers
                that compress.
ENTRYFIELDS -- `start_entry` stores exactly these values in the entry record it pushes (and writes into the local header): each
            metadata field of the new `ZipFileData` is the corresponding option / argument, unconditionally.

Both are necessary conditions of "what is read back is what was asked for": an opener that drops `encrypt_with` writes a
clear-text entry (C15), one that re-stamps a timestamp changes what C18/C14/C13 promise to keep, a missing type bit makes
`unix_mode()`/`is_dir()` of the read-back entry differ (C01, C07)."""
import re

from engine import sym
from engine.expr import Ex, norm, show
from engine.mir import AnchorLost
from engine.query import aggregates, where

ZW = r"^write::<impl write::zip_writer::ZipWriter<W>>::"
S_IFMT = 0o170000
KIND = {"start_file": 0o100000, "start_file_with_extra_data": 0o100000, "add_directory": 0o40000, "add_symlink": 0o120000}
ALWAYS = ("last_modified_time", "large_file", "encrypt_with")
COMPRESSING = ("compression_method", "compression_level")


def _opt_arg(f):
    """index of the FileOptions-typed parameter of f (None if it has none)"""
    for l in range(1, f.raw.get("arg_count", 0) + 1):
        if re.search(r"(^|::)FileOptions$", f.local_ty(l) or ""):
            return l
    return None


def _is_param_field(v, argi, name):
    return v[0] == "field" and v[2] == name and v[1][0] == "arg" and v[1][1] == argi


def opener_rules(facts, rep, rule="C01-OPENERS"):
    ok = True
    ok &= builder_rules(facts, rep, rule=rule)
    openers = [f for f in facts.fns if re.search(ZW, f.path) and f.vis == "Public" and _opt_arg(f) is not None]
    names = {f.path for f in openers}
    if len(openers) < 4:
        raise AnchorLost("public ZipWriter methods taking FileOptions")
    nsites = 0
    for f in openers:
        short = f.path.split("::")[-1]
        argi = _opt_arg(f)
        try:
            res = sym.Sym(f).run(lambda bb, t: re.search(r"::start_entry$", t.get("callee") or "") or (t.get("callee") or "") in names)
        except sym.SymTooComplex:
            ok &= rep.check(False, rule, "%s:analysable" % short, where(f, f.span), "", "%s has too many paths for the value-flow engine (fail closed)" % short)
            continue
        if not res:
            ok &= rep.check(False, rule, "%s:opens" % short, where(f, f.span), "", "%s takes FileOptions but no path hands them to start_entry or another opener" % short)
            continue
        bad = {}
        for r in res:
            nsites += 1
            callee = (r["term"].get("callee") or "").split("::")[-1]
            # which argument of the callee is the options value
            o = None
            for a in r["args"]:
                if (a[0] == "arg" and a[1] == argi) or (a[0] == "snap") or (a[0] == "agg" and a[1] == "adt:FileOptions"):
                    o = a
            if o is None:
                bad.setdefault("options-value", "%s passes %s to %s" % (short, [sym.show(a)[:50] for a in r["args"]], callee))
                continue
            wants = ALWAYS + (COMPRESSING if (short.startswith("start_file") or callee != "start_entry") else ())
            for fld in wants:
                v = sym.field_of(o, fld)
                if not _is_param_field(v, argi, fld):
                    bad.setdefault("keeps:" + fld, "%s hands %s = %s to %s on some path (the caller's value is dropped or altered)" % (short, fld, sym.show(v)[:80], callee))
            if callee == "start_entry":
                want = KIND.get(short)
                if want is None:
                    bad.setdefault("kind-known", "%s calls start_entry directly but is not in the table of openers (file / directory / symlink)" % short)
                    continue
                pv = sym.field_of(o, "permissions")
                if not sym.is_some_agg(pv):
                    bad.setdefault("type-bits", "%s can reach start_entry with permissions = %s (not Some(mode | type bits) on every path)" % (short, sym.show(pv)[:80]))
                    continue
                mb = sym.must_bits(sym.payload(pv)) & S_IFMT
                if mb != want:
                    bad.setdefault("type-bits", "%s can reach start_entry with mode %s: file-type bits 0o%o are not set on every path (got 0o%o) -- e.g. when the caller "
                                   "supplied permissions" % (short, sym.show(sym.payload(pv))[:80], want, mb))
            else:
                # a wrapper: the permissions must be the caller's too (the wrapped opener adds the type bits)
                v = sym.field_of(o, "permissions")
                if not _is_param_field(v, argi, "permissions"):
                    bad.setdefault("keeps:permissions", "%s hands permissions = %s to %s" % (short, sym.show(v)[:80], callee))
        keys = ["keeps:" + x for x in ALWAYS + (COMPRESSING if short.startswith("start_file") else ())] + ["type-bits"]
        for k in sorted(set(keys) | set(bad)):
            if k == "type-bits" and short not in KIND and "type-bits" not in bad:
                continue
            ok &= rep.check(k not in bad, rule, "%s:%s" % (short, k), where(f, f.span),
                            "%s: %s on every path to the entry" % (short, k), bad.get(k, ""))
    rep.count("opener_call_sites_x_paths", nsites)
    rep.floor(rule, 16)
    return ok


# field of the pushed record -> predicate on its (normalised) defining expression
def _raw_or_zero(v, fld):
    """`raw_values.unwrap_or(ZipRawValues { 0, 0, 0 }).fld`, `raw_values.unwrap_or_default().fld`, or the same choice spelled as a match:
    the value is the raw copy's `fld` when raw values were given and the constant 0 otherwise -- nothing else"""
    from engine.expr import alts
    if v[0] == "field" and v[2] == fld and v[1][0] == "call" and v[1][2] and v[1][2][0][0] == "arg" and v[1][2][0][2] == "raw_values":
        if v[1][1].endswith("::unwrap_or") and v[1][2][1][0] == "agg" and all(x_[1][0] == "const" and x_[1][2] == 0 for x_ in v[1][2][1][3]):
            return True
        if v[1][1].endswith("::unwrap_or_default"):        # (a derived Default of three integers is three zeros)
            return True
    al = alts(v)
    zero = [a_ for a_ in al if a_[0] == "const" and a_[2] == 0]
    raw = [a_ for a_ in al if a_[0] == "field" and a_[2] == fld and any(x_[0] == "arg" and x_[2] == "raw_values" for x_ in _walk(a_)) and
           not any(x_[0] == "call" and not re.search(r"unwrap|expect", x_[1]) for x_ in _walk(a_))]
    return len(al) == 2 and len(zero) == 1 and len(raw) == 1


def _entry_table(argname_opts="options"):
    def optfield(name):
        return lambda v: v[0] == "field" and v[2] == name and v[1][0] == "arg" and v[1][2] == argname_opts
    return {
        "compression_method": (optfield("compression_method"), "options.compression_method"),
        "compression_level": (optfield("compression_level"), "options.compression_level"),
        "last_modified_time": (optfield("last_modified_time"), "options.last_modified_time"),
        "large_file": (optfield("large_file"), "options.large_file"),
        "encrypted": (lambda v: v[0] == "call" and v[1].endswith("::is_some") and optfield("encrypt_with")(v[2][0]), "options.encrypt_with.is_some()"),
        "using_data_descriptor": (lambda v: v[0] == "const" and v[2] == 0, "false"),
        "aes_mode": (lambda v: v[0] == "agg" and v[1] == "adt:None", "None"),
        "central_header_start": (lambda v: v[0] == "const" and v[2] == 0, "0"),
        # the local header writer announces extra_field.len() bytes and writes none (they come through the extra-data API, which
        # patches the length): a record that starts with extra bytes has a header that lies about where its data begins
        "extra_field": (lambda v: v[0] == "call" and re.search(r"Vec::<T>::new$|Vec::new$|Default::default$|Vec::<T>::with_capacity$", v[1]) is not None, "Vec::new()"),
        # sizes and CRC: the raw values handed in by a raw copy, or zeros -- what a directory or symlink entry keeps (finish_file patches
        # only entries that were written to), so a non-zero default is the declared size/CRC of every directory
        **{k_: ((lambda k__: (lambda v: _raw_or_zero(v, k__)))(k_),
                 "raw_values.%s, or 0 when the entry is not a raw copy" % k_) for k_ in ("crc32", "compressed_size", "uncompressed_size")},
        "system": (lambda v: v[0] == "agg" and v[1] == "adt:Unix", "System::Unix"),
        "file_comment": (lambda v: (v[0] == "call" and re.search(r"String::new$|Default::default$", v[1]) is not None) or (v[0] == "const" and v[2] in ("", None)), "String::new()"),
    }


def builder_rules(facts, rep, rule="C01-OPENERS"):
    """the option builders are what E9 models them as: each stores its argument in the field it names and hands the options back
    (`large_file(true)` that stores nothing makes every entry above 4 GiB fail; a level or timestamp that is dropped is never applied)"""
    ok = True
    table = {"compression_method": "compression_method", "compression_level": "compression_level", "last_modified_time": "last_modified_time",
             "large_file": "large_file", "unix_permissions": "permissions"}
    for nm, fld in table.items():
        gs = facts.find(r"^write::FileOptions::%s$" % nm)
        if not gs:
            ok &= rep.check(False, rule, "builder:%s" % nm, "", "", "FileOptions::%s no longer exists" % nm)
            continue
        g = gs[0]
        ex = Ex(g)
        asg = [(bi, si, s_) for bi, si, s_ in g.stmts() if s_["k"] == "assign" and s_["place"]["p"] and [q.get("n") for q in s_["place"]["p"] if q["k"] == "field"] == [fld]]
        good = len(asg) == 1 and not any(t_ and t_["k"] == "switch" for t_ in (g.term(b_) for b_ in range(len(g.blocks)) if not g.blocks[b_]["cleanup"]))
        if good:
            v = norm(ex.rvalue(asg[0][2]["rv"], (asg[0][0], asg[0][1])))
            if nm == "unix_permissions":
                good = v[0] == "agg" and v[1] == "adt:Some" and v[3][0][1][0] == "bin" and v[3][0][1][1] == "BitAnd" and \
                    {x_[0] for x_ in (v[3][0][1][2], v[3][0][1][3])} == {"arg", "const"} and any(x_[0] == "const" and x_[2] == 0o777 for x_ in (v[3][0][1][2], v[3][0][1][3]))
            else:
                good = v[0] == "arg" and v[1] == 2
        from engine.query import ret_alts as _ra
        good = good and all(a_[0] == "arg" and a_[1] == 1 for a_ in _ra(g))
        if not good and not asg:
            # the same builder as a struct update: `FileOptions { <field>: v, ..self }`
            ras = _ra(g)
            if len(ras) == 1 and ras[0][0] == "agg" and not any(t_ and t_["k"] == "switch" for t_ in (g.term(b_) for b_ in range(len(g.blocks)) if not g.blocks[b_]["cleanup"])):
                fl = dict(ras[0][3])
                v = fl.get(fld)
                if v is not None:
                    if nm == "unix_permissions":
                        okv = v[0] == "agg" and v[1] == "adt:Some" and v[3][0][1][0] == "bin" and v[3][0][1][1] == "BitAnd" and \
                            any(x_[0] == "arg" and x_[1] == 2 for x_ in (v[3][0][1][2], v[3][0][1][3])) and any(x_[0] in ("const", "named") and x_[2] == 0o777 for x_ in (v[3][0][1][2], v[3][0][1][3]))
                    else:
                        okv = v[0] == "arg" and v[1] == 2
                    good = okv and all(w_[0] == "field" and w_[2] == k_ and w_[1][0] == "arg" and w_[1][1] == 1 for k_, w_ in fl.items() if k_ != fld)
        ok &= rep.check(good, rule, "builder:%s" % nm, where(g, g.span), "%s(v): self.%s = %s; self" % (nm, fld, "Some(v & 0o777)" if nm == "unix_permissions" else "v"),
                        "FileOptions::%s does not store its argument in `%s` (unconditionally) and return the options: the option is silently not applied" % (nm, fld))
    return ok


def entry_fields_rules(facts, rep, rule="C01-ENTRYFIELDS"):
    ok = True
    st = facts.one(ZW + "start_entry$")
    ex = Ex(st)
    ags = list(aggregates(st, r"types::ZipFileData$"))
    if len(ags) != 1:
        raise AnchorLost("exactly one ZipFileData construction in start_entry (found %d)" % len(ags))
    bi, si, s, flds = ags[0]
    optl = _opt_arg(st)
    if optl is None:
        raise AnchorLost("FileOptions parameter of start_entry")
    table = _entry_table(st.locals[optl].get("name") or "options")
    for fld, (pred, want) in table.items():
        if fld not in flds:
            ok &= rep.check(False, rule, "field:%s" % fld, where(st, s["span"]), "", "the entry record has no field %s any more" % fld)
            continue
        v = norm(ex.operand(flds[fld], (bi, si)))
        try:
            good = bool(pred(v))
        except (IndexError, TypeError):
            good = False
        ok &= rep.check(good, rule, "field:%s" % fld, where(st, s["span"]), "%s = %s, unconditionally" % (fld, want),
                        "start_entry records %s = %s instead of %s (a value that depends on anything else -- the clock, a validity test, "
                        "another field -- changes what is written for some inputs)" % (fld, show(v)[:100], want))
    # file_name: the name argument (after Into<String>), nothing else
    v = norm(ex.operand(flds["file_name"], (bi, si)))
    args = [x for x in _walk(v) if x[0] == "arg"]
    good = len(args) >= 1 and all(a[1] == 2 for a in args) and not any(x[0] == "call" and not re.search(r"convert::(Into|From)|::into$|::from$|to_owned|to_string|String::from", x[1]) for x in _walk(v))
    ok &= rep.check(good, rule, "field:file_name", where(st, s["span"]), "file_name = name.into()", "start_entry records file_name = %s" % show(v)[:100])
    # the record joins the archive only once its local header is in the sink: on every path the push onto `files` comes after the
    # header writer returned Ok (a failed header write must not leave a phantom entry that finish() then lists)
    from engine.paths import paths as _paths, PathExplosion
    try:
        ps = _paths(st, max_paths=30000)
    except PathExplosion:
        ps = None
    if ps is None:
        hw = [b for b, t in st.calls() if (t.get("callee") or "").endswith("write_local_file_header")]
        pu = [b for b, t in st.calls() if re.search(r"Vec::<T(, A)?>::push$", t.get("callee") or "")]
        good = bool(hw) and bool(pu) and all(st.dominates(hw[0], b) for b in pu)
    else:
        good, seen = True, 0
        for p_ in ps:
            names = [e_[1] for e_ in p_["effects"]]
            pushes = [i for i, n in enumerate(names) if re.search(r"Vec::<T(, A)?>::push$", n)]
            if not pushes:
                continue
            seen += 1
            hdr = [i for i, n in enumerate(names) if n.endswith("write_local_file_header")]
            good = good and bool(hdr) and hdr[0] < pushes[0]
        good = good and seen >= 1
    ok &= rep.check(good, rule, "record-pushed-after-header-written", where(st, s["span"]), "files.push(record) only after write_local_file_header(..)? succeeded",
                    "start_entry adds the record to the archive before (or without) its local header having been written")
    rep.floor(rule, 10)
    return ok


def _walk(e):
    from engine.expr import walk
    return walk(e)
