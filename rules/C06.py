"""C06 -- sanitised entry paths can never escape the extraction root (DESIGN.md §3 C06).

Decides the validator's variant -> action table and the sanitiser's filter for every component kind std::path can produce.
Given std's Path::components semantics (trusted) these tables imply the property (depth never below zero on any prefix; only
Normal components of the NUL-truncated, separator-normalised name are kept, in order)."""
import re

from engine.expr import Ex, norm, show, walk, alts
from engine.mir import AnchorLost, callee_matches
from engine.paths import paths, decided, called, outcome
from engine.query import calls_matching, where, switch_arms, find_switch_on, ret_alts
from rules.shared_codec import tokens

COMPONENT = "std::path::Component"


def component_table(fn):
    """discriminant value -> variant name of std::path::Component, read from the MIR's own discriminant tables"""
    for bi, si, s in fn.stmts():
        if s["k"] == "assign" and s["rv"]["k"] == "discr" and s["rv"].get("adt") == COMPONENT:
            return {int(v): n for v, n in s["rv"]["vars"]}
    raise AnchorLost("no match on std::path::Component in %s" % fn.path)


def _enclosed_by_exploration(f, tab, maxlen=3):
    """spelling-independent decision of the component walk: bounded exploration (E9) of enclosed_name over EVERY sequence of up to
    three path components (5 kinds each; the iterator's answers are the only unknowns, the depth counter is concrete), compared with
    the reference semantics -- Prefix/RootDir reject, `..` at depth 0 rejects, Normal descends, `.` is ignored, exhaustion accepts.
    -> (ok, message)"""
    from engine import sym
    import itertools
    try:
        res = sym.Sym(f, max_paths=4000000).explore(maxlen + 2)
    except sym.SymTooComplex:
        return False, "too many paths"
    kinds = {v: k for k, v in tab.items()}

    def ref(seq):
        """index at which the reference rejects, or None if it accepts the whole sequence"""
        d = 0
        for i, k in enumerate(seq):
            if k in ("Prefix", "RootDir"):
                return i
            if k == "ParentDir":
                if d == 0:
                    return i
                d -= 1
            elif k == "Normal":
                d += 1
        return None
    traces = []
    for r in res:
        seq, exhausted, nul = [], False, False
        conds = list(r["conds"])
        i = 0
        bad = False
        while i < len(conds):
            d, v = conds[i]
            txt = sym.show(d) if d[0] != "discr" else ""
            if d[0] == "call" and d[1].endswith("contains"):
                nul = (v != 0)
            elif d[0] == "discr" and d[1][0] == "call" and d[1][1].endswith("Iterator::next"):
                if v == 0:
                    exhausted = True
                else:
                    if i + 1 < len(conds) and conds[i + 1][0][0] == "discr" and conds[i + 1][0][1][0] == "field":
                        kv = conds[i + 1][1]
                        seq.append(tab.get(kv, "?"))
                        i += 1
                    else:
                        bad = True
            elif d[0] == "discr":
                bad = True      # a decision on something else: not the component walk we can classify
            else:
                bad = True
            i += 1
        if bad:
            return False, "the walk branches on something other than the components (%s)" % [sym.show(d)[:40] for d, _ in conds][-2:]
        out = "Some" if sym.is_some_agg(r["ret"]) else ("None" if sym.is_none_agg(r["ret"]) else "?")
        traces.append((tuple(seq), exhausted, nul, out))
    nul_ok = [t for t in traces if t[2]]
    if not nul_ok or any(t[3] != "None" or t[0] for t in nul_ok):
        return False, "a name containing NUL is not rejected before the walk"
    traces = [t for t in traces if not t[2]]
    names = [tab[k] for k in sorted(tab)]
    n = 0
    for L in range(0, maxlen + 1):
        for s_ in itertools.product(names, repeat=L):
            n += 1
            rj = ref(s_)
            if rj is None:
                hit = [t for t in traces if t[0] == s_ and t[1]]
                if not hit or any(t[3] != "Some" for t in hit):
                    return False, "components %s must be accepted; explored outcome: %s" % (list(s_), [t[3] for t in hit] or "none")
                early = [t for t in traces if not t[1] and len(t[0]) <= len(s_) and s_[:len(t[0])] == t[0] and t[0]]
                if early:
                    return False, "components %s are turned away at %s" % (list(s_), list(early[0][0]))
            else:
                pre = s_[:rj + 1]
                hit = [t for t in traces if t[0] == pre and not t[1]]
                if not hit or any(t[3] != "None" for t in hit):
                    longer = [t for t in traces if len(t[0]) > len(pre) and t[0][:len(pre)] == pre] + [t for t in traces if t[0] == pre and t[1]]
                    return False, "components %s must be rejected at %s; explored: %s" % (list(s_), pre[-1], "walk continues" if longer else "no such path")
    return True, "%d component sequences (length <= %d) agree with the reference walk" % (n, maxlen)


def enclosed_rules(facts, rep):
    """the component walk is decided semantically (bounded exploration against the reference walk, whatever the spelling: `for` +
    `match`, `try_fold` over a closure or a helper, a signed counter checked at the end ...); the shape-based table below is the second
    opinion when the exploration cannot classify the function"""
    rule = "C06-ENC"
    f = facts.one(r"^types::ZipFileData::enclosed_name$")
    ex = Ex(f)
    try:
        tab = component_table(f)
    except AnchorLost:
        tab = {}
    if len(tab) != 5:
        adt = (getattr(facts, "adts", None) or {}).get("std::path::Component")
        tab = {0: "Prefix", 1: "RootDir", 2: "CurDir", 3: "ParentDir", 4: "Normal"}
    good, msg = _enclosed_by_exploration(f, tab, 5 if rep.tier == "thorough" and rep.cfg is None else 4)
    if good:
        ok = True
        w = where(f, f.span)
        rep.check(True, rule, "component-kinds", w, "five component kinds", "")
        rep.check(True, rule, "walk-agrees-with-reference", w, msg, "")
        for k_ in ("nul=>None", "nul-tested", "kind:Prefix", "kind:RootDir", "kind:ParentDir:underflow", "kind:ParentDir:ok", "kind:Normal", "kind:CurDir",
                   "depth:Normal", "depth:ParentDir", "depth:CurDir", "depth:init", "atoms"):
            rep.check(True, rule, k_, w, "(covered by the explored sequences: %s)" % msg, "")
        # what is walked and what is returned is the entry's own name
        comps = calls_matching(f, r"Path::components$")
        g1 = bool(comps) and norm(ex.operand(comps[0][1]["args"][0], (comps[0][0], None))) == ("field", ("arg", 1, "self"), "file_name")
        ok &= bool(rep.check(g1, rule, "walks-own-name", w, "components() of self.file_name", "the component walk is over something other than the entry's name"))
        # the NUL test looks at the same string: the decoded name (not the raw bytes kept next to it, which a parser may leave empty)
        nul = [norm(ex.operand(t_["args"][0], (b_, None))) for b_, t_ in f.calls() if re.search(r"::contains$", t_.get("callee") or "")]
        g0 = bool(nul) and all(v_ == ("field", ("arg", 1, "self"), "file_name") or
                               (v_[0] == "call" and re.search(r"as_bytes$|as_str$|Deref::deref$", v_[1]) and v_[2] and v_[2][0] == ("field", ("arg", 1, "self"), "file_name")) for v_ in nul)
        ok &= bool(rep.check(g0, rule, "nul-tested-on-own-name", w, "contains('\\0') of self.file_name", "the NUL test of enclosed_name looks at %s, not at the name it validates" % [show(v_)[:50] for v_ in nul]))
        somes = [norm(ex.operand(s_["rv"]["ops"][0], (b_, si_))) for b_, si_, s_ in f.stmts()
                 if s_["k"] == "assign" and s_["place"]["l"] == 0 and not s_["place"]["p"] and s_["rv"]["k"] == "agg" and s_["rv"].get("variant") == "Some" and s_["rv"]["ops"]]
        g2 = bool(somes) and all(".file_name" in tokens(v_) and not any(x[0] == "call" and not re.search(r"Path::new$|Deref|AsRef", x[1]) for x in walk(v_)) for v_ in somes)
        ok &= bool(rep.check(g2, rule, "exhausted=>Some(name)", w, "all components accepted: returns the unmodified name as a path",
                             "after the walk enclosed_name returns %s, not the entry's own name" % [show(v_)[:60] for v_ in somes]))
        rep.floor(rule, 14)
        return ok
    from engine.report import Report
    shadow = Report(rep.prop, rep.tier, 0)
    try:
        shape_ok = _enclosed_by_shape(facts, shadow)
    except AnchorLost:
        shape_ok = False
    if shape_ok and not any(i_.get("verdict") == "violation" for i_ in shadow.instances):
        return _enclosed_by_shape(facts, rep)
    rep.check(False, rule, "walk-agrees-with-reference", where(f, f.span), "", "the component walk of enclosed_name differs from the reference walk: %s" % msg)
    try:
        _enclosed_by_shape(facts, rep)
    except AnchorLost:
        pass
    return False


def _enclosed_by_shape(facts, rep):
    rule = "C06-ENC"
    ok = True
    f = facts.one(r"^types::ZipFileData::enclosed_name$")
    ex = Ex(f)
    tab = component_table(f)
    inv = {n: v for v, n in tab.items()}
    ok &= rep.check(set(inv) == {"Prefix", "RootDir", "CurDir", "ParentDir", "Normal"}, rule, "component-kinds", where(f, f.span),
                    "five component kinds", "std::path::Component has variants %s" % sorted(inv))
    ps = paths(f, max_loop=2)       # two trips: "Normal, then ParentDir, then go on" must be observable
    rep.count("paths", len(ps))
    A_NUL = r"str::contains\(self\.file_name, 0\)"
    A_NEXT = r"^discr\(Iterator::next\("
    A_COMP = r"^discr\(ok\(Iterator::next\("
    A_SUB = r"^discr\(Try::branch\(num::checked_sub\("
    A_DEPTH0 = r"^var:depth$"     # explicit `depth == 0` guard in front of an unchecked decrement
    # (0) only these atoms decide
    extra = set()
    for p in ps:
        for a, v in p["decisions"]:
            if a != "#iter" and not any(re.search(x, a) for x in (A_NUL, A_NEXT, A_COMP, A_SUB, A_DEPTH0)):
                extra.add(a)
    ok &= rep.check(not extra, rule, "atoms", where(f, f.span), "verdict depends only on: NUL present, iterator exhausted, component kind, depth underflow",
                    "enclosed_name additionally branches on %s -- names for which it holds bypass the component walk" % sorted(extra))
    # (1) NUL => None, before anything else
    for p in ps:
        if decided(p, A_NUL) == 1:
            good = outcome(p)[0] == "None" and len(p["decisions"]) == 1
            ok &= rep.check(good, rule, "nul=>None", where(f, f.span), "a NUL anywhere in the name rejects it", "a name containing NUL is not rejected outright: %s" % (outcome(p),))
    ok &= rep.check(any(decided(p, A_NUL) == 1 for p in ps), rule, "nul-tested", where(f, f.span), "NUL test present", "the NUL test disappeared")
    # (2) per component kind on the first iteration
    seen = {}
    for p in ps:
        if decided(p, A_NUL) != 0:
            continue
        d = [x for x in p["decisions"]]
        # one segment per trip round the loop (the path engine folds constants, so in an iteration where the depth is known --
        # the first one, or the one after a single Normal -- the underflow test is already decided and leaves no atom behind)
        segs, cur = [], []
        for a, v in d:
            if a == "#iter":
                segs.append(cur)
                cur = []
            else:
                cur.append((a, v))
        segs.append(cur)
        o = outcome(p)
        for si_, first in enumerate(segs):
            last_seg = si_ == len(segs) - 1
            nxt = [v for a, v in first if re.search(A_NEXT, a)]
            comp = [v for a, v in first if re.search(A_COMP, a)]
            sub = [v for a, v in first if re.search(A_SUB, a)] + [(1 if v == 0 else 0) for a, v in first if re.search(A_DEPTH0, a)]
            continues = not last_seg
            if nxt == [0]:
                good = o[0] == "Some" and o[1] is not None and ".file_name" in tokens(o[1]) and not any(x[0] == "call" and not re.search(r"Path::new$|Deref|AsRef", x[1]) for x in walk(o[1]))
                ok &= rep.check(good, rule, "exhausted=>Some(name)", where(f, f.span), "all components accepted: returns the unmodified name as a path",
                                "after the walk enclosed_name returns %s, not the entry's own name" % (show(o[1]) if len(o) > 1 and o[1] else o,))
                continue
            if not comp:
                continue
            kind = tab.get(comp[0], comp[0])
            if kind in ("Prefix", "RootDir"):
                good = (not continues) and o[0] == "None"
                seen.setdefault(kind, []).append(good)
            elif kind == "ParentDir":
                rejected = (not continues) and o[0] in ("None", "ErrProp")
                if sub == [1] or (not sub and rejected):
                    seen.setdefault("ParentDir:underflow", []).append(rejected)
                elif sub == [0] or (not sub and not rejected):
                    seen.setdefault("ParentDir:ok", []).append(continues or o[0] == "Some")
                else:
                    seen.setdefault("ParentDir:ok", []).append(False)
            elif kind in ("Normal", "CurDir"):
                seen.setdefault(kind, []).append((continues or o[0] == "Some") and not sub)
    for kind, want in (("Prefix", "rejects (None)"), ("RootDir", "rejects (None)"), ("ParentDir:underflow", "depth.checked_sub(1) == None rejects"),
                       ("ParentDir:ok", "continues with depth - 1"), ("Normal", "continues"), ("CurDir", "continues")):
        vals = seen.get(kind)
        ok &= rep.check(bool(vals) and all(vals), rule, "kind:%s" % kind, where(f, f.span), "%s: %s" % (kind, want),
                        "component kind %s is not handled as '%s'" % (kind, want))
    # (3) the depth counter: starts at 0, +1 exactly in the Normal arm, checked -1 in the ParentDir arm, untouched elsewhere
    sw = find_switch_on(f, lambda d: d[0] == "discr" and d[1][0] == "ok" and any(x[0] == "call" and x[1].endswith("Iterator::next") for x in walk(d)))
    if not sw:
        raise AnchorLost("switch on the component kind")
    bi, t, d = sw[0]
    arms = switch_arms(f, bi)
    depth_locals = {i for i, l in enumerate(f.locals) if l.get("name") == "depth"}
    if not depth_locals:
        raise AnchorLost("local `depth`")
    dl = sorted(depth_locals)[0]

    def depth_updates(blocks):
        out = []
        for b in sorted(blocks):
            for si, s in enumerate(f.blocks[b]["stmts"]):
                if s["k"] == "assign" and s["place"]["l"] == dl and not s["place"]["p"]:
                    out.append(norm(ex.rvalue(s["rv"], (b, si))))
        return out
    for v, name in tab.items():
        ups = depth_updates(arms.get(v, set()))
        if name == "Normal":
            good = len(ups) == 1 and ups[0][0] == "bin" and ups[0][1] == "Add" and ups[0][3][0] == "const" and ups[0][3][2] == 1
        elif name == "ParentDir":
            good = len(ups) == 1 and ups[0][0] == "ok" and ups[0][1][0] == "call" and ups[0][1][1].endswith("checked_sub") and \
                ups[0][1][2][1][0] == "const" and ups[0][1][2][1][2] == 1
            if not good and len(ups) == 1 and ups[0][0] == "bin" and ups[0][1] == "Sub" and ups[0][3] == ("const", "usize", 1):
                # unchecked decrement: sound only behind the explicit zero test (every ParentDir path is then classified by kind:ParentDir:*)
                from engine.intervals import dominating_facts
                ub = [b for b in sorted(arms.get(v, set())) for s_ in f.blocks[b]["stmts"] if s_["k"] == "assign" and s_["place"]["l"] == dl and not s_["place"]["p"]]
                from engine.intervals import edge_facts
                from engine.paths import _cmp_var
                guarded = []
                dom = f.dominators()
                for sb_ in sorted(dom.get(ub[0], ())) if ub else []:
                    t_ = f.term(sb_)
                    if sb_ == ub[0] or not t_ or t_["k"] != "switch" or _cmp_var(f, sb_, t_) != f.locals[dl].get("name"):
                        continue
                    reaching = [s2 for s2 in f.succ(sb_) if s2 == ub[0] or ub[0] in f.reach_from_inclusive(s2, avoid={sb_})]
                    if len(reaching) == 1:
                        guarded += [x for x in edge_facts(f, ex, sb_, reaching[0]) if x[0] in ("Ne", "Gt") and x[2][0] == "const" and x[2][2] == 0]
                good = bool(guarded) and all(vals for vals in (seen.get("ParentDir:ok"), seen.get("ParentDir:underflow"))) and all(seen.get("ParentDir:ok", [False])) and all(seen.get("ParentDir:underflow", [False]))
        else:
            good = not ups
        ok &= rep.check(good, rule, "depth:%s" % name, where(f, t["span"]),
                        {"Normal": "depth += 1", "ParentDir": "depth = depth.checked_sub(1)?"}.get(name, "depth untouched"),
                        "in the %s arm the depth counter is updated as %s" % (name, [show(u) for u in ups]))
    inits = []
    for b, si, s in f.stmts():
        if s["k"] == "assign" and s["place"]["l"] == dl and not s["place"]["p"] and b not in set().union(*arms.values()):
            inits.append(norm(ex.rvalue(s["rv"], (b, si))))
    ok &= rep.check(inits == [("const", "usize", 0)], rule, "depth:init", where(f, f.span), "depth starts at 0", "depth is initialised as %s" % [show(i) for i in inits])
    # the walked path is the entry's own name
    comps = calls_matching(f, r"Path::components$")
    good = bool(comps) and norm(ex.operand(comps[0][1]["args"][0], (comps[0][0], None))) == ("field", ("arg", 1, "self"), "file_name")
    ok &= rep.check(good, rule, "walks-own-name", where(f, f.span), "components() of self.file_name", "the component walk is over something other than the entry's name")
    rep.floor(rule, 14)
    return ok


def mangle_rules(facts, rep):
    rule = "C06-MANGLE"
    ok = True
    f = facts.one(r"^types::ZipFileData::file_name_sanitized$")
    ex = Ex(f)
    comps = calls_matching(f, r"Path::components$")
    if not comps:
        raise AnchorLost("components() in file_name_sanitized")
    recv = norm(ex.operand(comps[0][1]["args"][0], (comps[0][0], None)))
    rep_calls = [x for x in walk(recv) if x[0] == "call" and x[1].endswith("str>::replace")]
    good = len(rep_calls) == 1
    # the normalisation is unconditional: what is walked IS the replaced string (behind Path::new / deref / as_ref), not "the replaced
    # string or, on some fast path, the name as it came" -- a name that mixes both separators takes the fast path with its `\` intact
    top = recv
    while top[0] == "call" and len(top[2]) >= 1 and re.search(r"Path::new$|Deref::deref$|AsRef<.*>::as_ref$|AsRef::as_ref$|String::as_str$|Borrow::borrow$", top[1]):
        top = top[2][0]
    while top[0] in ("ref", "deref") and len(top) > 1 and isinstance(top[1], tuple):
        top = top[1]
    if good and not (top[0] == "call" and top[1].endswith("str>::replace")):
        good = top is rep_calls[0] or top == rep_calls[0]
    NAME = ("field", ("arg", 1, "self"), "file_name")

    def _cut_by_split(e):
        """`name.split('\\0').next().unwrap_or_default()` (or unwrap / unwrap_or("") / expect: split always yields a first piece) and
        `name.split_once('\\0')` with the name itself as the no-NUL alternative: the part of the name before the first NUL, spelled
        without an index"""
        if e[0] == "call" and re.search(r"Option::<T>::(unwrap_or_default|unwrap|expect|unwrap_or)$", e[1]) and e[2]:
            n_ = e[2][0]
            if n_[0] == "call" and n_[1].endswith("Iterator::next") and n_[2] and n_[2][0][0] == "call" and re.search(r"str>::split$", n_[2][0][1]):
                sp = n_[2][0][2]
                return len(sp) == 2 and sp[0] == NAME and sp[1] == ("const", "char", 0)
        al = alts(e)
        if len(al) == 2 and NAME in al:
            o_ = [x for x in al if x != NAME][0]
            # ok(split_once(name, '\0')).0
            inner = [x for x in walk(o_) if x[0] == "call" and re.search(r"str>::split_once$", x[1])]
            return bool(inner) and inner[0][2][0] == NAME and inner[0][2][1] == ("const", "char", 0) and o_[0] == "field" and o_[2] == "0"
        return False
    if good:
        src = rep_calls[0][2][0]
        if src[0] == "call" and re.search(r"to_string$|to_owned$|String::from$|Into::into$", src[1]) and src[2]:
            src = src[2][0]
        a = alts(src)
        trunc = [x for x in a if x[0] == "call" and x[1].endswith("Index::index")]
        whole = [x for x in a if x == ("field", ("arg", 1, "self"), "file_name")]
        by_split = _cut_by_split(src)
        good = (len(trunc) == 1 and len(whole) == 1) or by_split
        if good and not by_split:
            rng = dict(trunc[0][2][1][3]) if trunc[0][2][1][0] == "agg" else {}
            good = trunc[0][2][0] == ("field", ("arg", 1, "self"), "file_name") and rng.get("start", ("const", "usize", 0)) == ("const", "usize", 0) and \
                set(rng) <= {"start", "end"} and trunc[0][2][1][1] in ("adt:Range", "adt:RangeTo") and rng.get("end") is not None and rng["end"][0] == "ok" and rng["end"][1][0] == "call" and rng["end"][1][1].endswith("str>::find") and \
                rng["end"][1][2][1] == ("const", "char", 0)
        # separator: the *non-main* separator is replaced by the main one
        frm, to = rep_calls[0][2][1], rep_calls[0][2][2]
        import os as _os
        main = ord(_os.sep)
        good = good and {x[2] for x in walk(to) if x[0] == "const" and isinstance(x[2], int)} == {main} and \
            {x[2] for x in walk(frm) if x[0] == "const" and isinstance(x[2], int)} <= {47, 92} and \
            ({47, 92} - {main}) <= {x[2] for x in walk(frm) if x[0] == "const" and isinstance(x[2], int)}
    ok &= rep.check(good, rule, "input", where(f, comps[0][1]["span"]),
                    "components() of: name truncated at the first NUL, with the non-main separator replaced by the main one",
                    "the sanitiser walks %s -- separators must be normalised and the NUL tail cut *before* the component walk" % show(recv)[:200])
    flt0 = calls_matching(f, r"Iterator::filter$")
    fold0 = calls_matching(f, r"Iterator::fold$")
    pushes = calls_matching(f, r"PathBuf::push$")
    if not (flt0 and fold0) and pushes and f.loops():
        # explicit loop form: `for c in components { if let Normal(p) = c { acc.push(p) } }`
        tab = component_table(f)
        ps = paths(f, max_loop=1)
        A_COMP = r"^discr\(ok\(Iterator::next\("
        n_normal = 0
        good = True
        for p in ps:
            kinds = [tab.get(v, v) for a, v in p["decisions"] if a != "#iter" and re.search(A_COMP, a)]
            pu = called(p, r"PathBuf::push$")
            if len(kinds) > 1:
                # two trips: one push per Normal component, none for the others
                good = good and len(pu) == sum(1 for k_ in kinds if k_ == "Normal")
                continue
            if kinds == ["Normal"]:
                n_normal += 1
                okp = len(pu) == 1
                if okp:
                    arg = pu[0][2][1]
                    okp = any(x[0] == "call" and x[1].endswith("Iterator::next") for x in walk(arg)) and \
                        (any(x[0] == "variant" and x[2] == "Normal" for x in walk(arg)) or any(x[0] == "call" and x[1].endswith("as_os_str") for x in walk(arg))) and \
                        not any(x[0] == "call" and not re.search(r"Iterator::next$|Path::components$|as_os_str$|IntoIterator::into_iter$|Path::new$|Deref::deref$|AsRef|str>::replace$|to_string$|Index::index$|str>::find$|str>::split$|str>::split_once$|Option::<T>::(unwrap_or_default|unwrap|expect|unwrap_or)$|String::as_str$", x[1]) for x in walk(arg))
                good = good and okp
            else:
                good = good and not pu
            o = outcome(p)
            # the returned path is the accumulator: PathBuf::new(), or (fold form: acc = step(acc, x)) the loop-carried PathBuf itself
            al_ = alts(o[1]) if o[0] == "value" and o[1] is not None else []
            news_ = [x for x in al_ if x[0] == "call" and x[1].endswith("PathBuf::new")]
            carried_ = [x for x in al_ if x[0] == "local" and (f.local_ty(x[1]) or "").endswith("PathBuf")]
            good = good and len(news_) == 1 and len(news_) + len(carried_) == len(al_)
        good = good and n_normal >= 1
        ok &= rep.check(good, rule, "pipeline", where(f, f.span), "loop over components(): push exactly the Normal components, verbatim, onto an empty PathBuf that is returned",
                        "the sanitiser loop does not push exactly the Normal components onto the returned, initially empty PathBuf")
        # the loop walks the components() iterator
        body_ = set().union(*[b_ for _, b_ in f.loops()]) if f.loops() else set()
        it = [(b_, t_) for b_, t_ in calls_matching(f, r"Iterator::next$") if b_ in body_]      # (a `split(..).next()` outside the loop is the NUL cut)
        good = len(it) == 1 and any(x[0] == "call" and x[1].endswith("Path::components") for x in walk(norm(ex.operand(it[0][1]["args"][0], (it[0][0], None)))))
        ok &= rep.check(good, rule, "filter=Normal", where(f, f.span), "the loop draws from components() only", "the loop does not iterate the components() of the prepared name")
        for k in ("fold=push(as_os_str)", "fold-init", "returns-fold"):
            rep.check(True, rule, k, where(f, f.span), "(loop form: covered by `pipeline`)", "")
    else:
        # filter keeps Normal only
        clos = facts.closures_of(f)
        flt = calls_matching(f, r"Iterator::filter$")
        fold = calls_matching(f, r"Iterator::fold$")
        good = bool(flt and fold) and f.dominates(comps[0][0], flt[0][0]) and f.dominates(flt[0][0], fold[0][0])
        ok &= rep.check(good, rule, "pipeline", where(f, f.span), "components().filter(..).fold(..)", "the sanitiser is no longer components -> filter -> fold")
        c0 = [c for c in clos if c.path.endswith("{closure#0}")]
        c1 = [c for c in clos if c.path.endswith("{closure#1}")]
        if not (c0 and c1):
            raise AnchorLost("filter/fold closures")
        tab = component_table(c0[0])
        ps = paths(c0[0])
        trues = [p for p in ps if p["ret"] == ("const", "bool", 1)]
        good = bool(trues) and all(decided(p, r"^discr\(") is not None and tab.get(decided(p, r"^discr\(")) == "Normal" for p in trues) and \
            all(p["ret"] in (("const", "bool", 1), ("const", "bool", 0)) for p in ps)
        ok &= rep.check(good, rule, "filter=Normal", where(c0[0], c0[0].span), "filter keeps exactly Component::Normal",
                        "the filter keeps %s" % [[(a, tab.get(v, v)) for a, v in p["decisions"]] for p in trues])
        ps1 = paths(c1[0])
        good = len(ps1) == 1 and [e[1].split("::")[-1] for e in ps1[0]["effects"]] == ["as_os_str", "push"] and ps1[0]["ret"] is not None and ps1[0]["ret"][0] == "arg"
        if good:
            push = ps1[0]["effects"][1]
            good = push[2][1][0] == "call" and push[2][1][1].endswith("as_os_str") and push[2][1][2][0][0] == "arg"
        ok &= rep.check(good, rule, "fold=push(as_os_str)", where(c1[0], c1[0].span), "each kept component is pushed verbatim onto the accumulator",
                        "the fold step does %s" % ([e[1] for e in ps1[0]["effects"]] if ps1 else "?"))
        exf = Ex(f)
        init = norm(exf.operand(fold[0][1]["args"][1], (fold[0][0], None))) if fold else None
        ok &= rep.check(init is not None and init[0] == "call" and init[1].endswith("PathBuf::new"), rule, "fold-init", where(f, f.span), "accumulator starts empty",
                        "fold starts from %s" % (show(init) if init else "?"))
        ra = ret_alts(f)
        ok &= rep.check(len(ra) == 1 and ra[0][0] == "call" and ra[0][1].endswith("Iterator::fold"), rule, "returns-fold", where(f, f.span), "returns the folded path", "returns %s" % [show(a)[:60] for a in ra])
    rep.floor(rule, 6)
    return ok


def deleg_rules(facts, rep):
    rule = "C06-DELEG"
    ok = True
    for pat, callee in ((r"^read::ZipFile::<'a>::enclosed_name$", r"ZipFileData::enclosed_name$"),
                        (r"^read::stream::ZipStreamFileMetadata::enclosed_name$", r"ZipFileData::enclosed_name$"),
                        (r"^read::ZipFile::<'a>::mangled_name$", r"ZipFileData::file_name_sanitized$"),
                        (r"^read::stream::ZipStreamFileMetadata::mangled_name$", r"ZipFileData::file_name_sanitized$"),
                        (r"^read::ZipFile::<'a>::sanitized_name$", r"ZipFile::<'a>::mangled_name$")):
        f = facts.one(pat)
        ra = ret_alts(f)
        good = len(ra) == 1 and ra[0][0] == "call" and re.search(callee, ra[0][1]) is not None and \
            all(re.search(callee + r"|Deref::deref$", t["callee"] or "") for _, t in f.calls())
        ok &= rep.check(good, rule, f.path, where(f, f.span), "pure delegation to %s" % callee.rstrip("$"),
                        "%s returns %s" % (f.path, [show(a)[:80] for a in ra]))
    return ok


def run(ctx, rep):
    facts = ctx.facts
    rep.configs.append("default")
    rep.explanation = (
        "Path-enumerated decision table of the validated-path accessor over the atoms (NUL present, iterator exhausted, component kind, "
        "depth underflow): NUL => None; Prefix/RootDir => None; ParentDir => checked depth - 1, None on underflow; Normal => depth + 1; "
        "CurDir => no effect; exhausted => Some(the unmodified name); no other atom may influence the verdict. Sanitiser: walks the "
        "NUL-truncated, separator-normalised name, keeps exactly Component::Normal, pushes each verbatim onto an empty PathBuf. Public "
        "accessors are pure delegations. std::path::Path::components semantics are trusted; non-lexical escapes (symlinks) are out of scope.")
    enclosed_rules(facts, rep)
    mangle_rules(facts, rep)
    deleg_rules(facts, rep)
    rep.assume("std::path::Path::components yields Prefix/RootDir only at the front and splits on the host separator")
