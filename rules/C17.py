"""C17 -- aligned entries are aligned; extra data lands where requested (DESIGN.md §3 C17).

Decides (extra-data clauses): caller-supplied extra data is validated on every path before a byte of it reaches the archive
(C17-VALID); local part only locally, central part only centrally, shared data in both, the patched length field is the right one
(C17-PLACE); the rejection table is the documented one and the reserved-id table covers the ids APPNOTE reserves (C17-TABLE).
Alignment: the arithmetic identity itself is NOT decided (solver family); what is decided is structural -- the padding goes through
the validated extra-data path, the decision to pad and the self-check use the same alignment predicate, and the returned value is
the difference of the two data-start values (C17-ALIGN)."""
import re
import struct

from engine.expr import Ex, norm, show, walk, alts
from engine.intervals import dominating_facts
from engine.mir import AnchorLost, callee_matches
from engine.query import calls_matching, where, ret_alts
from rules.C01 import ZW
from rules.C02 import sib_rules
from rules.C12 import misuse_rules, _flag_assigns
from rules.shared_codec import tokens


def _implicit_close_validates(facts, rep, rule):
    """extra data that is still pending when an entry ends implicitly (next start_*, finish(), drop) goes through end_extra_data -- the
    only place that validates it -- whichever part (local, central-only) is pending: on every path of finish_file that found the
    writer in extra-data mode, end_extra_data is called"""
    from engine.paths import paths as _paths, PathExplosion
    ff = facts.one(ZW + "finish_file$")
    try:
        ps = _paths(ff, max_paths=20000)
    except PathExplosion:
        return bool(rep.check(False, rule, "implicit-close-validates", where(ff, ff.span), "", "finish_file has too many paths to decide (fail closed)"))
    n = bad = 0
    for p_ in ps:
        dec = [v_ for a_, v_ in p_["decisions"] if re.search(r"\.writing_to_extra_field$", a_)]
        if not dec or dec[0] != 1:
            continue
        n += 1
        names = [e_[1] for e_ in p_["effects"]]
        if not any(n_.endswith("end_extra_data") for n_ in names):
            bad += 1
    return bool(rep.check(n >= 1 and bad == 0, rule, "implicit-close-validates", where(ff, ff.span),
                          "finish_file: writing_to_extra_field => end_extra_data()? (local or central-only part alike)",
                          "an entry can be closed implicitly while extra data is pending without end_extra_data being run (%d of %d such paths): the pending part is never validated" % (bad, n)))


def valid_rules(facts, rep):
    rule = "C17-VALID"
    ok = True
    ee = facts.one(ZW + "end_extra_data$")
    va = calls_matching(ee, r"^write::validate_extra_data$")
    wa = calls_matching(ee, r"io::Write::write_all$")
    exits_ok = []
    good = len(va) == 1 and bool(wa) and all(ee.dominates(va[0][0], b) for b, _ in wa)
    # its error is propagated
    if good:
        dest = va[0][1]["dest"]["l"]
        good = any(callee_matches(t, r"Try::branch$") and t["args"][0]["k"] != "const" and t["args"][0]["place"]["l"] == dest for _, t in ee.calls())
    ok &= _implicit_close_validates(facts, rep, rule)
    ok &= rep.check(good, rule, "validate-before-emit", where(ee, ee.span), "validate_extra_data(file)? dominates every write of the extra data", "extra data can reach the archive before (or without) validation")
    ff = facts.one(ZW + "finish_file$")
    e2 = calls_matching(ff, ZW + "end_extra_data$")
    ok &= rep.check(bool(e2), rule, "implicit-end", where(ff, ff.span), "closing an entry ends extra-data mode through the validating path", "finish_file no longer calls end_extra_data for entries left in extra-data mode")
    # extra bytes written by the user go only into file.extra_field while in extra-data mode
    w = facts.one(r"^write::<impl std::io::Write for write::zip_writer::ZipWriter<W>>::write$")
    ex = Ex(w)
    vw = [(b, t) for b, t in w.calls() if t.get("callee") == "std::io::Write::write" and ".extra_field" in tokens(norm(ex.operand(t["args"][0], (b, None))))]
    good = len(vw) == 1
    if good:
        fs = dominating_facts(w, ex, vw[0][0])
        good = any(x[0] == "truth" and x[2] is True and "writing_to_extra_field" in show(x[1]) for x in fs)
    ok &= rep.check(good, rule, "buffered-verbatim", where(w, w.span), "in extra-data mode write() appends the caller's bytes verbatim to the entry's extra_field", "extra data written by the caller is not buffered verbatim in extra_field")
    return ok


def place_rules(ctx, facts, rep):
    rule = "C17-PLACE"
    ok = True
    ee = facts.one(ZW + "end_extra_data$")
    ex = Ex(ee)
    wa = calls_matching(ee, r"io::Write::write_all$")
    good = len(wa) == 1
    if good:
        v = norm(ex.operand(wa[0][1]["args"][1], (wa[0][0], None)))
        fs = dominating_facts(ee, ex, wa[0][0])
        good = ".extra_field" in tokens(v) and any(x[0] == "truth" and x[2] is False and "central" in show(x[1]) for x in fs)
    ok &= rep.check(good, rule, "local-emit-iff-not-central-only", where(ee, ee.span), "extra_field is written after the local header unless in central-only mode", "local emission of extra data is no longer conditional on !central_only")
    # data_start advanced by the emitted length
    adv = False
    for bi, si, s in ee.stmts():
        if s["k"] == "assign" and [p["k"] for p in s["place"]["p"]] == ["deref"] and s["rv"]["k"] == "use":
            e = norm(ex.rvalue(s["rv"], (bi, si)))
            if e[0] == "bin" and e[1] == "Add" and ".extra_field" in tokens(e) and "len()" in tokens(e) and ".data_start" in tokens(e):
                adv = True
    ok &= rep.check(adv, rule, "data_start+=len", where(ee, ee.span), "data_start advanced by the length of the emitted extra data", "data_start is not advanced by the emitted extra data")
    # end_local_start_central_extra_data: clears the field, sets both flags
    el = facts.one(ZW + "end_local_start_central_extra_data$")
    exl = Ex(el)
    clr = [(b, t) for b, t in el.calls() if callee_matches(t, r"Vec::<T, A>::clear$") and ".extra_field" in tokens(norm(exl.operand(t["args"][0], (b, None))))]
    e2 = calls_matching(el, ZW + "end_extra_data$")
    good = len(clr) == 1 and bool(e2) and el.dominates(e2[0][0], clr[0][0]) and \
        any(x[3] == 1 for x in _flag_assigns(el, "writing_to_extra_field")) and any(x[3] == 1 for x in _flag_assigns(el, "writing_to_central_extra_field_only"))
    ok &= rep.check(good, rule, "local-part-not-in-central", where(el, el.span), "after the local part is emitted the buffer is cleared and central-only mode entered",
                    "the local part of the extra data is kept for the central record (or central-only mode is not entered)")
    ok &= sib_rules(ctx, facts, rep) if False else True
    # ending the extra-data phase hands the sink to the entry's compressor on EVERY path that is not central-only -- also when the
    # local part is empty (an aligned entry that needed no padding): the only things that decide here are the two mode flags, the
    # large_file form, validation and I/O results
    from engine.paths import paths as _paths, outcome as _outcome, PathExplosion
    try:
        pz = _paths(ee, max_paths=20000)
    except PathExplosion:
        pz = None
    if pz is not None:
        KNOWN = r"^(mem::(take|replace)\()?self\.writing_to_extra_field(, \w+)?\)?$|^(mem::(take|replace)\()?self\.writing_to_central_extra_field_only(, \w+)?\)?$|\.large_file$|^discr\(Try::branch\(|^discr\(TryInto::try_into\(|^discr\(TryFrom::try_from\(|^discr\(ok\(|^#iter$"
        extra = sorted({a_[:70] for p_ in pz for a_, v_ in p_["decisions"] if not re.search(KNOWN, a_)})
        okp = [p_ for p_ in pz if _outcome(p_)[0] == "Ok"]
        local = [p_ for p_ in okp if any(re.search(r"self\.writing_to_central_extra_field_only", a_) and v_ == 0 for a_, v_ in p_["decisions"])]
        sw = all(any(e_[1].endswith("switch_to") for e_ in p_["effects"]) for p_ in local)
        ok &= rep.check(bool(local) and sw and not extra, rule, "compressor-switched-on-every-local-path", where(ee, ee.span),
                        "every successful non-central-only path switches to the entry's compressor; nothing but the mode flags / large_file / results decides",
                        "end_extra_data %s" % ("also branches on %s" % extra if extra else "has a successful path that leaves the sink in Stored mode for an entry whose header names its own method"))
    return ok


def table_rules(ctx, facts, rep):
    rule = "C17-TABLE"
    ok = True
    spec = ctx.spec("extra_ids.json")
    c = [v for k, v in facts.consts.items() if k.endswith("::EXTRA_FIELD_MAPPING") and v.get("bytes")]
    if not c:
        raise AnchorLost("EXTRA_FIELD_MAPPING")
    raw = bytes(c[0]["bytes"])
    ids = set(struct.unpack("<%dH" % (len(raw) // 2), raw))
    want = set(spec["pkware_4_5_2"]) | set(spec["third_party_4_6_1"]) | set(spec["winzip"])
    missing = sorted(want - ids - set(range(0, spec["pkware_low_range_reserved_upto"] + 1)))
    ok &= rep.check(not missing, rule, "reserved-ids-covered", c[0]["span"], "EXTRA_FIELD_MAPPING (%d ids) covers every header id APPNOTE 4.5.2/4.6.1 reserves (%d)" % (len(ids), len(want)),
                    "reserved header ids missing from EXTRA_FIELD_MAPPING: %s" % [hex(x) for x in missing])
    va = facts.one(r"^write::validate_extra_data$")
    lits = [int(o["v"]) for bi, si, s in va.stmts() if s["k"] == "assign" and s["rv"]["k"] == "binop" and s["rv"]["op"] == "Le" for o in (s["rv"]["a"], s["rv"]["b"]) if o["k"] == "const" and o.get("v") is not None]
    if "unreserved" not in facts.features:
        ok &= rep.check(lits == [spec["pkware_low_range_reserved_upto"]], rule, "low-range", where(va, va.span), "ids 0..=31 reserved", "low reserved range test uses %s" % lits)
    return ok


def _strip_refs(e):
    while e[0] in ("ref", "deref") and len(e) > 1 and isinstance(e[1], tuple):
        e = e[1]
    return e


def align_rules(facts, rep):
    rule = "C17-ALIGN"
    ok = True
    f = facts.one(ZW + "start_file_aligned$")
    ex = Ex(f)
    st = calls_matching(f, ZW + "start_file_with_extra_data$")
    el = calls_matching(f, ZW + "end_local_start_central_extra_data$")
    ee = calls_matching(f, ZW + "end_extra_data$")
    good = len(st) == 1 and len(el) == 1 and len(ee) == 1 and f.dominates(st[0][0], el[0][0]) and f.dominates(st[0][0], ee[0][0])
    ok &= rep.check(good, rule, "through-extra-data-path", where(f, f.span), "padding is emitted through start_file_with_extra_data .. end_extra_data (validated; an un-honourable request is refused there)",
                    "aligned entries no longer go through the validated extra-data path")
    if not good:
        return ok
    # predicate agreement: pad iff align > 1 && data_start % align != 0 ; self-check: final_start % align == 0
    fs = [x for x in dominating_facts(f, ex, el[0][0])]
    gt1 = any(x[0] == "Gt" and "align" in show(x[1]) and x[2][0] == "const" and x[2][2] == 1 for x in fs)
    rem = [x for x in fs if x[0] == "Ne" and x[1][0] == "bin" and x[1][1] == "Rem" and x[2][0] == "const" and x[2][2] == 0]
    pred = bool(rem) and any(y[0] == "call" and y[1].endswith("start_file_with_extra_data") for y in walk(rem[0][1][2])) and "align" in show(rem[0][1][3])
    others = [x for x in fs if x not in rem and not (x[0] == "Gt" and "align" in show(x[1])) and not (x[0] in ("Eq", "Ne") and x[1][0] == "discr")]
    ok &= rep.check(gt1 and pred and not others, rule, "pad-predicate", where(f, el[0][1]["span"]),
                    "padding is added iff align > 1 and data_start % align != 0 -- the same `% align` predicate the self-check asserts",
                    "the decision to pad is taken on %s; the method's own self-check states alignment as `offset %% align == 0`, so the guard must be "
                    "`align > 1 && data_start %% align != 0` (a different predicate skips padding for unaligned offsets)" % [(x[0], show(x[1])[:60]) for x in fs if x[0] != "Eq" or x[1][0] != "discr"])
    asserts = [(b, t) for b, t in f.calls() if callee_matches(t, r"^core::panicking::assert_failed")]
    chk = False
    for b, t in asserts:
        for x in dominating_facts(f, ex, b):
            if x[0] in ("Ne", "Eq") and any(y[0] == "bin" and y[1] == "Rem" and any(z[0] == "call" and z[1].endswith("end_local_start_central_extra_data") for z in walk(y)) for y in walk(x[1])):
                # ... against zero: `offset % align` compared with anything else fails for every correctly padded entry
                chk = x[2][0] in ("const", "named") and x[2][2] == 0
    ok &= rep.check(chk, rule, "self-check", where(f, f.span), "assert_eq!(final data start % align, 0) after padding", "the alignment self-check disappeared")
    # the pad record: id 'za' then u16 length = pad vector length, then the pad
    # (written little-endian either by byteorder's write_u16::<LittleEndian> or as write_all(&(len as u16).to_le_bytes()))
    cands = [norm(ex.operand(t_["args"][1], (b_, None))) for b_, t_ in calls_matching(f, r"WriteBytesExt::write_u16$")]
    for b_, t_ in calls_matching(f, r"io::Write::write_all$"):
        a_ = norm(ex.operand(t_["args"][1], (b_, None)))
        if a_[0] == "call" and a_[1].endswith("::to_le_bytes") and a_[2] and a_[2][0][0] == "cast" and str(a_[2][0][3]) == "u16":
            cands.append(a_[2][0])
    good = len(cands) == 1
    if good:
        v = cands[0]
        good = "len()" in tokens(v) and any(y[0] == "call" and y[1].endswith("from_elem") for y in walk(v))
    ok &= rep.check(good, rule, "pad-record-length", where(f, f.span), "pad record length field = length of the pad", "pad record length is not the pad vector's length")
    # the record is complete: id, length, and then the pad bytes themselves (a record that announces n bytes and carries none is refused
    # by the validation that follows -- every request that needs padding would fail)
    wa = [norm(ex.operand(t_["args"][1], (b_, None))) for b_, t_ in calls_matching(f, r"io::Write::write_all$")]
    good = any(any(y[0] == "call" and y[1].endswith("from_elem") for y in walk(a_)) for a_ in wa) and \
        any("[u8; 2]" in show(a_) or _strip_refs(a_)[0] in ("const", "named") for a_ in wa)         # (the two-byte id, literal or named constant)
    ok &= rep.check(good, rule, "pad-record-complete", where(f, f.span), "write_all(b\"za\"), the length, write_all(&pad)", "the padding record is not written completely (id, length, pad bytes): writes are %s" % [show(a_)[:40] for a_ in wa])
    # the pad length itself: the record costs 4 bytes of header, so the pad must satisfy (data_start + 4 + pad) % align == 0 with
    # 0 <= pad < align.  The expression that sizes the pad vector is reconstructed from the MIR (over `align` and the preliminary data
    # start) and evaluated on a grid of (align, data_start) pairs -- every align in 2..=64 and a few large ones, 300 offsets each;
    # agreement on the grid is taken as the identity of two expressions built from + - % over u64 (stated in the evidence).  A wrong
    # formula does not misalign silently: it trips the self-check above, i.e. start_file_aligned panics for some (align, offset).
    fe = calls_matching(f, r"from_elem$")
    good, why = len(fe) == 1, "no single pad vector"
    if good:
        pv = norm(ex.operand(fe[0][1]["args"][1], (fe[0][0], None)))
        n_eval = 0

        class _Bad(Exception):
            pass

        def ev(e, A, D):
            k = e[0]
            if k == "cast":
                return ev(e[1], A, D)
            if k == "arg" and e[2] == "align":
                return A
            if k in ("const", "named") and isinstance(e[2], int):
                return e[2]
            if k == "ok" and any(y[0] == "call" and y[1].endswith("start_file_with_extra_data") for y in walk(e)):
                return D
            if k == "call" and e[1].endswith("start_file_with_extra_data"):
                return D
            if k == "bin":
                a_, b_ = ev(e[2], A, D), ev(e[3], A, D)
                op = e[1].replace("WithOverflow", "")
                if op == "Add":
                    r_ = a_ + b_
                elif op == "Sub":
                    r_ = a_ - b_
                elif op == "Mul":
                    r_ = a_ * b_
                elif op in ("Rem", "Div"):
                    if b_ == 0:
                        raise _Bad("division by zero")
                    r_ = a_ % b_ if op == "Rem" else a_ // b_
                elif op == "BitAnd":
                    r_ = a_ & b_
                else:
                    raise _Bad("operator %s" % op)
                if r_ < 0 or r_ >= 1 << 64:
                    raise _Bad("leaves u64 at align=%d data_start=%d" % (A, D))
                return r_
            if k == "call" and re.search(r"::(wrapping_sub|wrapping_add)$", e[1]) and len(e[2]) == 2:
                a_, b_ = ev(e[2][0], A, D), ev(e[2][1], A, D)
                return (a_ - b_ if "sub" in e[1] else a_ + b_) % (1 << 64)
            if k == "call" and re.search(r"::rem_euclid$", e[1]) and len(e[2]) == 2:
                return ev(e[2][0], A, D) % ev(e[2][1], A, D)
            raise _Bad("term %s" % show(e)[:50])
        try:
            for A in list(range(2, 65)) + [100, 255, 256, 4096, 32768, 65535]:
                for D in list(range(30, 330)) + [A * 1000 - 1, A * 1000 + 1, (1 << 32) + 5]:
                    if D % A == 0:
                        continue
                    n_eval += 1
                    pad = ev(pv, A, D)
                    if not (0 <= pad < A and (D + 4 + pad) % A == 0):
                        raise _Bad("align=%d, data_start=%d gives a pad of %d: the data would start at %d (%% align = %d)" % (A, D, pad, D + 4 + pad, (D + 4 + pad) % A))
        except _Bad as e_:
            good, why = False, str(e_)
        rep.count("alignment_grid_points", n_eval)
    ok &= rep.check(good, rule, "pad-length-identity", where(f, f.span), "(data_start + 4 + pad) % align == 0 and pad < align at every grid point",
                    "the pad length %s is wrong: %s -- the entry is not aligned (the method's own self-check panics there)" % (show(pv)[:90] if fe else "?", why))
    ra = ret_alts(f)
    good = any(a[0] == "agg" and a[1] == "adt:Ok" and a[3][0][1][0] == "bin" and a[3][0][1][1] == "Sub" and
               any(y[0] == "call" and y[1].endswith("end_extra_data") for y in walk(a[3][0][1][2])) and
               any(y[0] == "call" and y[1].endswith("start_file_with_extra_data") for y in walk(a[3][0][1][3])) for a in ra)
    ok &= rep.check(good, rule, "returns-padding", where(f, f.span), "returns final data start - preliminary data start", "return value is not the difference of the two data starts")
    return ok


def run(ctx, rep):
    facts = ctx.facts
    rep.configs.append("default")
    rep.explanation = (
        "Extra-data path from MIR: validate_extra_data()? dominates every emission; user bytes are buffered verbatim in extra_field while in "
        "extra-data mode; local emission iff not central-only, data_start advanced by the emitted length, the local extra-length field "
        "re-patched at its APPNOTE offset with the header writer's own expression; local part cleared before the central part; central "
        "record carries extra_field after the ZIP64 block (C02 tables); rejection rows and a complete scan of the reserved-id table, "
        "which covers every id APPNOTE reserves. Alignment: only structure (validated path, pad/self-check predicate agreement, pad "
        "record length, return value) and the pad-length identity (data_start + 4 + pad) % align == 0, decided by evaluating the pad "
        "expression reconstructed from the MIR on a grid of (align, offset) pairs.")
    valid_rules(facts, rep)
    place_rules(ctx, facts, rep)
    sib_rules(ctx, facts, rep) if False else None
    from rules.C02 import sib_rules as _sib
    _sib(ctx, facts, rep)
    table_rules(ctx, facts, rep)
    misuse_rules(facts, rep)
    align_rules(facts, rep)
    from rules.C12 import ts_rules
    ts_rules(facts, rep)               # reported as C17/C12-TS
    from rules.C03 import central_rules as _c03central
    _c03central(ctx, facts, rep)       # reported as C17/C03-CENTRAL: the offset the reader reports for an aligned entry: header + 30 + name + (possibly 64 KiB of) extra, in 64 bits
    from rules.C02 import seekabs_rules
    seekabs_rules(facts, rep)          # reported as C17/C02-SEEKABS: the data of an entry with extra data starts where the header says
    from rules.C02 import limit_rules, narrow_rules
    limit_rules(facts, rep)            # reported as C17/C02-LIMIT: the extra-data size guard is the 16-bit field's capacity
    narrow_rules(ctx, facts, rep)      # reported as C17/C02-NARROW: the back-patched extra length is a checked conversion: extra-data mode (local / central-only) belongs to one entry and ends with it
    from rules.C03 import acc_rules
    acc_rules(facts, rep)
    rep.assume("the alignment identity (align - (x + 4) % align) % align is correct modular arithmetic (not machine-checked here)")
