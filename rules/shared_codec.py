"""CODEC-W / CODEC-R: the fixed-width I/O of the record writers and parsers against the APPNOTE tables in /verif/spec."""
import re

from engine.codec import Codec, read_roles, shape
from engine.expr import show, walk
from engine.mir import AnchorLost
from engine.query import where


def tokens(e):
    """leaf tokens of a written value: '.field', 'callee()', CONST_NAME, literal"""
    toks = set()
    for x in walk(e):
        k = x[0]
        if k == "field":
            toks.add("." + str(x[2]))
        elif k == "named":
            toks.add(x[1].split("::")[-1])
            if isinstance(x[2], int):
                toks.add(str(x[2]))
        elif k == "const" and isinstance(x[2], int):
            toks.add(str(x[2]))
        elif k == "call":
            nm = re.sub(r"<[^<>]*>", "", re.sub(r"<[^<>]*>", "", x[1]))
            toks.add(nm.split("::")[-1] + "()")
        elif k == "len":
            toks.add("len()")
        elif k == "discr":
            pass
    return toks


def main_stream_events(seq, fn=None):
    """events on the record's own stream: the parameter of `fn` that carries the most events of this path"""
    if not seq:
        return []
    counts = {}
    for e in seq:
        if e["kind"] in ("r", "w", "rx", "wa"):
            counts[e["stream"]] = counts.get(e["stream"], 0) + 1
    if not counts:
        return []
    params = set()
    if fn is not None:
        params = {fn.local_name(i) for i in range(1, fn.arg_count + 1)}
        params |= {"self.0"}
    cand = {k: v for k, v in counts.items() if k in params} or counts
    best = max(cand.items(), key=lambda kv: kv[1])[0]
    return [e for e in seq if e["stream"] == best]


def writer_table(facts, rep, rule, fn, record, spec, codec=None, tail_optional=()):
    """every success path of `fn` emits the record's fixed fields with the right widths, order and provenance"""
    codec = codec or Codec(facts)
    rec = spec["records"][record]
    seqs = codec.sequences(fn)
    if not seqs:
        raise AnchorLost("no success path with I/O in %s" % fn.path)
    fields = rec["fields"]
    results = {}   # field name -> (ok, detail, where)
    rep.count("codec_paths", len(seqs))
    okall = True
    for seq in seqs:
        evs = [e for e in main_stream_events(seq, fn) if e["kind"] in ("w", "wa")]
        fixed = []
        for e in evs:
            if e["kind"] != "w":
                break
            fixed.append(e)
        # the fixed part ends at the first write_all; spliced callee writes (ZIP64 block) come after the name
        nfix = len(fields)
        ws = [e for e in evs if e["kind"] == "w"]
        head = []
        for e in evs:
            if e["kind"] == "wa":
                break
            head.append(e)
        if len(head) != nfix:
            okall = False
            results["#count"] = (False, "writes %d fixed-width fields before the first variable part, APPNOTE %s has %d (%s)" % (
                len(head), rec["section"], nfix, " ".join(shape(head))), where(fn, fn.span))
            continue
        for fdef, e in zip(fields, head):
            good_w = e["width"] == fdef["w"]
            toks = tokens(e["expr"])
            good_p = any(all(t in toks for t in alt) for alt in fdef["write"]) if fdef["write"] else True
            le = all(re.search(r"LittleEndian", g) for g in e.get("gargs", [])[-1:]) if e["width"] > 1 else True
            prev = results.get(fdef["name"], (True, "", ""))
            good = good_w and good_p and le
            if not good:
                okall = False
                why = []
                if not good_w:
                    why.append("width %d bytes, APPNOTE %s says %d" % (e["width"], rec["section"], fdef["w"]))
                if not good_p:
                    why.append("value %s does not derive from %s" % (show(e["expr"])[:100], " or ".join("+".join(a) for a in fdef["write"])))
                if not le:
                    why.append("not little-endian")
                results[fdef["name"]] = (False, "; ".join(why), where(fn, e["span"]))
            elif prev[0]:
                results[fdef["name"]] = (True, "%d-byte LE field <- %s" % (e["width"], show(e["expr"])[:80]), where(fn, e["span"]))
        # tail: order of the variable parts
        was = [e for e in evs if e["kind"] == "wa"]
        ti = 0
        for tdef in rec["tail"]:
            if tdef.get("writer_omits"):
                continue
            if ti < len(was):
                toks = tokens(was[ti]["expr"])
                if any(all(t in toks for t in alt) for alt in tdef["write"]):
                    if results.get("tail:" + tdef["name"], (True,))[0]:
                        results["tail:" + tdef["name"]] = (True, "variable part <- %s" % show(was[ti]["expr"])[:80], where(fn, was[ti]["span"]))
                    ti += 1
                    continue
            if tdef.get("optional") or tdef["name"] in tail_optional:
                continue
            okall = False
            results["tail:" + tdef["name"]] = (False, "variable part `%s` is not written at its place after the fixed fields (found %s)" % (
                tdef["name"], [show(x["expr"])[:40] for x in was]), where(fn, fn.span))
        if ti < len(was):
            okall = False
            results["tail:#extra"] = (False, "unexpected variable part(s) written: %s" % [show(x["expr"])[:60] for x in was[ti:]], where(fn, was[ti]["span"]))
    for name, (good, detail, w) in results.items():
        rep.check(good, rule, "%s.W.%s" % (record, name), w, detail, "%s writer: %s" % (record, detail))
    return okall


def reader_table(facts, rep, rule, fn, record, spec, codec=None, skip=0, adt_re=None, relax=()):
    """every success path of `fn` consumes the record's fixed fields with the right widths/order and each value reaches the
    semantic field APPNOTE assigns to that position.  `skip`: number of leading fields consumed by the caller (signature)."""
    codec = codec or Codec(facts)
    rec = spec["records"][record]
    seqs = codec.sequences(fn)
    if not seqs:
        raise AnchorLost("no success path with I/O in %s" % fn.path)
    fields = rec["fields"][skip:]
    results = {}
    okall = True
    rolecache = {}

    def roles_of(e):
        f = facts.by_path[e["fn"]]
        if f.path not in rolecache:
            rolecache[f.path] = read_roles(f)
        return rolecache[f.path].get(e["bb"], [])

    rep.count("codec_paths", len(seqs))
    checked_paths = 0
    for seq in seqs:
        evs = [e for e in main_stream_events(seq, fn) if e["kind"] in ("r", "rx")]
        head = [e for e in evs if e["kind"] == "r"]
        # only paths that read the whole fixed part are record parses (a parser may stop early on a non-matching signature)
        if len(head) < len(fields):
            # early, successful exit (e.g. "not this record"): acceptable only if it stops right after the signature
            if len(head) <= 1:
                continue
            okall = False
            results["#count"] = (False, "a success path reads only %d of the %d fixed fields (%s)" % (len(head), len(fields), " ".join(shape(head))), where(fn, fn.span))
            continue
        checked_paths += 1
        for fdef, e in zip(fields, head):
            good_w = e["width"] == fdef["w"]
            le = all(re.search(r"LittleEndian", g) for g in e.get("gargs", [])[-1:]) if e["width"] > 1 else True
            rl = roles_of(e)
            dests = {r[2] for r in rl if r[0] == "field" and (adt_re is None or re.search(adt_re, r[1] or ""))}
            missing = []
            for want in fdef["read"]:
                if want == "-" or fdef["name"] in relax:
                    continue
                if want == "sig":
                    okc = any(r[0] == "cmp" and r[1][0] == "const" and r[1][2] == spec["signatures"][rec["signature"]] for r in rl) or \
                        any(r[0] == "switch" and spec["signatures"][rec["signature"]] in r[1] for r in rl)
                    if not okc:
                        missing.append("compared with %s" % rec["signature"])
                    continue
                w = want.split(":")[-1]
                if w not in dests:
                    missing.append(want)
            good = good_w and le and not missing
            prev = results.get(fdef["name"], (True, "", ""))
            if not good:
                okall = False
                why = []
                if not good_w:
                    why.append("reads %d bytes, APPNOTE %s says %d" % (e["width"], rec["section"], fdef["w"]))
                if not le:
                    why.append("not little-endian")
                if missing:
                    why.append("value does not reach %s (it reaches %s)" % (", ".join(missing), sorted(d for d in dests if d and not d.isdigit()) or "nothing"))
                results[fdef["name"]] = (False, "; ".join(why), where(facts.by_path[e["fn"]], e["span"]))
            elif prev[0]:
                results[fdef["name"]] = (True, "%d-byte LE field -> %s" % (e["width"], ", ".join(sorted(d for d in dests if d and not d.isdigit())) or "(discarded)"),
                                         where(facts.by_path[e["fn"]], e["span"]))
        # variable parts: read_exact order by the field their length came from
        rxs = [e for e in evs if e["kind"] == "rx"]
        order = []
        for e in rxs:
            dest = None
            for x in walk(e["expr"]):
                if x[0] == "call" and len(x) > 4 and re.search(r"read_u16$", x[1]):
                    f = facts.by_path[e["fn"]]
                    if f.path not in rolecache:
                        rolecache[f.path] = read_roles(f)
                    ds = {r[2] for r in rolecache[f.path].get(x[4], []) if r[0] == "field"}
                    # map back through the record: which fixed field was read at that site?
                    for fdef, he in zip(fields, head):
                        if he["bb"] == x[4] and he["fn"] == e["fn"]:
                            dest = fdef["name"]
            order.append(dest)
        want_order = [f["name"] for f in fields if f["name"].endswith("_len")]
        got = [o for o in order if o]
        if got != want_order[:len(got)] or len(got) != len(want_order):
            okall = False
            results["tail:order"] = (False, "variable parts are read in order %s, the record has %s" % (got, want_order), where(fn, fn.span))
        elif results.get("tail:order", (True,))[0]:
            results["tail:order"] = (True, "variable parts read in record order %s" % want_order, where(fn, fn.span))
    if checked_paths == 0:
        raise AnchorLost("no success path of %s reads a whole %s record" % (fn.path, record))
    for name, (good, detail, w) in results.items():
        rep.check(good, rule, "%s.R.%s[%s]" % (record, name, fn.path.split("::")[-1]), w, detail, "%s parser: %s" % (record, detail))
    return okall
