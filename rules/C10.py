"""C10 -- streaming reader agrees with the seekable reader (DESIGN.md §3 C10).

Decides: both readers parse local/central records by the same APPNOTE tables into the same structure (C10-CODEC) and build the
same decoder stack (C10-STACK); entries the stream cannot support are refused before any data is produced (C10-REFUSE); the entry
window is the ZIP64-corrected compressed size and the drain on drop reads that very Take to its end (C10-DRAIN); the visitor
consumes the stream by the archive grammar -- every signature consumed exactly once, files then central records, callbacks once
per record (C10-SEQ)."""
import re

from engine.codec import Codec
from engine.expr import Ex, norm, show, walk, alts
from engine.intervals import dominating_facts
from engine.mir import AnchorLost, callee_matches
from engine.paths import paths, decided, called, outcome
from engine.query import calls_matching, where, find_switch_on, aggregates, ret_alts, single_bit, precedes_on_every_path
from rules.C01 import msdos_arg_order
from rules.shared_codec import reader_table, tokens


def codec_rules(ctx, facts, rep):
    rule = "C10-CODEC"
    spec = ctx.spec("appnote.json")
    c = Codec(facts)
    ok = reader_table(facts, rep, rule, facts.one(r"^read::read_zipfile_from_stream$"), "LFH", spec, c, adt_re=r"ZipFileData")
    ok &= reader_table(facts, rep, rule, facts.one(r"^read::central_header_to_zip_file$"), "CDH", spec, c, adt_re=r"ZipFileData")
    ok &= msdos_arg_order(facts, rep, rule)
    # sibling agreement of the flag bits between the two parsers
    exprs = {}
    for f in (facts.one(r"^read::central_header_to_zip_file_inner$"), facts.one(r"^read::read_zipfile_from_stream$")):
        ex = Ex(f)
        for bi, si, s, flds in aggregates(f, r"types::ZipFileData$"):
            for k in ("encrypted", "using_data_descriptor", "system", "version_made_by", "compression_method", "last_modified_time"):
                e = show(norm(ex.operand(flds[k], (bi, si))))
                exprs.setdefault(k, []).append(e)
    for k, v in exprs.items():
        good = len(v) == 2 and v[0] == v[1]
        ok &= rep.check(good, rule, "sibling:%s" % k, "", "both parsers compute %s identically" % k, "central parser computes %s as %s" % (k, v))
    return ok


def stack_rules(facts, rep):
    rule = "C10-STACK"
    ok = True
    st = facts.one(r"^read::read_zipfile_from_stream$")
    ex = Ex(st)
    mr = calls_matching(st, r"^read::make_reader$")
    mc = calls_matching(st, r"^read::make_crypto_reader$")
    good = len(mr) == 1 and len(mc) == 1 and st.dominates(mc[0][0], mr[0][0])
    ok &= rep.check(good, rule, "stream:crypto-then-decoder", where(st, st.span), "make_crypto_reader then make_reader, like the seekable reader",
                    "the streaming constructor no longer builds its reader through make_crypto_reader + make_reader")
    if good:
        cr = norm(ex.operand(mr[0][1]["args"][2], (mr[0][0], None)))
        ok &= rep.check(any(x[0] == "call" and x[1] == "read::make_crypto_reader" for x in walk(cr)), rule, "stream:reader-arg", where(st, mr[0][1]["span"]),
                        "make_reader wraps the crypto reader just built", "make_reader is given %s" % show(cr)[:100])
        tk = norm(ex.operand(mc[0][1]["args"][4], (mc[0][0], None)))
        ok &= rep.check(tk[0] == "call" and tk[1].endswith("Read::take"), rule, "stream:take-arg", where(st, mc[0][1]["span"]),
                        "crypto reader wraps the Take over the stream", "make_crypto_reader is given %s" % show(tk)[:100])
    # the ZipFile handed out owns its data (Cow::Owned) so that Drop drains it
    for bi, si, s, flds in aggregates(st, r"^read::ZipFile$"):
        d = norm(ex.operand(flds["data"], (bi, si)))
        ok &= rep.check(d[0] == "agg" and d[1] == "adt:Owned", rule, "stream:owned-data", where(st, s["span"]), "streamed entries own their metadata (drain on drop applies)",
                        "streamed ZipFile is built with data = %s" % show(d)[:60])
    return ok


def refuse_rules(facts, rep):
    rule = "C10-REFUSE"
    ok = True
    st = facts.one(r"^read::read_zipfile_from_stream$")
    ex = Ex(st)
    tk = calls_matching(st, r"io::Read::take$")
    if not tk:
        raise AnchorLost("Take in read_zipfile_from_stream")
    fs = dominating_facts(st, ex, tk[0][0])
    enc = [x for x in fs if x[0] in ("Ne", "Eq") and any(y[0] == "bin" and y[1] == "BitAnd" and y[3] == ("const", "u16", 1) for y in walk(x[1]))]
    dd = [x for x in fs if x[0] in ("Ne", "Eq") and any(y[0] == "bin" and y[1] == "BitAnd" and single_bit(y[3]) == 3 for y in walk(x[1]))]
    # encrypted = (flags & 1 == 1) must be false: fact Ne(flags&1, 1); dd = (flags & 8 != 0) must be false: fact Eq(flags&8, 0)
    good_e = any((x[0] == "Ne" and x[2][2] == 1) or (x[0] == "Eq" and x[2][2] == 0) for x in enc)       # "bit 0 is clear", either spelling
    good_d = any(x[0] == "Eq" and x[2][2] == 0 for x in dd)
    ok &= rep.check(good_e, rule, "encrypted-refused", where(st, tk[0][1]["span"]), "flag bit 0 set => error before the entry window is created",
                    "encrypted local entries are not refused before the reader is built")
    ok &= rep.check(good_d, rule, "data-descriptor-refused", where(st, tk[0][1]["span"]), "flag bit 3 set => error before the entry window is created",
                    "data-descriptor entries (sizes unknown) are not refused before the reader is built")
    # the refusals are errors
    errs = [a for a in ret_alts(st) if (a[0] == "call" and a[1].endswith("unsupported_zip_error")) or
            (a[0] == "agg" and a[1] == "adt:Err" and any(x[0] == "agg" and x[1] == "adt:UnsupportedArchive" for x in walk(a)))]
    ok &= rep.check(len(errs) >= 2, rule, "refusals-are-errors", where(st, st.span), "both refusals return UnsupportedArchive", "refusals no longer return an error")
    return ok


def drain_rules(facts, rep):
    rule = "C10-DRAIN"
    ok = True
    st = facts.one(r"^read::read_zipfile_from_stream$")
    ex = Ex(st)
    tk = calls_matching(st, r"io::Read::take$")
    pe = calls_matching(st, r"^read::parse_extra_field$")
    # the limit must be loaded from the metadata structure *after* the extra field (ZIP64) has been applied
    lim = tk[0][1]["args"][1]
    good = False
    detail = "limit operand is not a field load"
    if lim["k"] != "const":
        defs = [(bi, si, s) for bi, si, s in st.stmts() if s["k"] == "assign" and s["place"]["l"] == lim["place"]["l"] and not s["place"]["p"]]
        for bi, si, s in defs:
            rv = s["rv"]
            if rv["k"] == "use" and rv["op"]["k"] in ("copy", "move"):
                fp = [p for p in rv["op"]["place"]["p"] if p["k"] == "field"]
                if fp and fp[-1]["n"] == "compressed_size" and "ZipFileData" in (fp[-1].get("adt") or ""):
                    good = bool(pe) and (st.dominates(pe[0][0], bi) or precedes_on_every_path(st, pe[0][0], bi) is True)
                    detail = "compressed_size loaded %s parse_extra_field" % ("after" if good else "BEFORE")
    ok &= rep.check(good, rule, "window=zip64-corrected-size", where(st, tk[0][1]["span"]),
                    "entry window = result.compressed_size read after the ZIP64 extra field was applied",
                    "the entry window is taken from the 32-bit header value (%s): large_file/ZIP64 entries get a 0xFFFFFFFF window" % detail)
    # ... and so is the method the decoder is chosen by: the AE-x record replaces method 99 by the real one, so the value must be read
    # from the metadata structure after the extra field was applied (the header local still says 99: make_reader's fall-through panics)
    for callee, argi, key in ((r"^read::make_reader$", 0, "decoder-method"), (r"^read::make_crypto_reader$", 0, "crypto-method")):
        cs = calls_matching(st, callee)
        if not cs:
            continue
        op = cs[0][1]["args"][argi]
        good, detail = False, "method operand is not a field load"
        if op["k"] != "const":
            cur, hops = {op["place"]["l"]}, 0
            while hops < 4:
                nxt = {s["rv"]["op"]["place"]["l"] for _, _, s in st.stmts() if s["k"] == "assign" and s["place"]["l"] in cur and not s["place"]["p"] and s["rv"]["k"] == "use"
                       and s["rv"]["op"]["k"] in ("copy", "move") and not s["rv"]["op"]["place"]["p"]}
                if not nxt - cur:
                    break
                cur |= nxt
                hops += 1
            for bi, si, s in st.stmts():
                if s["k"] == "assign" and s["place"]["l"] in cur and not s["place"]["p"] and s["rv"]["k"] == "use" and s["rv"]["op"]["k"] in ("copy", "move"):
                    fp = [p for p in s["rv"]["op"]["place"]["p"] if p["k"] == "field"]
                    if fp and fp[-1]["n"] == "compression_method" and "ZipFileData" in (fp[-1].get("adt") or ""):
                        good = bool(pe) and (st.dominates(pe[0][0], bi) or precedes_on_every_path(st, pe[0][0], bi) is True)
                        detail = "compression_method loaded %s parse_extra_field" % ("after" if good else "BEFORE")
        ok &= rep.check(good, rule, "%s=method-after-extra-field" % key, where(st, cs[0][1]["span"]),
                        "the method handed on is result.compression_method read after the extra field was applied",
                        "the streaming reader hands on the method as found in the fixed header (%s): an AE-x entry keeps method 99" % detail)
    # into_inner arms unwrap, never re-create
    for pat in (r"^read::ZipFileReader::<'a>::into_inner$", r"^read::CryptoReader::<'a>::into_inner$"):
        f = facts.one(pat)
        good = not calls_matching(f, r"io::Read::take$") and all(a[0] in ("call", "variant", "field") for a in ret_alts(f))
        ok &= rep.check(good, rule, "%s-unwraps" % f.path.split("::")[1].split("<")[0], where(f, f.span), "returns the wrapped Take by unwrapping the layers",
                        "%s builds a new Take instead of returning the one that bounds the entry" % f.path)
    # Drop: owned data => loop until Ok(0); nothing else ends the loop except an error
    dr = facts.method(r"^read::ZipFile<", "drop", r"std::ops::Drop")
    exd = Ex(dr)
    loops = dr.loops()
    good = len(loops) == 1
    if good:
        h, body = loops[0]
        reads = [(b, t) for b, t in dr.calls() if b in body and t.get("callee") == "std::io::Read::read"]
        good = len(reads) == 1
        # path form (independent of how the loop is spelled): in the iteration in which the function leaves the loop, the read
        # either failed or returned 0; a read that returned data is always followed by another trip round the loop
        A_RD, A_N = r"^discr\(Read::read\(", r"^ok\(Read::read\("
        bad_exits, cont, zero_exit = [], 0, 0
        for p in paths(dr, max_loop=1):
            segs, cur = [], []
            for (a_, v_), pos_ in zip(p["decisions"], p["dpos"]):
                if a_ == "#iter":
                    segs.append(cur)
                    cur = []
                elif pos_ < len(p["blocks"]) and p["blocks"][pos_] in body:      # decisions taken inside the loop only
                    cur.append((a_, v_))
            segs.append(cur)
            rsegs = [sg for sg in segs if any(re.search(A_RD, a_) or re.search(A_N, a_) for a_, _ in sg)]
            if not rsegs:
                continue
            for sg in rsegs[:-1]:
                if any(re.search(A_N, a_) and v_ != 0 for a_, v_ in sg):
                    cont += 1
            last = rsegs[-1]
            failed = any(re.search(A_RD, a_) and v_ != 0 for a_, v_ in last)
            zero = any(re.search(A_N, a_) and v_ == 0 for a_, v_ in last)
            extra = [a_ for a_, _ in last if not (re.search(A_RD, a_) or re.search(A_N, a_))]
            if zero:
                zero_exit += 1
            if not (failed or zero) or extra:
                bad_exits.append(last)
        other = bad_exits
        exits = bad_exits
        good = good and zero_exit >= 1 and cont >= 1 and not bad_exits
        ok &= rep.check(good, rule, "drain-until-eof", where(dr, dr.span), "the drain loop ends only at Ok(0) (or on an error)",
                        "the drain loop of Drop for ZipFile can end on %s: a short read leaves the stream inside the entry" % (other or "no Ok(0) exit / no continuation"))
        # what is drained is the inner Take obtained through into_inner
        if reads:
            recv = norm(exd.operand(reads[0][1]["args"][0], (reads[0][0], None)))
            good2 = all(a[0] == "call" and a[1].endswith("into_inner") for a in alts(recv))
            ok &= rep.check(good2, rule, "drains-inner-take", where(dr, reads[0][1]["span"]), "drains the raw Take (decoders bypassed)",
                            "the drain reads from %s" % show(recv)[:100])
    else:
        ok = False
        rep.violation(rule, "drain-until-eof", where(dr, dr.span), "Drop for ZipFile no longer contains exactly one drain loop")
    fs = find_switch_on(dr, lambda d: d[0] == "discr" and d[1][0] == "field" and d[1][2] == "data")
    ok &= rep.check(bool(fs), rule, "drain-iff-owned", where(dr, dr.span), "drain only for streamed (Cow::Owned) entries", "the Owned/Borrowed distinction disappeared")
    # ... and for EVERY streamed entry: what has to be skipped is the compressed payload, whose length no metadata test can stand in
    # for (an empty entry still has a non-empty deflate stream) -- a path that leaves drop() for an Owned entry without having
    # read from the stream leaves the stream inside the entry
    skipped, owned = [], 0
    for p in paths(dr, max_loop=1):
        dv = [v_ for a_, v_ in p["decisions"] if a_ != "#iter" and re.search(r"^discr\(self\.data\)$", a_)]
        if not dv or dv[0] != 1 or p["end"] != "return":
            continue
        owned += 1
        if not any(e[1] == "std::io::Read::read" for e in p["effects"]):
            skipped.append([(a_[:40], v_) for a_, v_ in p["decisions"] if not a_.startswith("discr(self.data")][:3])
    ok &= rep.check(owned >= 1 and not skipped, rule, "drain-every-owned", where(dr, dr.span), "every path of drop() for a streamed entry reads the stream (until Ok(0))",
                    "drop() can return for a streamed entry without draining it (path decided by %s): the stream stays inside the entry's "
                    "compressed payload and the next header is misparsed" % (skipped[:2] or "no Owned path found"))
    return ok


def seq_rules(facts, rep):
    rule = "C10-SEQ"
    ok = True
    v = facts.one(r"^read::stream::ZipStreamReader::<R>::visit$")
    ps = [p for p in paths(v, max_loop=1) if outcome(p)[0] == "Ok"]
    rep.count("visit_success_paths", len(ps))
    if not ps:
        raise AnchorLost("no successful path through visit()")
    A_F = r"^discr\(ok\(read::read_zipfile_from_stream"
    A_P = r"^discr\(ok\(ZipStreamReader::parse_central_directory"
    bad = []
    for p in ps:
        dF = [val for a, val in p["decisions"] if re.search(A_F, a)]
        dP = [val for a, val in p["decisions"] if re.search(A_P, a)]
        toks = []
        iF = iP = 0
        for bb, callee, args in p["effects"]:
            if callee == "read::read_zipfile_from_stream":
                toks.append("F_some" if iF < len(dF) and dF[iF] == 1 else "F_none")
                iF += 1
            elif callee.endswith("parse_central_directory"):
                toks.append("P_some" if iP < len(dP) and dP[iP] == 1 else "P_none")
                iP += 1
            elif callee == "read::central_header_to_zip_file_inner":
                toks.append("BODY")
            elif callee.endswith("ZipStreamVisitor::visit_file"):
                toks.append("cb_file")
            elif callee.endswith("ZipStreamVisitor::visit_additional_metadata"):
                toks.append("cb_meta")
        s = " ".join(toks)
        # grammar: (F_some cb_file)* F_none BODY cb_meta (P_some cb_meta)* P_none
        if not re.fullmatch(r"(F_some cb_file )*F_none BODY cb_meta (P_some cb_meta )*P_none", s):
            bad.append(s)
    good = not bad
    ok &= rep.check(good, rule, "stream-grammar", where(v, v.span),
                    "every successful path: (local entry, visit_file)* ; central signature consumed by the entry reader ; body of that record ; "
                    "visit_additional_metadata ; (signature+record, visit_additional_metadata)* ; terminating signature",
                    "visit() consumes the stream as [%s]: the central-header signature eaten when the entry reader reports the end of entries "
                    "must be followed by that record's body (not by another signature read), and each record must reach its callback exactly once" % "; ".join(sorted(set(bad))[:3]))
    # the building blocks: read_zipfile_from_stream's None path reads exactly the 4-byte signature;
    st = facts.one(r"^read::read_zipfile_from_stream$")
    c = Codec(facts)
    seqs = c.sequences(st)
    short = [s for s in seqs if len([e for e in s if e["kind"] in ("r", "rx")]) == 1]
    good = bool(short) and all([e for e in s if e["kind"] == "r"][0]["width"] == 4 for s in short)
    ok &= rep.check(good, rule, "end-of-entries-consumes-signature-only", where(st, st.span), "Ok(None) is returned after reading only the 4-byte signature",
                    "the entry reader's end-of-entries path reads more or less than the signature")
    # dispatch table over the first 4 bytes, however it is spelled (match / if chain)
    LFH, CDH = 67324752, 33639248
    A_SIG = r"^ok\(ReadBytesExt::read_u32\(reader\)\)$"
    rows = {"local": [], "central": [], "other": []}
    for p in paths(st):
        eq, excl = None, set()
        for a_, v_ in p["decisions"]:
            if a_ != "#iter" and re.search(A_SIG, a_):
                if isinstance(v_, tuple):
                    excl |= set(v_[1])
                elif eq is None:
                    eq = v_
        o = outcome(p)
        nreads = len([e for e in p["effects"] if re.search(r"ReadBytesExt::read_|Read::read_exact$", e[1])])
        if eq == CDH:
            rows["central"].append(o[0] == "Ok" and o[1] is not None and o[1][0] == "agg" and o[1][1] == "adt:None" and nreads == 1)
        elif eq == LFH:
            rows["local"].append(nreads > 1 or o[0] in ("Err", "ErrProp"))
        elif eq is None and {LFH, CDH} <= excl:
            rows["other"].append(o[0] == "Err" and nreads == 1)
        elif eq is None and not excl and nreads <= 1:
            continue        # the signature read itself failed
        else:
            rows["other"].append(False)
    good = all(rows[k] and all(rows[k]) for k in rows)
    ok &= rep.check(good, rule, "signature-dispatch", where(st, st.span), "local signature => entry, central signature => end of entries, else error",
                    "entry reader no longer dispatches local => entry / central => Ok(None) / anything else => error (%s)" % {k: (len(v), all(v)) for k, v in rows.items()})
    pc = facts.one(r"^read::stream::ZipStreamReader::<R>::parse_central_directory$")
    # dispatch of the directory walker: central signature => record; ANY other signature ends the directory cleanly (what follows the
    # records is the classic end record, or the ZIP64 end record + locator in a large archive -- none of them is an error)
    rowsc = {"central": [], "other": []}
    for p in paths(pc):
        eq, excl = None, set()
        for a_, v_ in p["decisions"]:
            if a_ != "#iter" and re.search(r"^ok\(ReadBytesExt::read_u32\(", a_):
                if isinstance(v_, tuple):
                    excl |= set(v_[1])
                elif eq is None:
                    eq = v_
        o = outcome(p)
        body = any(e[1].endswith("central_header_to_zip_file_inner") for e in p["effects"])
        nreads = len([e for e in p["effects"] if re.search(r"ReadBytesExt::read_|Read::read_exact$", e[1])])
        if eq == CDH:
            rowsc["central"].append(body)
        elif eq is None and not excl and nreads <= 1 and o[0] in ("Err", "ErrProp"):
            continue        # the signature read itself failed
        else:
            rowsc["other"].append((eq is not None or CDH in excl) and not body and o[0] == "Ok" and o[1] is not None and o[1][0] == "agg" and o[1][1] == "adt:None" and nreads == 1)
    good = all(rowsc[k] and all(rowsc[k]) for k in rowsc)
    ok &= rep.check(good, rule, "central-dispatch", where(pc, pc.span), "central signature => record, every other signature => Ok(None) (end of the directory)",
                    "the directory walker no longer ends cleanly on every non-central signature (%s): an archive whose records are followed by the ZIP64 "
                    "end record is reported as damaged after all entries were delivered" % {k: (len(v), all(v)) for k, v in rowsc.items()})
    seqs = c.sequences(pc)
    full = [s for s in seqs if len([e for e in s if e["kind"] == "r"]) > 1]
    good = bool(full) and all([e for e in s if e["kind"] == "r"][0]["width"] == 4 for s in full) and bool(calls_matching(pc, r"central_header_to_zip_file_inner$"))
    ok &= rep.check(good, rule, "parse_central_directory=sig+body", where(pc, pc.span), "reads a signature, then the record body through the shared parser",
                    "parse_central_directory no longer reads signature + body")
    return ok


def _char_consts(facts, f):
    """character constants a function (its closures and inlined helpers) compares its input with"""
    out = set()
    for g in [f] + facts.closures_of(f):
        for b, si2, s2 in g.stmts():
            if s2["k"] == "assign" and s2["rv"]["k"] == "binop" and s2["rv"]["op"] in ("Eq", "Ne"):
                for o in (s2["rv"]["a"], s2["rv"]["b"]):
                    if o["k"] == "const" and o.get("ty") == "char" and o.get("v") is not None:
                        out.add(int(o["v"]))
        for b, t2 in g.calls():
            for a in t2["args"]:
                if a["k"] == "const" and a.get("ty") == "char" and a.get("v") is not None:
                    out.add(int(a["v"]))
        for b in range(len(g.blocks)):
            t2 = g.term(b)
            if t2 and t2["k"] == "switch" and t2.get("dty") == "char":
                out |= {int(v) for v, _ in t2["targets"]}
    return out


def _is_dir_table(g, facts=None, as_char_pred=False):
    """-> (ok, why): the boolean the accessor returns for each class of last character, read off every return path"""
    from engine import sym
    if facts is not None and not as_char_pred:
        # `name.ends_with(|c| c == '/' || c == '\\')` / `name.ends_with(&['/', '\\'][..])`: the last character is tested by a pattern
        ew = [t for _, t in g.calls() if re.search(r"str>::ends_with$", t.get("callee") or "")]
        if len(ew) == 1 and len([1 for _, t in g.calls() if not re.search(r"::name$|Deref::deref$|as_str$|AsRef", t.get("callee") or "")]) == 1 and not g.loops():
            clo = facts.closures_of(g)
            if len(clo) == 1:
                return _is_dir_table(clo[0], None, as_char_pred=True)
            consts = {x[2] for t_ in [ew[0]] for a_ in t_["args"][1:] for x in _walk_sym(norm(Ex(g).operand(a_, (0, None)))) if isinstance(x, tuple) and x and x[0] == "const" and isinstance(x[2], int)}
            if consts == {47, 92}:
                return True, ""
    S = sym.Sym(g, max_paths=5000)
    S._returns = []
    try:
        S.run(lambda bb, t: False)
        rets = S._returns
    except sym.SymTooComplex:
        return False, "too many paths"
    finally:
        S._returns = None
    if not rets:
        return False, "no return path"

    def is_char(d):
        # the character drawn from the name: payload of the iterator's answer / of `last()` / of `chars().next_back()`
        if as_char_pred:
            return d[0] != "discr" and d[0] != "bin" and any(isinstance(x, tuple) and x and x[0] == "arg" for x in _walk_sym(d))
        return any(isinstance(x, tuple) and x and x[0] == "call" and re.search(r"Iterator::next$|next_back$|Iterator::last$|str>::ends_with$", x[1]) for x in _walk_sym(d)) and d[0] != "discr"
    explicit = {}
    for r in rets:
        for d, v in r["conds"]:
            if is_char(d) and d[0] != "bin" and v is not None:
                explicit.setdefault(d, set()).add(v)
    for cv, want in ((47, True), (92, True), (97, False), (0x5C + 1, False)) + (() if as_char_pred else ((None, False),)):
        hit = []
        for r in rets:
            okp = True
            for d, v in r["conds"]:
                if d[0] == "discr":
                    if v is None:
                        # the `otherwise` edge of a test of an Option's discriminant: the variant the explicit edges do not name
                        ex_ = {v2 for r2 in rets for d2, v2 in r2["conds"] if d2 == d and v2 is not None}
                        some = (ex_ == {0})
                    else:
                        some = (v != 0)
                    if (cv is None) == some:
                        okp = False
                elif cv is None:
                    okp = False
                elif d[0] == "bin" and d[1] in ("Eq", "Ne") and d[3][0] == "const":
                    truth = (cv == d[3][2]) == (d[1] == "Eq")
                    if truth != ((v is None) or v != 0):
                        okp = False
                elif is_char(d):
                    if v is None:
                        if cv in explicit.get(d, ()):
                            okp = False
                    elif v != cv:
                        okp = False
                else:
                    return False, "a decision on something else than the last character"
            if okp:
                hit.append(r)
        if len(hit) != 1:
            return False, "%d paths for a last character %r" % (len(hit), chr(cv) if cv else None)
        v = hit[0]["ret"]
        if v[0] == "const":
            got = bool(v[2])
        elif v[0] == "bin" and v[1] in ("Eq", "Ne") and v[3][0] == "const" and cv is not None:
            got = (cv == v[3][2]) == (v[1] == "Eq")
        else:
            return False, "returns %s" % sym.show(v)[:60]
        if got != want:
            return False, "a name ending in %r is%s reported as a directory" % (chr(cv) if cv else "(empty name)", "" if got else " not")
    return True, ""


def _walk_sym(v):
    yield v
    if isinstance(v, tuple):
        for x in v:
            if isinstance(x, tuple):
                yield from _walk_sym(x)


def accessor_sibling_rules(facts, rep, rule="C10-SEQ"):
    """the metadata the two readers hand out answers derived questions the same way: `is_dir()` of the seekable reader's ZipFile and of
    the streaming reader's metadata both treat a trailing '/' or '\\' as a directory (is_file() is its negation in both)"""
    ok = True
    a = facts.one(r"^read::ZipFile::<'a>::is_dir$")
    b = facts.one(r"^read::stream::ZipStreamFileMetadata::is_dir$")
    ca, cb = _char_consts(facts, a), _char_consts(facts, b)
    ok &= rep.check(ca == cb == {47, 92}, rule, "sibling:is_dir", where(b, b.span), "both is_dir() accessors test '/' and '\\'",
                    "ZipFile::is_dir tests %s, ZipStreamFileMetadata::is_dir tests %s: the two readers disagree on which entries are directories" % (sorted(map(chr, ca)), sorted(map(chr, cb))))
    # ... and the predicate itself, decided on the value flow (E9): for a last character '/', '\\', any other one, and for the empty name
    for nm, g in (("ZipFile", a), ("ZipStreamFileMetadata", b)):
        good, why = _is_dir_table(g, facts)
        ok &= rep.check(good, rule, "is_dir-table:%s" % nm, where(g, g.span), "is_dir() <=> the name's last character is '/' or '\\' (false for an empty name)",
                        "%s::is_dir does not answer `last character is a separator`: %s" % (nm, why))
    for nm, pat in (("ZipFile", r"^read::ZipFile::<'a>::is_file$"), ("ZipStreamFileMetadata", r"^read::stream::ZipStreamFileMetadata::is_file$")):
        g = facts.one(pat)
        calls = [t["callee"].split("::")[-1] for _, t in g.calls()]
        ok &= rep.check(calls == ["is_dir"], rule, "is_file=!is_dir:%s" % nm, where(g, g.span), "is_file() is !is_dir()", "%s::is_file calls %s" % (nm, calls))
    return ok


def extra_tolerance_rules(facts, rep, rule="C10-EXTRA"):
    """Both parsers treat a failing extra-field parse the same way: an I/O error (a truncated or padded extra area, as zipalign
    leaves behind) is tolerated and the record is still delivered; any other error is returned.  If only one of them gave up on
    such a record the two readers would disagree about the archive."""
    from engine.query import enum_variants
    ok = True
    zv = {n: k for k, n in enum_variants(facts, "result::ZipError").items()}
    io = zv.get("Io")
    A_RES = r"^discr\(read::parse_extra_field\("
    A_ERR = r"^discr\(err\(read::parse_extra_field\("
    for pat in (r"^read::read_zipfile_from_stream$", r"^read::central_header_to_zip_file_inner$"):
        f = facts.one(pat)
        if not calls_matching(f, r"^read::parse_extra_field$"):
            raise AnchorLost("parse_extra_field call in %s" % f.path)
        ps = paths(f)
        tolerated = propagated = 0
        bad = []
        for p in ps:
            ds = [(a, v) for a, v in p["decisions"] if a != "#iter"]
            idx = [i for i, (a, v) in enumerate(ds) if re.search(A_ERR, a)]
            if decided(p, A_RES) != 1 or not idx:
                continue
            v = ds[idx[0]][1]
            o = outcome(p)
            if v == io:
                # goes on: something is decided after it, or the path ends in success
                if [a for a, _ in ds[idx[0] + 1:] if not (re.search(A_RES, a) or re.search(A_ERR, a))] or o[0] == "Ok":
                    tolerated += 1
                else:
                    bad.append("Io error ends the parse")
            else:
                later = [a for a, _ in ds[idx[0] + 1:] if not (re.search(A_RES, a) or re.search(A_ERR, a))]   # re-tests of the same result (drop elaboration) decide nothing
                if o[0] in ("Err", "ErrProp") and not later and any(x[0] == "call" and x[1].endswith("parse_extra_field") for x in walk(o[1])):
                    propagated += 1
                else:
                    bad.append("a non-I/O extra-field error is swallowed")
        good = tolerated >= 1 and propagated >= 1 and not bad and io is not None
        ok &= rep.check(good, rule, "extra-error-policy@%s" % f.path.split("::")[-1], where(f, f.span),
                        "parse_extra_field: Err(Io) tolerated, other errors returned",
                        "%s no longer tolerates an I/O error of the extra-field parse while returning the others (%s; tolerated paths=%d, returning paths=%d): "
                        "the streaming and the seekable reader then disagree on archives with a padded/truncated extra area" % (f.path, "; ".join(sorted(set(bad))) or "shape changed", tolerated, propagated))
    return ok


def run(ctx, rep):
    facts = ctx.facts
    rep.configs.append("default")
    rep.explanation = (
        "Streaming vs seekable reader, structurally: same APPNOTE tables and identical field expressions in both parsers; same decoder "
        "stack; encrypted / data-descriptor entries refused before the entry window exists; window = ZIP64-corrected compressed size; "
        "Drop drains the unwrapped Take until Ok(0) and nothing else ends the loop; path-enumerated token accounting of visit(): each "
        "signature consumed once, the record whose signature the entry reader ate is parsed body-only, callbacks once per record in "
        "order. Equality of delivered contents over all archives/consumption patterns is not decided.")
    codec_rules(ctx, facts, rep)
    stack_rules(facts, rep)
    refuse_rules(facts, rep)
    drain_rules(facts, rep)
    seq_rules(facts, rep)
    accessor_sibling_rules(facts, rep)
    extra_tolerance_rules(facts, rep)
    from rules.shared_zip64 import pair_rules
    pair_rules(ctx, facts, rep, rule="C10-Z64", side="read")      # a streamed large_file entry's window is the ZIP64 compressed size, read in APPNOTE order
    from rules.C19 import flag_decode_rules
    flag_decode_rules(facts, rep)      # reported as C10/C19-FLAG: the stream's local-header parser picks the name decoder by bit 11 exactly as the central parser does
    rep.floor("C10-EXTRA", 2)
    rep.floor("C10-CODEC", 30)
    rep.floor("C10-DRAIN", 5)
    rep.floor("C10-SEQ", 4)
