"""E6 applied to ZipWriter: the reachable abstract states of EVERY sequence of writer calls (legal or not), computed from the MIR of
/repo's current tree by engine/typestate.py, and the obligations the property states checked on all of them.

Abstract state = (writing_to_file, writing_to_extra_field, writing_to_central_extra_field_only, writing_raw: bool;
                  inner: variant of GenericZipWriter with the MaybeEncrypted variant inside Storer / a compressor;
                  files: empty | nonempty; stats.hasher: fresh | dirty; stats.bytes_written: zero | dirty).
Initial states: what `ZipWriter::new` / `new_append` return (read off their MIR).  Alphabet: every public method of ZipWriter,
`impl Write` (write, flush) and `Drop`.  The experimental encryption option is admitted for `start_file` only (the property's
quantifier: "the experimental encryption option is exercised only with start_file+write").

Obligations (rule C12-TSX):
  panic         no call panics in any reachable state on a branch decided by the object's state (get_plain / unwrap / unreachable! /
                files.last().unwrap()): the typestate assertions are dead code for every call sequence
  P1            write() with no file open (before any file, after a directory or symlink, after finish) never succeeds
  P2            a successful add_directory / add_symlink leaves no file open
  P3            end_extra_data / end_local_start_central_extra_data outside extra-data mode never succeed
  P4            after a successful finish() the writer is closed and no entry-creating call or write succeeds on a closed writer
  P5            a successful start_file* leaves a file open, not raw, with fresh per-entry accounting, on a live sink, files non-empty
  P6/P8         a successful add_* / raw copy leaves files non-empty; add_* consume the raw flag
  INV           extra-data mode (local part) implies a plain stored sink; central-only implies extra-data mode; an open file or
                extra-data mode implies a current entry
"""
import re
import time

from engine.typestate import Machine, Spec, explore, trace, show_state, outcome_of, Unsupported, TooComplex, TOP, C, VAR, TAG
from engine.query import where

ZWT = "write::zip_writer::ZipWriter"
TRACKED = {("writing_to_file",): "bool", ("writing_to_extra_field",): "bool", ("writing_to_central_extra_field_only",): "bool", ("writing_raw",): "bool",
           ("inner",): "enum", ("files",): "vec", ("stats", "hasher"): "fresh", ("stats", "bytes_written"): "zero"}
ORDER = [("writing_to_file",), ("writing_to_extra_field",), ("writing_to_central_extra_field_only",), ("writing_raw",), ("inner",), ("files",), ("stats", "hasher"), ("stats", "bytes_written")]
STARTERS = ("start_file", "start_file_from_path", "start_file_aligned", "start_file_with_extra_data")
ADDERS = ("add_directory", "add_directory_from_path", "add_symlink")
RAWS = ("raw_copy_file", "raw_copy_file_rename")


def build(facts):
    wimpl = [g.path for g in facts.fns if re.search(r"impl std::io::Write for write::zip_writer::ZipWriter<\w+>>::write$", g.path)]
    spec = Spec(TRACKED, r"ZipWriter|GenericZipWriter|ZipWriterStats|MaybeEncrypted", write_impl={(): wimpl[0]} if wimpl else {})
    m = Machine(facts, spec)

    def from_struct(av):
        sg = {}
        for P in TRACKED:
            v = av
            for el in P:
                v = dict(v[2]).get(el, TOP) if v[0] == "struct" else (("default",) if v == ("default",) else TOP)
            sg[P] = spec.default(P) if v == ("default",) else spec.coerce(P, v)
        return sg
    inits = []
    for nm in ("new", "new_append"):
        gs = [x for x in facts.fns if re.search(r"ZipWriter<\w+>>::%s$" % nm, x.path)]
        for g in gs:
            for kind, rav, s2 in m.run(g, [TOP] * g.arg_count, {}):
                v = rav
                if kind == "ret" and v[0] == "var" and v[1] == "Ok":
                    v = v[2]
                if kind == "ret" and v[0] == "struct" and v[1].startswith(ZWT):
                    inits.append((nm, from_struct(v)))
    meths = []
    for g in facts.fns:
        if g.impl_self and ZWT in g.impl_self and g.name not in ("new", "new_append") and g.kind in ("AssocFn", "Fn") and (g.is_public() or g.impl_trait):
            if "{closure" in g.path:
                continue
            meths.append((g.name, g))

    def bind(fn, sg):
        a = [("ref", ())]
        for i in range(2, fn.arg_count + 1):
            ty = fn.locals[i].get("ty") or ""
            if ty.endswith("FileOptions") and fn.name != "start_file":
                a.append(("struct", "write::FileOptions", (("encrypt_with", VAR("None")),)))
            else:
                a.append(TOP)
        return a
    return m, inits, meths, bind


def analyse(facts):
    """run the exploration once per fact base; -> dict(error=..) | dict(m, inits, meths, states, trans)"""
    c = facts.__dict__.get("_tsx")
    if c is not None:
        return c
    try:
        m, inits, meths, bind = build(facts)
        if not inits:
            raise Unsupported("no initial state: ZipWriter::new / new_append do not return a ZipWriter record the engine can read")
        states, trans = explore(m, inits, meths, bind, dead_after=("drop",))
        c = dict(m=m, inits=inits, meths=meths, states=states, trans=trans)
    except (Unsupported, TooComplex) as e:
        c = dict(error=str(e))
    facts.__dict__["_tsx"] = c
    return c


def holds(facts, *prefixes):
    """True iff the exploration succeeded and no C12-TSX obligation whose key starts with one of `prefixes` fails ('' = all).
    Used by structural rules whose only purpose is one of these obligations: when the code takes a shape they do not recognise,
    the obligation itself -- decided on the state machine -- is the verdict."""
    from engine.report import Report
    c = facts.__dict__.get("_tsx_keys")
    if c is None:
        r = Report("C12", "quick", 0)
        try:
            typestate_rules(facts, r)
            c = {i["key"] for i in r.instances if i["verdict"] == "violation"}
        except Exception:       # noqa: BLE001
            c = {"unsupported"}
        facts.__dict__["_tsx_keys"] = c
    if "unsupported" in c:
        return False
    return not any(k.startswith(p) for k in c for p in prefixes)


def typestate_rules(facts, rep, rule="C12-TSX"):
    ok = True
    t0 = time.time()
    a = analyse(facts)
    if "error" in a:
        rep.violation(rule, "unsupported", "", "the writer's state machine could not be computed on this tree (%s) -- fail closed" % a["error"][:200])
        return False
    m, inits, meths, states, trans = a["m"], a["inits"], a["meths"], a["states"], a["trans"]
    rep.count("typestate_reachable_states", len(states))
    rep.count("typestate_transitions", len(trans))
    rep.count("typestate_methods", len(meths))
    rep.count("typestate_abstract_configs", m.nconfigs)
    labs = {l for l, _ in meths}
    fn_of = dict(meths)

    def B(sg, p):
        return sg[tuple(p.split("."))]
    # ---------------- panics
    pan = {}
    for (k, lab, kind, oc, k2, rav) in trans:
        if kind != "ret":
            site = kind[1]
            key = "panic:%s<-%s" % (re.sub(r"\s*@.*$", "", site), lab)
            if key not in pan or len(trace(states, k)) < len(pan[key][0]):
                pan[key] = (trace(states, k), site, show_state(states[k][0], ORDER))
    for key, (tr, site, st) in sorted(pan.items()):
        ok = False
        rep.violation(rule, key, site.split("@")[-1].strip().split(" ")[0], "a call can panic: %s -> %s reaches %s in state [%s]" % (tr, key.split("<-")[1], site, st))
    rep.check(not pan, rule, "panic-free", "", "no state-decided panic in any of %d reachable abstract states x %d methods" % (len(states), len(meths)),
              "%d typestate panic(s) reachable" % len(pan))
    # ---------------- postconditions
    bad = {}

    def viol(key, k, lab, detail):
        tr = "%s -> %s" % (trace(states, k), lab)
        if key not in bad or len(tr) < len(bad[key][0]):
            bad[key] = (tr, detail)
    nchecked = 0
    for (k, lab, kind, oc, k2, rav) in trans:
        if kind != "ret":
            continue
        s, s2 = states[k][0], dict(k2)
        nchecked += 1
        if lab == "write" and B(s, "writing_to_file") == C(0) and oc != "Err":
            viol("P1:write-without-open-file", k, lab, "write() returns %s although no file is open [%s]" % (oc, show_state(s, ORDER)))
        if lab in ADDERS and oc == "Ok" and B(s2, "writing_to_file") != C(0):
            viol("P2:%s-leaves-file-open" % lab, k, lab, "after a successful %s the writer still accepts data [%s]: a write after a directory/symlink is absorbed" % (lab, show_state(s2, ORDER)))
        if lab in ("end_extra_data", "end_local_start_central_extra_data") and B(s, "writing_to_extra_field") == C(0) and oc != "Err":
            viol("P3:%s-outside-extra-mode" % lab, k, lab, "%s returns %s although extra data was never begun" % (lab, oc))
        if lab == "finish" and oc == "Ok":
            if B(s2, "inner")[:2] != ("var", "Closed") or B(s2, "writing_to_file") != C(0) or B(s2, "writing_raw") != C(0) or B(s2, "writing_to_extra_field") != C(0):
                viol("P4:finish-post", k, lab, "after a successful finish() the writer is not closed / an entry is still open [%s]" % show_state(s2, ORDER))
        if B(s, "inner")[:2] == ("var", "Closed") and lab in STARTERS + ADDERS + RAWS + ("write",) and oc != "Err":
            viol("P4:%s-on-closed-writer" % lab, k, lab, "%s returns %s on a closed writer" % (lab, oc))
        if lab in STARTERS and oc in ("Ok", "value"):
            if B(s2, "writing_to_file") != C(1) or B(s2, "inner")[:2] == ("var", "Closed") or B(s2, "files") != TAG("nonempty"):
                viol("P5:%s-opens-file" % lab, k, lab, "a successful %s does not leave a file open on a live sink [%s]" % (lab, show_state(s2, ORDER)))
            if B(s2, "writing_raw") != C(0):
                viol("P5:%s-raw-flag" % lab, k, lab, "a successful %s leaves writing_raw set: the new entry is treated as a raw copy and its CRC/sizes are never patched [%s]" % (lab, show_state(s2, ORDER)))
            if B(s2, "stats.hasher") != TAG("fresh") or B(s2, "stats.bytes_written") != TAG("zero"):
                viol("P5:%s-fresh-accounting" % lab, k, lab, "a successful %s starts the entry with a used hasher / byte counter [%s]: bytes of an earlier entry are counted into this one" % (lab, show_state(s2, ORDER)))
        if lab in ADDERS + RAWS and oc == "Ok" and B(s2, "files") != TAG("nonempty"):
            viol("P6:%s-adds-entry" % lab, k, lab, "a successful %s leaves the entry list empty" % lab)
        if lab in ADDERS and oc == "Ok" and B(s2, "writing_raw") != C(0):
            viol("P8:%s-raw-flag" % lab, k, lab, "a successful %s leaves writing_raw set [%s]" % (lab, show_state(s2, ORDER)))
    for k, (sg, par, via) in states.items():
        if B(sg, "writing_to_extra_field") == C(1) and B(sg, "writing_to_central_extra_field_only") == C(0) and B(sg, "inner") != VAR("Storer", VAR("Unencrypted")):
            viol("INV:extra-mode=>plain-stored-sink", k, "", "extra-data mode with a sink that is not plain stored [%s]" % show_state(sg, ORDER))
        if B(sg, "writing_to_central_extra_field_only") == C(1) and B(sg, "writing_to_extra_field") != C(1):
            viol("INV:central-only=>extra-mode", k, "", "central-only flag outlives extra-data mode [%s]: it leaks into the next entry's extra data" % show_state(sg, ORDER))
        if (B(sg, "writing_to_file") == C(1) or B(sg, "writing_to_extra_field") == C(1)) and B(sg, "files") != TAG("nonempty"):
            viol("INV:open=>current-entry", k, "", "a file / extra-data mode is open without a current entry [%s]" % show_state(sg, ORDER))
    KEYS = ["P1:write-without-open-file"] + ["P2:%s-leaves-file-open" % a for a in ADDERS] + ["P3:end_extra_data-outside-extra-mode", "P3:end_local_start_central_extra_data-outside-extra-mode",
            "P4:finish-post"] + ["P4:%s-on-closed-writer" % a for a in STARTERS + ADDERS + RAWS + ("write",)] + \
           ["P5:%s-%s" % (a, b) for a in STARTERS for b in ("opens-file", "raw-flag", "fresh-accounting")] + ["P6:%s-adds-entry" % a for a in ADDERS + RAWS] + \
           ["P8:%s-raw-flag" % a for a in ADDERS] + ["INV:extra-mode=>plain-stored-sink", "INV:central-only=>extra-mode", "INV:open=>current-entry"]
    for key in KEYS:
        meth = key.split(":", 1)[1].split("-")[0]
        if key.startswith(("P2", "P3", "P4:", "P5", "P6", "P8")) and meth in fn_of or key in ("P4:finish-post",):
            pass
        f = fn_of.get(meth)
        if key.startswith(("P2", "P3", "P5", "P6", "P8")) and f is None or (key.startswith("P4:") and key != "P4:finish-post" and f is None):
            continue        # the method does not exist in this configuration / tree
        if key in bad:
            ok = False
            rep.violation(rule, key, where(f, f.span) if f is not None else "", "%s; shortest witness: %s" % (bad[key][1], bad[key][0]))
        else:
            rep.ok(rule, key, where(f, f.span) if f is not None else "", "holds in all %d reachable abstract states (%d transitions examined)" % (len(states), nchecked))
    for key in bad:
        if key not in KEYS:
            ok = False
            rep.violation(rule, key, "", "%s; witness: %s" % (bad[key][1], bad[key][0]))
    # the alphabet must be the whole API (fail closed when a method disappears from view)
    want = set(STARTERS + ADDERS + RAWS + ("write", "flush", "finish", "drop", "end_extra_data", "end_local_start_central_extra_data", "set_comment"))
    missing = sorted(want - labs)
    ok &= rep.check(not missing and len(inits) >= 2, rule, "alphabet", "", "%d methods, %d initial states (new, new_append)" % (len(meths), len(inits)),
                    "the writer alphabet is incomplete (missing %s; initial states %d)" % (missing, len(inits)))
    if m.assumed:
        rep.assume("foreign callees given a shared reference into the writer do not change tracked state: %s" % ", ".join(sorted(m.assumed))[:300])
    rep.assume("flate2/bzip2/zstd encoders own the sink they are constructed with and return it from finish()")
    rep.count("typestate_seconds_x10", int((time.time() - t0) * 10))
    return ok


# ------------------------------------------------------------------------------------------------------------------ AES reader
def aes_typestate_rules(facts, rep, rule="C16-TSX"):
    """E6 applied to AesReaderValid: abstract state (data_remaining: zero | nonzero, finalized: bool); alphabet {read}; initial
    states read off AesReader::validate.  Obligation: in no state reachable by any sequence of read() calls -- including calls after
    a read that failed half-way (I/O error on the data or on the authentication code, MAC mismatch) -- does `assert!(!finalized)`
    (or any other state-decided panic) fire; and once the data is exhausted read() returns Ok(0) without touching the MAC again."""
    ok = True
    rd = [g for g in facts.fns if re.search(r"^<aes::AesReaderValid<\w+> as std::io::Read>::read$", g.path)]
    va = [g for g in facts.fns if re.search(r"^aes::AesReader::<\w+>::validate$", g.path)]
    if not rd or not va:
        return True     # AES support is not compiled in this configuration
    tracked = {("data_remaining",): "zn", ("finalized",): "bool"}
    spec = Spec(tracked, r"^aes::|AesReaderValid")
    m = Machine(facts, spec)
    try:
        inits = []
        for kind, rav, s2 in m.run(va[0], [TOP] * va[0].arg_count, {}):
            v = rav
            for _ in range(3):
                if kind == "ret" and v[0] == "var" and v[1] in ("Ok", "Some"):
                    v = v[2]
            if kind == "ret" and v[0] == "struct" and "AesReaderValid" in v[1]:
                d = dict(v[2])
                inits.append(("validate", {P: spec.coerce(P, d.get(P[0], TOP)) for P in tracked}))
        if not inits:
            raise Unsupported("AesReader::validate does not return an AesReaderValid record the engine can read")
        states, trans = explore(m, inits, [("read", rd[0])], lambda fn, sg: [("ref", ()), TOP], max_states=200)
    except (Unsupported, TooComplex) as e:
        rep.violation(rule, "unsupported", "", "the AES reader's state machine could not be computed on this tree (%s) -- fail closed" % str(e)[:200])
        return False
    rep.count("aes_typestate_states", len(states))
    pan, bad = {}, {}
    for (k, lab, kind, oc, k2, rav) in trans:
        s = states[k][0]
        if kind != "ret":
            key = "panic:%s<-%s" % (re.sub(r"\s*@.*$", "", kind[1]), lab)
            pan.setdefault(key, (trace(states, k), kind[1], show_state(s)))
            continue
        s2 = dict(k2)
        if s[("data_remaining",)] == TAG("zero") and not (oc == "Ok" and rav[2] == C(0) and s2 == s):
            bad.setdefault("eof-sticky", "read() with nothing left returns %s / changes state %s -> %s (witness: %s)" % (oc, show_state(s), show_state(s2), trace(states, k)))
        if s2[("finalized",)] == C(1) and s2[("data_remaining",)] != TAG("zero"):
            bad.setdefault("finalized=>exhausted", "a read() leaves the MAC finalised while the object still counts bytes to read [%s] (witness: %s -> read:%s): the next read() "
                           "re-enters the data path with a finalised MAC" % (show_state(s2), trace(states, k), oc))
    for key, (tr, site, st) in sorted(pan.items()):
        ok = False
        rep.violation(rule, key, site.split("@")[-1].strip().split(" ")[0], "read() can panic after: %s, in state [%s] (%s)" % (tr, st, site))
    rep.check(not pan, rule, "panic-free", where(rd[0], rd[0].span), "no state-decided panic in any of %d reachable states of the AES reader" % len(states), "%d panic(s) reachable" % len(pan))
    for key in ("eof-sticky", "finalized=>exhausted"):
        ok &= rep.check(key not in bad, rule, key, where(rd[0], rd[0].span), "holds in all %d reachable states" % len(states), bad.get(key, ""))
    return ok and not pan


# ------------------------------------------------------------------------------------------------------------------ ZipFile (lazy reader)
def zipfile_typestate_rules(facts, rep, rule="C05-TS-ZIPFILE"):
    """E6 applied to read::ZipFile: abstract state (reader: variant of ZipFileReader, crypto_reader: Some | None); initial states read
    off every function that constructs a ZipFile (by_index*, by_index_raw, read_zipfile_from_stream); alphabet {read, get_raw_reader,
    drop}.  Obligation: `expect("Invalid reader state")` and the other state-decided panics are dead for every sequence of calls."""
    from engine.query import aggregates
    ok = True
    tracked = {("reader",): "enum", ("crypto_reader",): "enum"}
    spec = Spec(tracked, r"^read::(make_reader|make_crypto_reader|ZipFile::|ZipFileReader|CryptoReader)|ZipFile<")
    m = Machine(facts, spec)
    ctors = [f for f in facts.fns if any(True for _ in aggregates(f, r"^read::ZipFile$"))]
    meths = []
    for g in facts.fns:
        if g.impl_self and re.search(r"^read::ZipFile<", g.impl_self) and g.name in ("read", "drop", "get_raw_reader", "get_reader") and g.name != "get_reader":
            meths.append((g.name, g))
    try:
        inits = []
        for c in ctors:
            for kind, rav, s2 in m.run(c, [TOP] * c.arg_count, {}):
                v = rav
                for _ in range(4):
                    if kind == "ret" and v[0] == "var" and v[1] in ("Ok", "Some") and v[2][0] in ("var", "struct"):
                        v = v[2]
                if kind == "ret" and v[0] == "struct" and v[1].startswith("read::ZipFile"):
                    d = dict(v[2])
                    inits.append((c.name, {P: spec.coerce(P, d.get(P[0], TOP)) for P in tracked}))
        if not inits or not meths:
            raise Unsupported("no ZipFile construction / methods found")
        states, trans = explore(m, inits, meths, lambda fn, sg: [("ref", ())] + [TOP] * (fn.arg_count - 1), dead_after=("drop",), max_states=500)
    except (Unsupported, TooComplex) as e:
        rep.violation(rule, "tsx-unsupported", "", "ZipFile's state machine could not be computed on this tree (%s) -- fail closed" % str(e)[:200])
        return False
    rep.count("zipfile_typestate_states", len(states))
    rep.count("zipfile_typestate_inits", len({freeze_(s) for _, s in inits}))
    pan = {}
    for (k, lab, kind, oc, k2, rav) in trans:
        if kind != "ret":
            key = "tsx-panic:%s<-%s" % (re.sub(r"\s*@.*$", "", kind[1]), lab)
            pan.setdefault(key, (trace(states, k), kind[1], show_state(states[k][0])))
    for key, (tr, site, st) in sorted(pan.items()):
        ok = False
        rep.violation(rule, key, site.split("@")[-1].strip().split(" ")[0], "a call can panic: %s, in state [%s] (%s)" % (tr, st, site))
    rep.check(not pan, rule, "tsx-panic-free", "", "no state-decided panic in any of %d reachable states of ZipFile x %s (constructors: %s)" % (
        len(states), [l for l, _ in meths], sorted({l for l, _ in inits})), "%d panic(s) reachable" % len(pan))
    bad = [show_state(sg) for sg, _, _ in states.values() if sg[("reader",)][:2] == ("var", "NoReader") and sg[("crypto_reader",)][:2] == ("var", "None") and _ is not None]
    return ok


def freeze_(d):
    return tuple(sorted(d.items()))
