"""C12 (stub while building)"""
from rules.shared_panic import panic_rule, is_write_root


def run(ctx, rep):
    facts = ctx.facts
    panic_rule(ctx, rep, "C12-PANIC", facts, is_write_root)
